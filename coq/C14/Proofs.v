(* C14 — lemmas.  Everything is about the code as it is ([current] flags)
   unless it says otherwise. *)
From Coq Require Import ZArith List Bool Lia ZifyBool.
From Verif Require Import C14.Model.
Import ListNotations.
Local Open Scope Z_scope.

(* ------------------------------------------------------------------ *)
(* dictionaries, membership                                             *)

Section AssocLemmas.
Context {A : Type}.
Implicit Types m : list (Z * A).

Lemma aget_aset_eq m k v : aget (aset m k v) k = Some v.
Proof.
  induction m as [|[k' v'] m IH]; simpl.
  - now rewrite Z.eqb_refl.
  - destruct (Z.eqb k' k) eqn:E; simpl.
    + now rewrite Z.eqb_refl.
    + now rewrite E.
Qed.

Lemma aget_aset_neq m k v k' : k <> k' -> aget (aset m k v) k' = aget m k'.
Proof.
  intros N. induction m as [|[k0 v0] m IH]; simpl.
  - destruct (Z.eqb k k') eqn:E; [lia|reflexivity].
  - destruct (Z.eqb k0 k) eqn:E; simpl.
    + assert (k0 = k) by lia. subst.
      destruct (Z.eqb k k') eqn:E2; [lia|reflexivity].
    + destruct (Z.eqb k0 k'); auto.
Qed.

Lemma aget_aset m k v k' :
  aget (aset m k v) k' = if Z.eqb k k' then Some v else aget m k'.
Proof.
  destruct (Z.eqb k k') eqn:E.
  - assert (k = k') by lia. subst. apply aget_aset_eq.
  - apply aget_aset_neq. lia.
Qed.

Lemma aset_same m k v : aget m k = Some v -> aset m k v = m.
Proof.
  induction m as [|[k0 v0] m IH]; simpl; [discriminate|].
  destruct (Z.eqb k0 k) eqn:E; intros H.
  - inversion H; subst. assert (k0 = k) by lia. now subst.
  - now rewrite IH.
Qed.

Lemma aget_adel m k k' :
  aget (adel m k) k' = if Z.eqb k k' then None else aget m k'.
Proof.
  unfold adel. induction m as [|[k0 v0] m IH]; simpl.
  - now destruct (Z.eqb k k').
  - destruct (Z.eqb k0 k) eqn:E; simpl.
    + rewrite IH. destruct (Z.eqb k k') eqn:E2; auto.
      destruct (Z.eqb k0 k') eqn:E3; auto. lia.
    + rewrite IH. destruct (Z.eqb k0 k') eqn:E3; auto.
      destruct (Z.eqb k k') eqn:E2; auto. lia.
Qed.

Lemma aget_In m k v : aget m k = Some v -> In (k, v) m.
Proof.
  induction m as [|[k0 v0] m IH]; simpl; [discriminate|].
  destruct (Z.eqb k0 k) eqn:E; intros H.
  - inversion H; subst. left. f_equal. lia.
  - right. auto.
Qed.

Lemma aget_None_notin m k : aget m k = None -> ~ In k (map fst m).
Proof.
  induction m as [|[k0 v0] m IH]; simpl; [tauto|].
  destruct (Z.eqb k0 k) eqn:E; [discriminate|].
  intros H [H1|H1]; [lia|]. now apply IH.
Qed.

Lemma aget_Some_in m k v : aget m k = Some v -> In k (map fst m).
Proof. intros H. apply aget_In in H. change k with (fst (k, v)). now apply in_map. Qed.

Lemma in_keys_aget m k : In k (map fst m) -> exists v, aget m k = Some v.
Proof.
  induction m as [|[k0 v0] m IH]; simpl; [tauto|].
  intros [H|H]; destruct (Z.eqb k0 k) eqn:E; eauto; lia.
Qed.
End AssocLemmas.

Lemma memz_In x l : memz x l = true <-> In x l.
Proof.
  unfold memz. rewrite existsb_exists. split.
  - intros (y & Hy & E). assert (x = y) by lia. now subst.
  - intros H. exists x. split; auto. lia.
Qed.

Lemma memz_false x l : memz x l = false <-> ~ In x l.
Proof. rewrite <- memz_In. destruct (memz x l); split; congruence. Qed.

Lemma remz_In x y l : In y (remz x l) <-> In y l /\ y <> x.
Proof.
  unfold remz. rewrite filter_In. split; intros [H1 H2]; split; auto; lia.
Qed.

Lemma oeqb_true a x : oeqb a x = true <-> a = Some x.
Proof.
  destruct a as [y|]; simpl; split; intros H; try discriminate.
  - f_equal. lia.
  - inversion H. lia.
Qed.

Lemma oeqb_false a x : oeqb a x = false <-> a <> Some x.
Proof. rewrite <- oeqb_true. destruct (oeqb a x); split; congruence. Qed.

(* ------------------------------------------------------------------ *)
(* state projections                                                    *)

Lemma get_lock_put_lock s r l r' :
  get_lock (put_lock s r l) r' = if Z.eqb r r' then Some l else get_lock s r'.
Proof. unfold get_lock, put_lock. simpl. apply aget_aset. Qed.
Lemma get_ctx_put_lock s r l o : get_ctx (put_lock s r l) o = get_ctx s o.
Proof. reflexivity. Qed.
Lemma get_ctx_put_ctx s o c o' :
  get_ctx (put_ctx s o c) o' = if Z.eqb o o' then Some c else get_ctx s o'.
Proof. unfold get_ctx, put_ctx. simpl. apply aget_aset. Qed.
Lemma get_lock_put_ctx s o c r : get_lock (put_ctx s o c) r = get_lock s r.
Proof. reflexivity. Qed.
Lemma get_lock_set_edges s g r : get_lock (set_edges s g) r = get_lock s r.
Proof. reflexivity. Qed.
Lemma get_ctx_set_edges s g o : get_ctx (set_edges s g) o = get_ctx s o.
Proof. reflexivity. Qed.
Lemma get_lock_set_active s a r : get_lock (set_active s a) r = get_lock s r.
Proof. reflexivity. Qed.
Lemma get_ctx_set_active s a o : get_ctx (set_active s a) o = get_ctx s o.
Proof. reflexivity. Qed.
Lemma get_lock_set_now s a r : get_lock (set_now s a) r = get_lock s r.
Proof. reflexivity. Qed.
Lemma get_ctx_set_now s a o : get_ctx (set_now s a) o = get_ctx s o.
Proof. reflexivity. Qed.
Lemma active_put_lock s r l : active (put_lock s r l) = active s. Proof. reflexivity. Qed.
Lemma active_put_ctx s o c : active (put_ctx s o c) = active s. Proof. reflexivity. Qed.
Lemma active_set_edges s g : active (set_edges s g) = active s. Proof. reflexivity. Qed.
Lemma active_set_active s a : active (set_active s a) = a. Proof. reflexivity. Qed.
Lemma active_set_now s a : active (set_now s a) = active s. Proof. reflexivity. Qed.

Lemma put_lock_same s r l : get_lock s r = Some l -> put_lock s r l = s.
Proof.
  unfold get_lock, put_lock, set_resources. intros H. rewrite (aset_same _ _ _ H). now destruct s.
Qed.

Create HintDb st discriminated.
#[export] Hint Rewrite get_lock_put_lock get_ctx_put_lock get_ctx_put_ctx get_lock_put_ctx
  get_lock_set_edges get_ctx_set_edges get_lock_set_active get_ctx_set_active
  get_lock_set_now get_ctx_set_now
  active_put_lock active_put_ctx active_set_edges active_set_active active_set_now : st.

Lemma owner_def s r : owner s r = match get_lock s r with Some l => l_owner l | None => None end.
Proof. reflexivity. Qed.

(* ------------------------------------------------------------------ *)
(* well-formedness                                                      *)

Definition lock_ok (l : lock) : Prop :=
  match l_owner l with None => l_hold l = 0 | Some _ => 1 <= l_hold l end.

(* Every lock is consistent; every owner is an ACTIVE operation whose context
   lists the resource (so completion/abort will find and free it); active
   operations have a context. *)
Record WF (s : st) : Prop := mkWF {
  wf_lock : forall r l, get_lock s r = Some l -> lock_ok l;
  wf_own : forall r l o, get_lock s r = Some l -> l_owner l = Some o ->
             In o (active s) /\ exists c, get_ctx s o = Some c /\ In r (c_acq c);
  wf_act : forall o, In o (active s) -> exists c, get_ctx s o = Some c }.

Definition owns_nothing (s : st) (o : Z) : Prop := forall r, owner s r <> Some o.

Lemma owner_Some s r o :
  owner s r = Some o <-> exists l, get_lock s r = Some l /\ l_owner l = Some o.
Proof.
  rewrite owner_def. destruct (get_lock s r) as [l|]; split.
  - intros H. eauto.
  - intros (l' & H1 & H2). inversion H1; subst. auto.
  - discriminate.
  - intros (l' & H1 & _). discriminate.
Qed.

Lemma wf_owner_active s r o : WF s -> owner s r = Some o -> In o (active s).
Proof. intros W H. apply owner_Some in H as (l & H1 & H2). now apply (wf_own s W r l o). Qed.

Lemma wf_fresh_owns_nothing s o : WF s -> get_ctx s o = None -> owns_nothing s o.
Proof.
  intros W F r H. apply owner_Some in H as (l & H1 & H2).
  destruct (wf_own s W r l o H1 H2) as (_ & c & Hc & _). congruence.
Qed.

Lemma wf_fresh_not_active s o : WF s -> get_ctx s o = None -> ~ In o (active s).
Proof. intros W F H. destruct (wf_act s W o H) as (c & Hc). congruence. Qed.

Lemma wf_inactive_owns_nothing s o : WF s -> ~ In o (active s) -> owns_nothing s o.
Proof. intros W N r H. apply N. eapply wf_owner_active; eauto. Qed.

(* updating a context without shrinking its acquired list *)
Lemma wf_put_ctx s o c c' :
  WF s -> get_ctx s o = Some c -> incl (c_acq c) (c_acq c') -> WF (put_ctx s o c').
Proof.
  intros W Hc Hi. constructor.
  - intros r l. autorewrite with st. apply (wf_lock s W).
  - intros r l o'. autorewrite with st. intros H1 H2.
    destruct (wf_own s W r l o' H1 H2) as (Ha & c0 & Hc0 & Hin). split; auto.
    destruct (Z.eqb o o') eqn:E.
    + assert (o = o') by lia. subst. exists c'. split; auto. apply Hi. congruence.
    + eauto.
  - intros o'. autorewrite with st. intros H.
    destruct (Z.eqb o o'); eauto. apply (wf_act s W o' H).
Qed.

Lemma wf_set_edges s g : WF s -> WF (set_edges s g).
Proof. intros [A B C]. constructor; auto. Qed.

Lemma wf_set_now s t : WF s -> WF (set_now s t).
Proof. intros [A B C]. constructor; auto. Qed.

Lemma wf_init res : WF (init_state res).
Proof.
  constructor.
  - intros r l H. apply aget_In in H. unfold init_state in H. simpl in H.
    apply in_map_iff in H as (x & Hx & _). inversion Hx; subst. reflexivity.
  - intros r l o H Ho. apply aget_In in H. unfold init_state in H. simpl in H.
    apply in_map_iff in H as (x & Hx & _). inversion Hx; subst. discriminate.
  - intros o [].
Qed.

(* ------------------------------------------------------------------ *)
(* ResourceLock                                                         *)

Lemma try_acquire_cases l o p l' res :
  try_acquire l o p = (l', res) ->
  (res = LReentrant /\ l_owner l = Some o /\
     l' = mkLock (l_owner l) (l_prio l) (l_hold l + 1) (l_preempt l) (l_wait l)) \/
  (res = LAcquired /\ l_owner l = None /\ l' = mkLock (Some o) p 1 (l_preempt l) (l_wait l)) \/
  (res = LPreempted /\ (exists old, l_owner l = Some old /\ old <> o) /\
     l_owner l' = Some o /\ l_hold l' = 1 /\ l_prio l' = p) \/
  (res = LBlocked /\ (exists old, l_owner l = Some old /\ old <> o) /\
     l_owner l' = l_owner l /\ l_hold l' = l_hold l /\ l_prio l' = l_prio l).
Proof.
  unfold try_acquire. destruct (oeqb (l_owner l) o) eqn:E.
  - apply oeqb_true in E. intros H. inversion H; subst. left. auto.
  - apply oeqb_false in E. destruct (l_owner l) as [old|] eqn:Ho.
    + destruct (l_preempt l && Z.gtb p (l_prio l)); intros H; inversion H; subst; simpl.
      * right. right. left. repeat split; auto. exists old. split; congruence.
      * right. right. right. repeat split; auto. exists old. split; congruence.
    + intros H. inversion H; subst. right. left. auto.
Qed.

Lemma lock_release_cases l o l' b :
  lock_release l o = (l', b) ->
  (b = false /\ l' = l /\ l_owner l <> Some o) \/
  (b = true /\ l_owner l = Some o /\ l_hold l <= 1 /\ l' = mkLock None 0 0 (l_preempt l) (l_wait l)) \/
  (b = true /\ l_owner l = Some o /\ 1 < l_hold l /\
     l' = mkLock (l_owner l) (l_prio l) (l_hold l - 1) (l_preempt l) (l_wait l)).
Proof.
  unfold lock_release. destruct (oeqb (l_owner l) o) eqn:E.
  - apply oeqb_true in E. destruct (Z.leb (l_hold l - 1) 0) eqn:E2; intros H; inversion H; subst.
    + right. left. repeat split; auto. lia.
    + right. right. repeat split; auto. lia.
  - apply oeqb_false in E. intros H. inversion H; subst. left. auto.
Qed.

Lemma drop_reentrant_other fuel o l :
  l_owner l <> Some o -> drop_reentrant fuel o l = l.
Proof.
  intros H. apply oeqb_false in H. destruct fuel; simpl; auto. now rewrite H.
Qed.

Lemma drop_reentrant_owned fuel o l :
  l_owner l = Some o -> 1 <= l_hold l -> (Z.to_nat (l_hold l) <= fuel)%nat ->
  drop_reentrant fuel o l = mkLock (Some o) (l_prio l) 1 (l_preempt l) (l_wait l).
Proof.
  revert l. induction fuel as [|f IH]; intros l Ho Hh Hf.
  - lia.
  - simpl. assert (E : oeqb (l_owner l) o = true) by now apply oeqb_true. rewrite E. simpl.
    destruct (Z.gtb (l_hold l) 1) eqn:G.
    + unfold lock_release. rewrite E.
      destruct (Z.leb (l_hold l - 1) 0) eqn:L; [lia|]. simpl.
      rewrite IH; simpl; auto; lia.
    + assert (l_hold l = 1) by lia. destruct l; simpl in *. subst. reflexivity.
Qed.

(* ------------------------------------------------------------------ *)
(* acquire_resource                                                     *)

Lemma incl_add_acq c r : incl (c_acq c) (c_acq (add_acq c r)) /\ In r (c_acq (add_acq c r)).
Proof.
  unfold add_acq. simpl. destruct (memz r (c_acq c)) eqn:E.
  - split; [apply incl_refl | now apply memz_In].
  - split; [apply incl_appl, incl_refl | apply in_or_app; right; simpl; auto].
Qed.

(* the shape of the result, independent of well-formedness *)
Lemma acquire_shape fl s o r s' res :
  acquire fl s o r = (s', res) ->
  match res with
  | ANoCtx => s' = s /\ get_ctx s o = None
  | AUnknown => s' = s /\ get_lock s r = None
  | AOk lr =>
      exists c l l' g,
        get_ctx s o = Some c /\ get_lock s r = Some l /\ try_acquire l o (c_prio c) = (l', lr) /\
        s' = set_edges (match lr with
                        | LBlocked => put_lock s r l'
                        | _ => put_ctx (put_lock s r l') o (add_acq c r) end) g
  end.
Proof.
  unfold acquire. destruct (get_ctx s o) as [c|] eqn:Hc.
  2:{ intros H; inversion H; subst; auto. }
  destruct (get_lock s r) as [l|] eqn:Hl.
  2:{ intros H; inversion H; subst; auto. }
  destruct (try_acquire l o (c_prio c)) as [l' lr] eqn:Ht.
  destruct lr; intros H; inversion H; subst; clear H;
    exists c, l, l'; eexists; repeat split; eauto.
Qed.

Lemma acquire_active fl s o r s' res : acquire fl s o r = (s', res) -> active s' = active s.
Proof.
  intros H. apply acquire_shape in H. destruct res as [lr| |].
  - destruct H as (c & l & l' & g & _ & _ & _ & ->). destruct lr; reflexivity.
  - destruct H as [-> _]. reflexivity.
  - destruct H as [-> _]. reflexivity.
Qed.

Lemma acquire_now fl s o r s' res : acquire fl s o r = (s', res) -> now s' = now s.
Proof.
  intros H. apply acquire_shape in H. destruct res as [lr| |].
  - destruct H as (c & l & l' & g & _ & _ & _ & ->). destruct lr; reflexivity.
  - destruct H as [-> _]. reflexivity.
  - destruct H as [-> _]. reflexivity.
Qed.

Lemma acquire_lock_frame fl s o r s' res r' :
  acquire fl s o r = (s', res) -> r' <> r -> get_lock s' r' = get_lock s r'.
Proof.
  intros H N. apply acquire_shape in H. destruct res as [lr| |].
  - destruct H as (c & l & l' & g & _ & _ & _ & ->).
    destruct lr; autorewrite with st; destruct (Z.eqb r r') eqn:E; auto; lia.
  - destruct H as [-> _]. reflexivity.
  - destruct H as [-> _]. reflexivity.
Qed.

Lemma acquire_ctx_frame fl s o r s' res o' :
  acquire fl s o r = (s', res) -> o' <> o -> get_ctx s' o' = get_ctx s o'.
Proof.
  intros H N. apply acquire_shape in H. destruct res as [lr| |].
  - destruct H as (c & l & l' & g & _ & _ & _ & ->).
    destruct lr; autorewrite with st; auto; destruct (Z.eqb o o') eqn:E; auto; lia.
  - destruct H as [-> _]. reflexivity.
  - destruct H as [-> _]. reflexivity.
Qed.

(* own context: only the acquired list may grow *)
Lemma acquire_ctx_self fl s o r s' res c :
  acquire fl s o r = (s', res) -> get_ctx s o = Some c ->
  exists x, get_ctx s' o = Some (c_set_acq c x) /\ incl (c_acq c) x.
Proof.
  intros H Hc. apply acquire_shape in H. destruct res as [lr| |].
  - destruct H as (c0 & l & l' & g & Hc0 & _ & _ & ->).
    assert (c0 = c) by congruence. subst.
    assert (Hsame : c_set_acq c (c_acq c) = c) by now destruct c.
    destruct lr; autorewrite with st; rewrite ?Z.eqb_refl.
    + exists (c_acq (add_acq c r)). split; [reflexivity | apply incl_add_acq].
    + exists (c_acq c). rewrite Hsame. split; [assumption | apply incl_refl].
    + exists (c_acq (add_acq c r)). split; [reflexivity | apply incl_add_acq].
    + exists (c_acq (add_acq c r)). split; [reflexivity | apply incl_add_acq].
  - destruct H as [-> _]. exists (c_acq c). split; [now destruct c | apply incl_refl].
  - destruct H as [-> _]. exists (c_acq c). split; [now destruct c | apply incl_refl].
Qed.

(* the lock that was asked for *)
Lemma acquire_lock_self fl s o r s' lr :
  acquire fl s o r = (s', AOk lr) ->
  exists l l', get_lock s r = Some l /\ get_lock s' r = Some l' /\
    match lr with
    | LBlocked => l_owner l' = l_owner l /\ l_hold l' = l_hold l /\ l_prio l' = l_prio l /\
                  l_owner l <> Some o /\ l_owner l <> None
    | LReentrant => l_owner l = Some o /\ l_owner l' = Some o
    | LAcquired => l_owner l = None /\ l_owner l' = Some o /\ l_hold l' = 1
    | LPreempted => l_owner l' = Some o /\ l_hold l' = 1 /\ l_owner l <> Some o /\ l_owner l <> None
    end.
Proof.
  intros H. apply acquire_shape in H. destruct H as (c & l & l' & g & _ & Hl & Ht & ->).
  exists l, l'. split; auto.
  split. { destruct lr; autorewrite with st; now rewrite Z.eqb_refl. }
  apply try_acquire_cases in Ht.
  destruct Ht as [(-> & Ho & ->)|[(-> & Ho & ->)|[(-> & (old & Ho & N) & A & B & C)|(-> & (old & Ho & N) & A & B & C)]]];
    simpl; repeat split; auto; try congruence.
Qed.

Lemma acquire_wf s o r s' res :
  WF s -> In o (active s) -> acquire current s o r = (s', res) -> WF s'.
Proof.
  intros W Ha H. pose proof (acquire_shape _ _ _ _ _ _ H) as S. destruct res as [lr| |].
  2:{ destruct S as [-> _]. auto. }
  2:{ destruct S as [-> _]. auto. }
  destruct S as (c & l & l' & g & Hc & Hl & Ht & ->).
  apply wf_set_edges.
  pose proof (wf_lock s W r l Hl) as Lok.
  apply try_acquire_cases in Ht.
  assert (Wl : forall l1,
             lock_ok l1 ->
             (forall o', l_owner l1 = Some o' -> o' = o \/ l_owner l = Some o') ->
             WF (put_ctx (put_lock s r l1) o (add_acq c r))).
  { intros l1 Ok Hown. constructor.
    - intros r0 l0. autorewrite with st. destruct (Z.eqb r r0) eqn:E.
      + intros X; inversion X; subst; auto.
      + apply (wf_lock s W).
    - intros r0 l0 o0. autorewrite with st. destruct (Z.eqb r r0) eqn:E.
      + intros X Ho0; inversion X; subst. assert (r = r0) by lia. subst r0.
        destruct (Hown o0 Ho0) as [->|Hold].
        * split; auto. rewrite Z.eqb_refl. eexists; split; eauto. apply incl_add_acq.
        * destruct (wf_own s W r l o0 Hl Hold) as (A & c0 & Hc0 & Hin). split; auto.
          destruct (Z.eqb o o0) eqn:E2.
          -- assert (o = o0) by lia. subst. eexists; split; eauto. apply incl_add_acq.
          -- eauto.
      + intros X Ho0. destruct (wf_own s W r0 l0 o0 X Ho0) as (A & c0 & Hc0 & Hin). split; auto.
        destruct (Z.eqb o o0) eqn:E2.
        * assert (o = o0) by lia. subst. eexists; split; eauto.
          apply incl_add_acq. congruence.
        * eauto.
    - intros o0. autorewrite with st. intros X. destruct (Z.eqb o o0); eauto.
      apply (wf_act s W o0 X). }
  destruct Ht as [(-> & Ho & ->)|[(-> & Ho & ->)|[(-> & (old & Ho & N) & A & B & C)|(-> & (old & Ho & N) & A & B & C)]]].
  - apply Wl.
    + unfold lock_ok in *. simpl. rewrite Ho in *. lia.
    + simpl. auto.
  - apply Wl.
    + unfold lock_ok. simpl. lia.
    + simpl. intros o' X. inversion X. auto.
  - apply Wl.
    + unfold lock_ok. rewrite A. lia.
    + intros o' X. left. congruence.
  - (* blocked: owner, hold untouched; no context change *)
    constructor.
    + intros r0 l0. autorewrite with st. destruct (Z.eqb r r0) eqn:E.
      * intros X; inversion X; subst. unfold lock_ok in *. rewrite A, B. auto.
      * apply (wf_lock s W).
    + intros r0 l0 o0. autorewrite with st. destruct (Z.eqb r r0) eqn:E.
      * intros X Ho0; inversion X; subst. assert (r = r0) by lia. subst r0.
        rewrite A in Ho0. apply (wf_own s W r l o0 Hl Ho0).
      * apply (wf_own s W).
    + apply (wf_act s W).
Qed.

(* ------------------------------------------------------------------ *)
(* release_resource                                                     *)

Lemma release_shape s o r s' b :
  release current s o r = (s', b) ->
  (b = false /\ s' = s) \/
  (b = true /\ exists c l l' g,
     get_ctx s o = Some c /\ In r (c_acq c) /\ get_lock s r = Some l /\
     lock_release l o = (l', true) /\
     s' = set_edges (if negb (oeqb (l_owner l') o)
                     then put_ctx (put_lock s r l') o (c_set_acq c (remz r (c_acq c)))
                     else put_lock s r l') g).
Proof.
  unfold release. destruct (get_ctx s o) as [c|] eqn:Hc.
  2:{ intros H; inversion H; auto. }
  destruct (memz r (c_acq c)) eqn:Hm; simpl.
  2:{ intros H; inversion H; auto. }
  destruct (get_lock s r) as [l|] eqn:Hl.
  2:{ intros H; inversion H; auto. }
  destruct (lock_release l o) as [l' ok] eqn:Hr. destruct ok.
  2:{ intros H; inversion H; auto. }
  intros H; inversion H; subst; clear H. right. split; auto.
  exists c, l, l'. eexists. repeat split; eauto. now apply memz_In.
Qed.

Lemma release_active s o r s' b : release current s o r = (s', b) -> active s' = active s.
Proof.
  intros H. apply release_shape in H as [[_ ->]|(_ & c & l & l' & g & _ & _ & _ & _ & ->)]; auto.
  destruct (negb (oeqb (l_owner l') o)); reflexivity.
Qed.

Lemma release_now s o r s' b : release current s o r = (s', b) -> now s' = now s.
Proof.
  intros H. apply release_shape in H as [[_ ->]|(_ & c & l & l' & g & _ & _ & _ & _ & ->)]; auto.
  destruct (negb (oeqb (l_owner l') o)); reflexivity.
Qed.

Lemma release_lock_frame s o r s' b r' :
  release current s o r = (s', b) -> r' <> r -> get_lock s' r' = get_lock s r'.
Proof.
  intros H N. apply release_shape in H as [[_ ->]|(_ & c & l & l' & g & _ & _ & _ & _ & ->)]; auto.
  destruct (negb (oeqb (l_owner l') o)); autorewrite with st;
    destruct (Z.eqb r r') eqn:E; auto; lia.
Qed.

Lemma release_ctx_frame s o r s' b o' :
  release current s o r = (s', b) -> o' <> o -> get_ctx s' o' = get_ctx s o'.
Proof.
  intros H N. apply release_shape in H as [[_ ->]|(_ & c & l & l' & g & _ & _ & _ & _ & ->)]; auto.
  destruct (negb (oeqb (l_owner l') o)); autorewrite with st; auto.
  destruct (Z.eqb o o') eqn:E; auto; lia.
Qed.

Lemma release_ctx_self s o r s' b c :
  release current s o r = (s', b) -> get_ctx s o = Some c ->
  exists x, get_ctx s' o = Some (c_set_acq c x) /\ incl x (c_acq c).
Proof.
  intros H Hc.
  assert (Hsame : c_set_acq c (c_acq c) = c) by now destruct c.
  apply release_shape in H as [[_ ->]|(_ & c0 & l & l' & g & Hc0 & _ & _ & _ & ->)].
  - exists (c_acq c). rewrite Hsame. split; auto. apply incl_refl.
  - assert (c0 = c) by congruence. subst.
    destruct (negb (oeqb (l_owner l') o)); autorewrite with st.
    + rewrite Z.eqb_refl. eexists. split; [reflexivity|]. intros x Hx. now apply remz_In in Hx.
    + exists (c_acq c). rewrite Hsame. split; auto. apply incl_refl.
Qed.

(* what happens to the released lock itself *)
Lemma release_lock_self s o r s' b l :
  release current s o r = (s', b) -> get_lock s r = Some l ->
  exists l', get_lock s' r = Some l' /\
    ((b = false /\ l' = l) \/ (b = true /\ lock_release l o = (l', true))).
Proof.
  intros H Hl. apply release_shape in H as [[-> ->]|(-> & c0 & l0 & l' & g & _ & _ & Hl0 & Hr & ->)].
  - eauto.
  - assert (l0 = l) by congruence. subst. exists l'. split; auto.
    destruct (negb (oeqb (l_owner l') o)); autorewrite with st; now rewrite Z.eqb_refl.
Qed.

Lemma release_wf s o r s' b : WF s -> release current s o r = (s', b) -> WF s'.
Proof.
  intros W H. apply release_shape in H as [[_ ->]|(_ & c & l & l' & g & Hc & Hin & Hl & Hr & ->)]; auto.
  apply wf_set_edges.
  pose proof (wf_lock s W r l Hl) as Lok.
  apply lock_release_cases in Hr as [(X & _)|[(_ & Ho & Hh & ->)|(_ & Ho & Hh & ->)]]; [discriminate| |].
  - (* fully released: forgotten *)
    simpl. constructor.
    + intros r0 l0. autorewrite with st. destruct (Z.eqb r r0).
      * intros X; inversion X; subst. reflexivity.
      * apply (wf_lock s W).
    + intros r0 l0 o0. autorewrite with st. destruct (Z.eqb r r0) eqn:E.
      * intros X Y; inversion X; subst. discriminate.
      * intros X Y. destruct (wf_own s W r0 l0 o0 X Y) as (A & c0 & Hc0 & Hin0). split; auto.
        destruct (Z.eqb o o0) eqn:E2.
        -- assert (o = o0) by lia. subst. eexists; split; eauto. simpl.
           apply remz_In. split; [congruence|lia].
        -- eauto.
    + intros o0. autorewrite with st. intros X. destruct (Z.eqb o o0); eauto. apply (wf_act s W o0 X).
  - (* a re-entrant hold remains: still tracked *)
    simpl. rewrite Ho. simpl. rewrite Z.eqb_refl. simpl. constructor.
    + intros r0 l0. autorewrite with st. destruct (Z.eqb r r0).
      * intros X; inversion X; subst. unfold lock_ok. simpl. rewrite ?Ho. lia.
      * apply (wf_lock s W).
    + intros r0 l0 o0. autorewrite with st. destruct (Z.eqb r r0) eqn:E.
      * intros X Y; inversion X; subst. simpl in Y. assert (r = r0) by lia. subst r0.
        apply (wf_own s W r l o0 Hl). congruence.
      * apply (wf_own s W).
    + apply (wf_act s W).
Qed.

(* ------------------------------------------------------------------ *)
(* release_all_resources, complete/abort                                *)

(* [quiet o s s']: a step that only gives up things held by [o] *)
Record quiet (o : Z) (s s' : st) : Prop := mkQuiet {
  q_active : active s' = active s;
  q_now : now s' = now s;
  q_lock : forall r, owner s r <> Some o -> get_lock s' r = get_lock s r;
  q_own : forall r, owner s' r = Some o -> owner s r = Some o;
  q_freed : forall r, owner s r = Some o -> owner s' r = Some o \/ owner s' r = None;
  q_ctx : forall o', o' <> o -> get_ctx s' o' = get_ctx s o';
  q_self : forall c, get_ctx s o = Some c ->
             exists x, get_ctx s' o = Some (c_set_acq c x) /\ incl x (c_acq c);
  q_none : get_ctx s o = None -> get_ctx s' o = None }.

Lemma quiet_refl o s : quiet o s s.
Proof.
  constructor; auto. intros c Hc. exists (c_acq c). split; [now destruct c | apply incl_refl].
Qed.

Lemma quiet_trans o s1 s2 s3 : quiet o s1 s2 -> quiet o s2 s3 -> quiet o s1 s3.
Proof.
  intros A B. constructor.
  - rewrite (q_active _ _ _ B). apply A.
  - rewrite (q_now _ _ _ B). apply A.
  - intros r N. rewrite (q_lock _ _ _ B).
    + now apply A.
    + intros X. apply N. now apply (q_own _ _ _ A).
  - intros r X. apply (q_own _ _ _ A). now apply (q_own _ _ _ B).
  - intros r X. destruct (q_freed _ _ _ A r X) as [Y|Y].
    + now apply (q_freed _ _ _ B).
    + right. rewrite owner_def in *. rewrite (q_lock _ _ _ B); auto. rewrite owner_def. congruence.
  - intros o' N. rewrite (q_ctx _ _ _ B); auto. now apply A.
  - intros c Hc. destruct (q_self _ _ _ A c Hc) as (x & Hx & Ix).
    destruct (q_self _ _ _ B _ Hx) as (y & Hy & Iy). exists y. split.
    + rewrite Hy. now destruct c.
    + simpl in Iy. eapply incl_tran; eauto.
  - intros N. apply (q_none _ _ _ B). now apply A.
Qed.

Lemma classic_owner l o : l_owner l = Some o \/ l_owner l <> Some o.
Proof.
  destruct (l_owner l) as [x|]; [|right; discriminate].
  destruct (Z.eq_dec x o); [left|right]; congruence.
Qed.

Lemma release_one_spec s o r :
  WF s ->
  let s' := release_one current s o r in
  WF s' /\ quiet o s s' /\ owner s' r <> Some o.
Proof.
  intros W. unfold release_one. simpl f_reentrant. cbv iota.
  destruct (get_lock s r) as [l|] eqn:Hl.
  2:{ (* unregistered: release_resource returns False *)
      destruct (release current s o r) as [s' b] eqn:Hr. simpl.
      apply release_shape in Hr as [[_ ->]|(_ & c & l & l' & g & _ & _ & X & _)]; [|congruence].
      split; [auto|]. split; [apply quiet_refl|]. rewrite owner_def, Hl. discriminate. }
  destruct (classic_owner l o) as [Ho|Ho].
  2:{ (* owned by somebody else (e.g. after a preemption) or free: nothing happens *)
      rewrite drop_reentrant_other by auto. rewrite put_lock_same by auto.
      destruct (release current s o r) as [s' b] eqn:Hr. simpl.
      assert (s' = s).
      { apply release_shape in Hr as [[_ ->]|(_ & c & l0 & l' & g & _ & _ & X & Y & _)]; auto.
        assert (l0 = l) by congruence. subst.
        apply lock_release_cases in Y as [(?&_)|[(_&?&_)|(_&?&_)]]; congruence. }
      subst. split; [auto|]. split; [apply quiet_refl|]. rewrite owner_def, Hl. auto. }
  (* owned by o: the loop drops the re-entrant holds, the release frees the lock *)
  pose proof (wf_lock s W r l Hl) as Lok. unfold lock_ok in Lok. rewrite Ho in Lok.
  rewrite drop_reentrant_owned by (auto; lia).
  destruct (wf_own s W r l o Hl Ho) as (Ha & c & Hc & Hin).
  set (l1 := mkLock (Some o) (l_prio l) 1 (l_preempt l) (l_wait l)).
  set (s1 := put_lock s r l1).
  assert (W1 : WF s1).
  { constructor.
    - intros r0 l0. unfold s1. autorewrite with st. destruct (Z.eqb r r0).
      + intros X; inversion X; subst. unfold lock_ok. simpl. lia.
      + apply (wf_lock s W).
    - intros r0 l0 o0. unfold s1. autorewrite with st. destruct (Z.eqb r r0) eqn:E.
      + intros X Y; inversion X; subst. simpl in Y. inversion Y; subst.
        assert (r = r0) by lia. subst. split; auto. eauto.
      + apply (wf_own s W).
    - apply (wf_act s W). }
  destruct (release current s1 o r) as [s' b] eqn:Hr. simpl.
  pose proof (release_wf _ _ _ _ _ W1 Hr) as W'.
  assert (Hl1 : get_lock s1 r = Some l1).
  { unfold s1. autorewrite with st. now rewrite Z.eqb_refl. }
  assert (Hc1 : get_ctx s1 o = Some c) by (unfold s1; now autorewrite with st).
  destruct (release_lock_self _ _ _ _ _ _ Hr Hl1) as (l' & Hl' & Hcase).
  assert (Hfree : l_owner l' = None).
  { destruct Hcase as [(-> & ->)|(-> & Hrel)].
    - (* cannot be refused: r is in the acquired list and o owns the lock *)
      exfalso. unfold release in Hr. rewrite Hc1 in Hr.
      assert (memz r (c_acq c) = true) by now apply memz_In.
      rewrite H in Hr. simpl in Hr. rewrite Hl1 in Hr. unfold lock_release in Hr. simpl in Hr.
      rewrite Z.eqb_refl in Hr. simpl in Hr. inversion Hr.
    - unfold lock_release in Hrel. simpl in Hrel. rewrite Z.eqb_refl in Hrel. simpl in Hrel.
      inversion Hrel. reflexivity. }
  split; auto. split.
  - constructor.
    + rewrite (release_active _ _ _ _ _ Hr). reflexivity.
    + rewrite (release_now _ _ _ _ _ Hr). reflexivity.
    + intros r0 N. destruct (Z.eq_dec r0 r) as [->|Nr].
      * exfalso. apply N. rewrite owner_def, Hl. auto.
      * rewrite (release_lock_frame _ _ _ _ _ r0 Hr Nr). unfold s1. autorewrite with st.
        destruct (Z.eqb r r0) eqn:E; auto. lia.
    + intros r0 X. destruct (Z.eq_dec r0 r) as [->|Nr].
      * rewrite owner_def, Hl. auto.
      * rewrite owner_def in *. rewrite (release_lock_frame _ _ _ _ _ r0 Hr Nr) in X.
        unfold s1 in X. autorewrite with st in X. destruct (Z.eqb r r0) eqn:E; auto. lia.
    + intros r0 X. destruct (Z.eq_dec r0 r) as [->|Nr].
      * right. rewrite owner_def, Hl'. auto.
      * left. rewrite owner_def in *. rewrite (release_lock_frame _ _ _ _ _ r0 Hr Nr).
        unfold s1. autorewrite with st. destruct (Z.eqb r r0) eqn:E; auto; lia.
    + intros o' N. rewrite (release_ctx_frame _ _ _ _ _ o' Hr N). reflexivity.
    + intros c0 Hc0. assert (c0 = c) by congruence. subst.
      apply (release_ctx_self _ _ _ _ _ c Hr Hc1).
    + congruence.
  - rewrite owner_def, Hl', Hfree. discriminate.
Qed.

Lemma release_fold_spec o (L : list Z) : forall s,
  WF s ->
  let s' := fold_left (fun s r => release_one current s o r) L s in
  WF s' /\ quiet o s s' /\ (forall r, In r L -> owner s' r <> Some o).
Proof.
  induction L as [|r L IH]; intros s W; simpl.
  - split; auto. split; [apply quiet_refl|]. intros r [].
  - destruct (release_one_spec s o r W) as (W1 & Q1 & N1).
    destruct (IH _ W1) as (W2 & Q2 & N2).
    split; auto. split; [eapply quiet_trans; eauto|].
    intros r0 [<-|Hin]; auto.
    intros X. apply N1. now apply (q_own _ _ _ Q2).
Qed.

Lemma release_all_spec s o :
  WF s ->
  let s' := release_all current s o in
  WF s' /\ quiet o s s' /\ owns_nothing s' o.
Proof.
  intros W. unfold release_all. destruct (get_ctx s o) as [c|] eqn:Hc.
  - destruct (release_fold_spec o (c_acq c) s W) as (W' & Q & N).
    split; auto. split; auto. intros r X.
    assert (X0 : owner s r = Some o) by now apply (q_own _ _ _ Q).
    apply owner_Some in X0 as (l & Hl & Ho).
    destruct (wf_own s W r l o Hl Ho) as (_ & c0 & Hc0 & Hin).
    assert (c0 = c) by congruence. subst. now apply (N r Hin).
  - split; auto. split; [apply quiet_refl|]. now apply wf_fresh_owns_nothing.
Qed.

(* complete_operation / abort_operation *)
Lemma finish_spec s o :
  WF s ->
  let s' := finish current s o in
  WF s' /\ owns_nothing s' o /\ active s' = remz o (active s) /\ now s' = now s /\
  (forall r, owner s r <> Some o -> get_lock s' r = get_lock s r) /\
  (forall r, owner s r = Some o -> owner s' r = None) /\
  (forall o', o' <> o -> get_ctx s' o' = get_ctx s o') /\
  (get_ctx s o = None -> get_ctx s' o = None) /\
  (forall c, get_ctx s o = Some c ->
     exists x, get_ctx s' o = Some (c_set_phase (c_set_acq c x) G0 (now s)) /\ incl x (c_acq c)).
Proof.
  intros W. unfold finish. simpl f_graph. cbv iota.
  destruct (release_all_spec s o W) as (W1 & Q & N).
  set (s1 := release_all current s o) in *.
  set (s2 := set_edges s1 (remove_all_for_agent (edges s1) o)).
  assert (W2 : WF s2) by now apply wf_set_edges.
  set (s3 := match get_ctx s2 o with
             | Some c => put_ctx s2 o (c_set_phase c G0 (now s2)) | None => s2 end).
  assert (E3 :
    WF s3 /\ active s3 = active s /\ now s3 = now s /\
    (forall r, get_lock s3 r = get_lock s1 r) /\
    (forall o', o' <> o -> get_ctx s3 o' = get_ctx s1 o') /\
    (get_ctx s o = None -> get_ctx s3 o = None) /\
    (forall c, get_ctx s o = Some c ->
       exists x, get_ctx s3 o = Some (c_set_phase (c_set_acq c x) G0 (now s)) /\ incl x (c_acq c))).
  { unfold s3. change (get_ctx s2 o) with (get_ctx s1 o). change (now s2) with (now s1).
    destruct (get_ctx s1 o) as [c1|] eqn:Hc1.
    - split. { eapply wf_put_ctx; eauto. apply incl_refl. }
      split. { simpl. apply Q. }
      split. { simpl. apply Q. }
      split. { reflexivity. }
      split. { intros o' No. autorewrite with st. destruct (Z.eqb o o') eqn:E; auto. lia. }
      split. { intros X. rewrite (q_none _ _ _ Q X) in Hc1. discriminate. }
      intros c Hc. destruct (q_self _ _ _ Q c Hc) as (x & Hx & Ix).
      exists x. split; auto. autorewrite with st. rewrite Z.eqb_refl.
      rewrite (q_now _ _ _ Q). congruence.
    - split; auto. split. { apply Q. } split. { apply Q. }
      split. { reflexivity. } split. { reflexivity. }
      split. { auto. }
      intros c Hc. destruct (q_self _ _ _ Q c Hc) as (x & Hx & _). congruence. }
  destruct E3 as (W3 & A3 & T3 & L3 & C3 & F3 & S3).
  assert (N3 : owns_nothing s3 o).
  { intros r. rewrite owner_def, L3. apply (N r). }
  clearbody s3.
  split.
  { constructor.
    - intros r l. autorewrite with st. apply (wf_lock s3 W3).
    - intros r l o0. autorewrite with st. intros Hl Ho.
      destruct (wf_own s3 W3 r l o0 Hl Ho) as (A & B). split; auto.
      apply remz_In. split; auto. intros ->. apply (N3 r). rewrite owner_def, Hl. auto.
    - intros o0. autorewrite with st. intros X. apply remz_In in X as [X _]. apply (wf_act s3 W3 o0 X). }
  split. { intros r. rewrite owner_def. autorewrite with st. apply (N3 r). }
  split. { autorewrite with st. now rewrite A3. }
  split. { exact T3. }
  split. { intros r X. autorewrite with st. rewrite L3. now apply Q. }
  split. { intros r X. rewrite owner_def. autorewrite with st. rewrite L3.
           destruct (q_freed _ _ _ Q r X) as [Y|Y]; [now apply N in Y | exact Y]. }
  split. { intros o' No. autorewrite with st. rewrite C3 by auto. now apply Q. }
  split. { exact F3. }
  exact S3.
Qed.

Lemma finish_not_active s o : ~ In o (active (finish current s o)).
Proof. unfold finish. simpl. intros X. apply remz_In in X. tauto. Qed.

(* ------------------------------------------------------------------ *)
(* start / advance / flag updates                                       *)

Lemma start_op_wf s o p ex : WF s -> get_ctx s o = None -> WF (start_op s o p ex).
Proof.
  intros W F. unfold start_op.
  assert (Na : memz o (active s) = false).
  { apply memz_false. now apply wf_fresh_not_active. }
  rewrite Na. constructor.
  - intros r l. autorewrite with st. apply (wf_lock s W).
  - intros r l o0. autorewrite with st. intros Hl Ho.
    destruct (wf_own s W r l o0 Hl Ho) as (A & c & Hc & Hin).
    split. { apply in_or_app. auto. }
    destruct (Z.eqb o o0) eqn:E; eauto. assert (o = o0) by lia. congruence.
  - intros o0. autorewrite with st. intros X. apply in_app_or in X as [X|[<-|[]]].
    + destruct (Z.eqb o o0); eauto. apply (wf_act s W o0 X).
    + rewrite Z.eqb_refl. eauto.
Qed.

Lemma start_op_active s o p ex : In o (active (start_op s o p ex)).
Proof.
  unfold start_op. simpl. destruct (memz o (active s)) eqn:E.
  - now apply memz_In.
  - apply in_or_app. simpl. auto.
Qed.

Lemma upd_ctx_wf s o f :
  WF s -> (forall c, c_acq (f c) = c_acq c) -> WF (upd_ctx s o f).
Proof.
  intros W Hf. unfold upd_ctx. destruct (get_ctx s o) as [c|] eqn:Hc; auto.
  eapply wf_put_ctx; eauto. rewrite Hf. apply incl_refl.
Qed.

Lemma advance_wf s o out s' b : WF s -> advance s o out = (s', b) -> WF s'.
Proof.
  intros W. unfold advance. destruct (get_ctx s o) as [c|] eqn:Hc.
  - destruct (match out with CpDefault => default_cond c | _ => false end);
      intros H; inversion H; subst; auto.
    eapply wf_put_ctx; eauto. apply incl_refl.
  - intros H; inversion H; subst; auto.
Qed.

Lemma advance_frame s o out s' b :
  advance s o out = (s', b) ->
  active s' = active s /\ (forall r, get_lock s' r = get_lock s r) /\ now s' = now s /\
  (forall o', o' <> o -> get_ctx s' o' = get_ctx s o').
Proof.
  unfold advance. destruct (get_ctx s o) as [c|] eqn:Hc.
  - destruct (match out with CpDefault => default_cond c | _ => false end);
      intros H; inversion H; subst; auto.
    repeat split; auto. intros o' N. autorewrite with st. destruct (Z.eqb o o') eqn:E; auto. lia.
  - intros H; inversion H; subst; auto.
Qed.

Lemma upd_ctx_frame s o f :
  active (upd_ctx s o f) = active s /\ (forall r, get_lock (upd_ctx s o f) r = get_lock s r) /\
  now (upd_ctx s o f) = now s /\
  (forall o', o' <> o -> get_ctx (upd_ctx s o f) o' = get_ctx s o').
Proof.
  unfold upd_ctx. destruct (get_ctx s o) as [c|] eqn:Hc; auto.
  repeat split; auto. intros o' N. autorewrite with st. destruct (Z.eqb o o') eqn:E; auto. lia.
Qed.

(* ------------------------------------------------------------------ *)
(* watchdog.execute, shutdown: folds of abort                           *)

Lemma abort_if_active_spec s o :
  WF s ->
  let s' := abort_if_active current s o in
  WF s' /\ ~ In o (active s') /\ incl (active s') (active s) /\ now s' = now s.
Proof.
  intros W. unfold abort_if_active. destruct (is_active s o) eqn:E.
  - destruct (finish_spec s o W) as (W' & N & A & T & _).
    split; auto. split. { apply finish_not_active. }
    split; auto. rewrite A. intros x X. now apply remz_In in X.
  - split; auto. split. { now apply memz_false. } split; auto. apply incl_refl.
Qed.

Lemma abort_fold_spec (L : list Z) : forall s,
  WF s ->
  let s' := fold_left (abort_if_active current) L s in
  WF s' /\ incl (active s') (active s) /\ (forall o, In o L -> ~ In o (active s')) /\ now s' = now s.
Proof.
  induction L as [|o L IH]; intros s W; simpl.
  - split; auto. split; [apply incl_refl|]. split; auto.
  - destruct (abort_if_active_spec s o W) as (W1 & N1 & I1 & T1).
    destruct (IH _ W1) as (W2 & I2 & N2 & T2).
    split; [exact W2|]. split. { eapply incl_tran; eauto. }
    split; [|congruence].
    intros o0 [<-|Hin]; [|now apply N2]. intros X. apply N1. now apply I2.
Qed.

Lemma fold_abort_events fl (evs : list event) s :
  fold_left (fun s e => abort_if_active fl s (fst e)) evs s =
  fold_left (abort_if_active fl) (map fst evs) s.
Proof. revert s. induction evs; simpl; auto. Qed.

Lemma wd_execute_spec w s :
  WF s ->
  let '(s', evs) := wd_execute current w s in
  WF s' /\ incl (active s') (active s) /\ now s' = now s /\
  (forall v, In v (map fst evs) -> ~ In v (active s') /\ owns_nothing s' v).
Proof.
  intros W. unfold wd_execute. rewrite fold_abort_events.
  destruct (abort_fold_spec (map fst (wd_check w s)) s W) as (W' & I & N & T).
  split; auto. split; auto. split; auto.
  intros v Hv. split; auto. apply wf_inactive_owns_nothing; auto.
Qed.

Lemma shutdown_spec s :
  WF s ->
  let s' := shutdown current s in
  WF s' /\ active s' = [] /\ (forall r, owner s' r = None) /\ now s' = now s.
Proof.
  intros W. unfold shutdown.
  destruct (abort_fold_spec (active s) s W) as (W' & I & N & T).
  set (s' := fold_left (abort_if_active current) (active s) s) in *.
  assert (E : active s' = []).
  { destruct (active s') as [|x l] eqn:Ea; auto. exfalso.
    apply (N x); [apply I|]; simpl; auto. }
  split; auto. split; auto. split; auto.
  intros r. destruct (owner s' r) as [v|] eqn:Ho; auto. exfalso.
  pose proof (wf_owner_active s' r v W' Ho) as X. now rewrite E in X.
Qed.

(* ------------------------------------------------------------------ *)
(* priority inheritance (check_and_boost) rewrites priorities only       *)

Record prio_only (s s' : st) : Prop := mkPO {
  po_res : resources s' = resources s;
  po_act : active s' = active s;
  po_edges : edges s' = edges s;
  po_now : now s' = now s;
  po_ctx : forall o, match get_ctx s o with
                     | Some c => exists c', get_ctx s' o = Some c' /\ c_acq c' = c_acq c
                     | None => get_ctx s' o = None
                     end }.

Lemma prio_only_refl s : prio_only s s.
Proof. constructor; auto. intros o. destruct (get_ctx s o) as [c|]; eauto. Qed.

Lemma prio_only_trans s1 s2 s3 : prio_only s1 s2 -> prio_only s2 s3 -> prio_only s1 s3.
Proof.
  intros [A1 B1 C1 D1 E1] [A2 B2 C2 D2 E2]. constructor; try congruence.
  intros o. specialize (E1 o). specialize (E2 o).
  destruct (get_ctx s1 o) as [c|].
  - destruct E1 as (c' & H1 & H2). rewrite H1 in E2. destruct E2 as (c'' & H3 & H4).
    exists c''. split; auto. congruence.
  - now rewrite E1 in E2.
Qed.

Lemma put_boost_po s o c p : get_ctx s o = Some c -> prio_only s (put_ctx s o (c_boost c p)).
Proof.
  intros Hc. constructor; auto.
  intros o'. rewrite get_ctx_put_ctx. destruct (Z.eqb o o') eqn:E.
  - assert (o = o') by lia. subst. rewrite Hc. eauto.
  - destruct (get_ctx s o') as [c'|]; eauto.
Qed.

Lemma live_ctx_Some s o c : live_ctx s o = Some c -> get_ctx s o = Some c.
Proof. unfold live_ctx. destruct (is_active s o); congruence. Qed.

Lemma pi_chain_po ch : forall s maxp, prio_only s (fst (pi_chain s maxp ch)).
Proof.
  induction ch as [|o ch IH]; intros s maxp; cbn [pi_chain]; [apply prio_only_refl|].
  destruct (live_ctx s o) as [c|] eqn:L; auto.
  destruct (Z.ltb (c_prio c) maxp); auto.
  specialize (IH (put_ctx s o (c_boost c maxp)) maxp).
  destruct (pi_chain (put_ctx s o (c_boost c maxp)) maxp ch) as [s2 nb]. cbn [fst] in *.
  eapply prio_only_trans; [|exact IH]. apply put_boost_po. now apply live_ctx_Some.
Qed.

Lemma pi_waiters_po g keys : forall s s' nb, pi_waiters g keys s = Some (s', nb) -> prio_only s s'.
Proof.
  induction keys as [|k keys IH]; intros s s' nb; cbn [pi_waiters].
  - intros H. inversion H; subst. apply prio_only_refl.
  - destruct (live_ctx s k) as [c|]; [|apply IH].
    destruct (pi_tail g k) as [ch|]; [|discriminate].
    pose proof (pi_chain_po ch s (c_prio c)) as P.
    destruct (pi_chain s (c_prio c) ch) as [s1 nb1]. cbn [fst] in P.
    destruct (pi_waiters g keys s1) as [[s2 nb2]|] eqn:R; [|discriminate].
    intros H. inversion H; subst. eapply prio_only_trans; [exact P|]. eapply IH; eauto.
Qed.

Lemma pi_boost_po s s' nb : pi_boost s = Some (s', nb) -> prio_only s s'.
Proof. apply pi_waiters_po. Qed.

Lemma prio_only_lock s s' r : prio_only s s' -> get_lock s' r = get_lock s r.
Proof. intros P. unfold get_lock. now rewrite (po_res _ _ P). Qed.

Lemma prio_only_owner s s' r : prio_only s s' -> owner s' r = owner s r.
Proof. intros P. rewrite !owner_def. now rewrite (prio_only_lock _ _ r P). Qed.

Lemma prio_only_wf s s' : prio_only s s' -> WF s -> WF s'.
Proof.
  intros P W. constructor.
  - intros r l. rewrite (prio_only_lock _ _ r P). apply (wf_lock s W).
  - intros r l o. rewrite (prio_only_lock _ _ r P), (po_act _ _ P). intros H1 H2.
    destruct (wf_own s W r l o H1 H2) as (Ha & c & Hc & Hin). split; auto.
    pose proof (po_ctx _ _ P o) as X. rewrite Hc in X. destruct X as (c' & X1 & X2).
    exists c'. split; auto. congruence.
  - intros o. rewrite (po_act _ _ P). intros H. destruct (wf_act s W o H) as (c & Hc).
    pose proof (po_ctx _ _ P o) as X. rewrite Hc in X. destruct X as (c' & X1 & _). eauto.
Qed.

(* get_blocking_chain terminates within its fuel: the visited nodes are distinct
   keys of the graph *)
Lemma pi_walk_fuel g : forall fuel cur rest,
  NoDup (cur :: rest) -> incl rest (map fst g) -> (length g < fuel + length rest)%nat ->
  pi_walk fuel g cur (cur :: rest) <> None.
Proof.
  induction fuel as [|f IH]; intros cur rest ND I L.
  - exfalso. inversion ND; subst. pose proof (NoDup_incl_length H2 I) as X.
    rewrite map_length in X. simpl in L. lia.
  - cbn [pi_walk]. destruct (succs g cur) as [|[b r0] t] eqn:S; [discriminate|].
    destruct (memz b (cur :: rest)) eqn:M; [discriminate|].
    apply memz_false in M.
    assert (K : In cur (map fst g)).
    { unfold succs in S. destruct (aget g cur) eqn:A; [|discriminate]. eapply aget_Some_in; eauto. }
    assert (X : pi_walk f g b (b :: cur :: rest) <> None).
    { apply IH.
      - constructor; auto.
      - intros x [<-|Hx]; auto.
      - simpl. lia. }
    destruct (pi_walk f g b (b :: cur :: rest)); [discriminate | congruence].
Qed.

Lemma pi_tail_fuel g a : pi_tail g a <> None.
Proof.
  unfold pi_tail. apply pi_walk_fuel.
  - constructor; [intros [] | constructor].
  - intros x [].
  - simpl. lia.
Qed.

Lemma pi_waiters_fuel g : forall keys s, pi_waiters g keys s <> None.
Proof.
  induction keys as [|k keys IH]; intros s; cbn [pi_waiters]; [discriminate|].
  destruct (live_ctx s k) as [c|]; auto.
  destruct (pi_tail g k) as [ch|] eqn:B; [|now apply pi_tail_fuel in B].
  destruct (pi_chain s (c_prio c) ch) as [s1 nb1].
  specialize (IH s1). destruct (pi_waiters g keys s1) as [[s2 nb2]|]; [discriminate | congruence].
Qed.

Lemma boost_fuel_proof s : pi_boost s <> None.
Proof. apply pi_waiters_fuel. Qed.

(* every new boost raises the priority of an ACTIVE operation *)
Lemma pi_chain_boosted ch : forall s maxp o p,
  In (o, p) (snd (pi_chain s maxp ch)) -> In o (active s).
Proof.
  induction ch as [|x ch IH]; intros s maxp o p; cbn [pi_chain]; [intros []|].
  destruct (live_ctx s x) as [c|] eqn:L; [|apply IH].
  destruct (Z.ltb (c_prio c) maxp); [|apply IH].
  specialize (IH (put_ctx s x (c_boost c maxp)) maxp o p).
  destruct (pi_chain (put_ctx s x (c_boost c maxp)) maxp ch) as [s2 nb]. cbn [snd] in *.
  intros [H|H]; [|now apply IH].
  inversion H; subst. unfold live_ctx in L. destruct (is_active s o) eqn:A; [|discriminate].
  now apply memz_In.
Qed.

(* ResourceLock.pop_next_waiter and anything else that leaves owner and hold_count alone *)
Lemma wf_put_lock_core s r l l' :
  WF s -> get_lock s r = Some l -> l_owner l' = l_owner l -> l_hold l' = l_hold l ->
  WF (put_lock s r l').
Proof.
  intros W Hl Eo Eh. constructor.
  - intros r0 l0. rewrite get_lock_put_lock. destruct (Z.eqb r r0) eqn:E.
    + intros X. inversion X; subst. pose proof (wf_lock s W r l Hl) as K.
      unfold lock_ok in *. now rewrite Eo, Eh.
    + apply (wf_lock s W).
  - intros r0 l0 o. rewrite get_lock_put_lock, get_ctx_put_lock, active_put_lock.
    destruct (Z.eqb r r0) eqn:E.
    + intros X Ho. inversion X; subst. assert (r = r0) by lia. subst.
      apply (wf_own s W r0 l o Hl). congruence.
    + apply (wf_own s W).
  - intros o. rewrite active_put_lock, get_ctx_put_lock. apply (wf_act s W).
Qed.

(* ------------------------------------------------------------------ *)
(* register_resource on a live system: [reregister]                     *)

Lemma aget_app_None {A} (m : list (Z * A)) k v k' :
  aget m k = None -> aget (m ++ [(k, v)]) k' = if Z.eqb k k' then Some v else aget m k'.
Proof.
  induction m as [|[a b] m IH]; simpl; intros H.
  - reflexivity.
  - destruct (Z.eqb a k) eqn:E; [discriminate|].
    destruct (Z.eqb a k') eqn:E'.
    + destruct (Z.eqb k k') eqn:E2; auto. lia.
    + auto.
Qed.

Lemma fresh_key_bound s : retired_from <= fresh_key s /\
  forall r l, In (r, l) (resources s) -> r < fresh_key s.
Proof.
  unfold fresh_key. induction (resources s) as [|[a b] m IH]; simpl.
  - split; [lia|tauto].
  - destruct IH as [B I]. split; [lia|].
    intros r l [H|H]. { inversion H; subst. lia. }
    specialize (I r l H). lia.
Qed.

Lemma fresh_key_unused s : get_lock s (fresh_key s) = None.
Proof.
  unfold get_lock. destruct (aget (resources s) (fresh_key s)) as [l|] eqn:E; auto.
  apply aget_In in E. apply fresh_key_bound in E. lia.
Qed.

Lemma aget_map_ctx (f : ctx -> ctx) (m : list (Z * ctx)) o :
  aget (map (fun oc : Z * ctx => (fst oc, f (snd oc))) m) o = option_map f (aget m o).
Proof.
  induction m as [|[a b] m IH]; simpl; auto.
  destruct (Z.eqb a o); auto.
Qed.

Lemma fresh_lock_ok pre : lock_ok (fresh_lock pre).
Proof. reflexivity. Qed.

Lemma reregister_active s r pre : active (reregister s r pre) = active s.
Proof.
  unfold reregister. destruct (get_lock s r) as [l|]; [destruct (l_owner l)|]; reflexivity.
Qed.

Lemma reregister_wf s r pre : WF s -> WF (reregister s r pre).
Proof.
  intros W. unfold reregister. destruct (get_lock s r) as [l|] eqn:Hl.
  - destruct (l_owner l) as [ow|] eqn:Ho.
    + (* the replaced lock is held: it moves to a retired key, the contexts follow *)
      set (k := fresh_key s).
      pose proof (fresh_key_unused s) as Fk. fold k in Fk.
      assert (Nk : k <> r) by (intros ->; congruence).
      assert (GL : forall x, get_lock (set_ctxs (set_resources s (aset (resources s) r (fresh_lock pre) ++ [(k, l)]))
                                 (map (fun oc : Z * ctx => (fst oc, rename_acq r k (snd oc))) (ctxs s))) x
                   = if Z.eqb k x then Some l else if Z.eqb r x then Some (fresh_lock pre) else get_lock s x).
      { intros x. unfold get_lock. cbn [resources set_ctxs set_resources].
        rewrite aget_app_None.
        - destruct (Z.eqb k x); auto. apply aget_aset.
        - rewrite aget_aset. destruct (Z.eqb r k) eqn:E; [lia|]. exact Fk. }
      assert (GC : forall o, get_ctx (set_ctxs (set_resources s (aset (resources s) r (fresh_lock pre) ++ [(k, l)]))
                                 (map (fun oc : Z * ctx => (fst oc, rename_acq r k (snd oc))) (ctxs s))) o
                   = option_map (rename_acq r k) (get_ctx s o)).
      { intros o. unfold get_ctx. cbn [ctxs set_ctxs]. apply aget_map_ctx. }
      constructor.
      * intros x l0. rewrite GL. destruct (Z.eqb k x).
        { intros X; inversion X; subst. eapply wf_lock; eauto. }
        destruct (Z.eqb r x). { intros X; inversion X; subst. apply fresh_lock_ok. }
        apply (wf_lock s W).
      * intros x l0 o. rewrite GL, GC. cbn [active set_ctxs set_resources].
        destruct (Z.eqb k x) eqn:Ek.
        { intros X Hx. inversion X; subst l0.
          destruct (wf_own s W r l o Hl Hx) as (A & c & Hc & Hin). split; auto.
          exists (rename_acq r k c). rewrite Hc. split; auto.
          cbn [rename_acq c_set_acq c_acq]. apply in_map_iff. exists r. rewrite Z.eqb_refl. split; auto. lia. }
        destruct (Z.eqb r x) eqn:Er. { intros X; inversion X; subst. discriminate. }
        intros X Hx. destruct (wf_own s W x l0 o X Hx) as (A & c & Hc & Hin). split; auto.
        exists (rename_acq r k c). rewrite Hc. split; auto.
        cbn [rename_acq c_set_acq c_acq]. apply in_map_iff. exists x.
        destruct (Z.eqb x r) eqn:E2; [lia|]. auto.
      * intros o A. rewrite GC. destruct (wf_act s W o A) as (c & ->). simpl. eauto.
    + (* the replaced lock is free: dropped *)
      constructor.
      * intros x l0. rewrite get_lock_put_lock. destruct (Z.eqb r x).
        { intros X; inversion X; subst. apply fresh_lock_ok. } apply (wf_lock s W).
      * intros x l0 o. rewrite get_lock_put_lock, get_ctx_put_lock, active_put_lock.
        destruct (Z.eqb r x). { intros X; inversion X; subst. discriminate. } apply (wf_own s W).
      * intros o. rewrite active_put_lock, get_ctx_put_lock. apply (wf_act s W).
  - (* a new id *)
    assert (GL : forall x, get_lock (set_resources s (resources s ++ [(r, fresh_lock pre)])) x
                 = if Z.eqb r x then Some (fresh_lock pre) else get_lock s x).
    { intros x. unfold get_lock. cbn [resources set_resources]. now apply aget_app_None. }
    constructor.
    + intros x l0. rewrite GL. destruct (Z.eqb r x).
      { intros X; inversion X; subst. apply fresh_lock_ok. } apply (wf_lock s W).
    + intros x l0 o. rewrite GL. destruct (Z.eqb r x). { intros X; inversion X; subst. discriminate. }
      apply (wf_own s W).
    + apply (wf_act s W).
Qed.

(* the registered lock under a (re-)registered id is free *)
Lemma reregister_free s r pre : registered r = true -> owner (reregister s r pre) r = None.
Proof.
  intros R. unfold owner, reregister. destruct (get_lock s r) as [l|] eqn:Hl.
  - destruct (l_owner l) eqn:Ho.
    + pose proof (fresh_key_unused s) as Fk. pose proof (fresh_key_bound s) as [B _].
      unfold registered in R. unfold get_lock. cbn [resources set_ctxs set_resources].
      rewrite aget_app_None.
      * destruct (Z.eqb (fresh_key s) r) eqn:E; [lia|]. now rewrite aget_aset_eq.
      * rewrite aget_aset. destruct (Z.eqb r (fresh_key s)) eqn:E; [lia|]. exact Fk.
    + now rewrite get_lock_put_lock, Z.eqb_refl.
  - unfold get_lock. cbn [resources set_resources]. rewrite aget_app_None by exact Hl.
    now rewrite Z.eqb_refl.
Qed.

(* ------------------------------------------------------------------ *)
(* the step API                                                         *)

Lemma is_active_In s o : is_active s o = true <-> In o (active s).
Proof. apply memz_In. Qed.

Lemma has_ctx_false s o : has_ctx s o = false <-> get_ctx s o = None.
Proof. unfold has_ctx. destruct (get_ctx s o); split; congruence. Qed.

Lemma fstep_wf w s a : WF s -> WF (fst (fstep current w s a)).
Proof.
  intros W. destruct a; cbn [fstep].
  - destruct (has_ctx s o) eqn:E; simpl; auto. apply start_op_wf; auto. now apply has_ctx_false.
  - destruct (is_active s o) eqn:E; simpl; auto.
    destruct (acquire current s o r) as [s' res] eqn:Ha.
    assert (WF s') by (eapply acquire_wf; eauto; now apply is_active_In).
    destruct res; auto.
  - destruct (is_active s o) eqn:E; simpl; auto.
    destruct (release current s o r) as [s' b] eqn:Hr. simpl. eapply release_wf; eauto.
  - destruct (is_active s o); simpl; auto. apply finish_spec; auto.
  - destruct (is_active s o); simpl; auto. apply finish_spec; auto.
  - destruct (is_active s o); simpl; auto. apply finish_spec; auto.
  - pose proof (wd_execute_spec w s W) as X. destruct (wd_execute current w s) as [s' evs]. simpl. apply X.
  - apply shutdown_spec; auto.
  - now apply wf_set_now.
  - destruct (pi_boost s) as [[s1 nb]|] eqn:B; auto.
    assert (W1 : WF s1) by (eapply prio_only_wf; [eapply pi_boost_po; eauto | auto]).
    pose proof (wd_execute_spec w s1 W1) as X. destruct (wd_execute current w s1) as [s' evs]. simpl. apply X.
  - destruct (is_active s o); simpl; auto.
    destruct (advance s o CpDefault) as [s' b] eqn:A. simpl. eapply advance_wf; eauto.
  - destruct (get_lock s r) as [l|] eqn:Hl; simpl; auto.
    destruct (l_wait l) as [|x t]; simpl; auto.
    eapply wf_put_lock_core; eauto.
  - now apply reregister_wf.
Qed.

(* ------------------------------------------------------------------ *)
(* scripted callback bodies.  A body is run by [run_work_with nested encl]: an
   invariant of the step API that the nested execute_operation calls preserve
   (when they are made: the id is neither live nor that of an enclosing
   operation) is an invariant of the body.  [run_work] = no nested calls
   (the checkpoint callbacks). *)

Lemma run_work_with_inv (P : st -> Prop) nested encl w :
  (forall s a, P s -> P (fst (fstep current w s a))) ->
  forall acts,
  (forall s o p reqs sc, In (WExec o p reqs sc) acts -> P s ->
     ~ In o (active s) -> ~ In o encl -> P (fst (nested s o p reqs sc))) ->
  forall s, P s -> P (fst (run_work_with nested encl current w s acts)).
Proof.
  intros Hf. induction acts as [|a acts IH]; intros Hn s H; simpl; auto.
  assert (Hn' : forall s o p reqs sc, In (WExec o p reqs sc) acts -> P s ->
                  ~ In o (active s) -> ~ In o encl -> P (fst (nested s o p reqs sc))).
  { intros; eapply Hn; eauto. simpl; auto. }
  destruct a as [|f|o p reqs sc].
  - specialize (IH Hn' s H). destruct (run_work_with nested encl current w s acts). auto.
  - pose proof (Hf s f H) as H1. destruct (fstep current w s f) as [s1 ret]. simpl in H1.
    specialize (IH Hn' s1 H1). destruct (run_work_with nested encl current w s1 acts). auto.
  - destruct (is_active s o || memz o encl) eqn:E.
    + specialize (IH Hn' s H). destruct (run_work_with nested encl current w s acts). auto.
    + apply orb_false_iff in E as [E1 E2].
      assert (H1 : P (fst (nested s o p reqs sc))).
      { apply Hn; simpl; auto; now apply memz_false. }
      destruct (nested s o p reqs sc) as [s1 r]. simpl in H1.
      specialize (IH Hn' s1 H1). destruct (run_work_with nested encl current w s1 acts). auto.
Qed.

Lemma run_work_inv (P : st -> Prop) w :
  (forall s a, P s -> P (fst (fstep current w s a))) ->
  forall acts s, P s -> P (fst (run_work current w s acts)).
Proof. intros Hf acts s H. apply run_work_with_inv; auto. Qed.

Lemma run_work_wf w acts : forall s, WF s -> WF (fst (run_work current w s acts)).
Proof. intros s W. apply run_work_inv; auto. intros; now apply fstep_wf. Qed.

(* a body that neither calls the controller nor runs a nested operation *)
Definition probes_only (acts : list wact) : Prop := forall a, In a acts -> a = WProbe.

Lemma run_work_probes nested encl fl w acts :
  forall s, probes_only acts -> fst (run_work_with nested encl fl w s acts) = s.
Proof.
  induction acts as [|a acts IH]; intros s P; simpl; auto.
  assert (P' : probes_only acts) by (intros a' X; apply (P a'); simpl; auto).
  assert (Ea : a = WProbe) by (apply P; simpl; auto). subst a.
  specialize (IH s P'). destruct (run_work_with nested encl fl w s acts). auto.
Qed.

Lemma probes_only_cb (l : list cact) :
  probes_only (map cact_wact l) <-> forall a, In a l -> a = CProbe.
Proof.
  split.
  - intros P a Ha. specialize (P (cact_wact a) (in_map _ _ _ Ha)). destruct a; simpl in P; congruence.
  - intros H a Ha. apply in_map_iff in Ha as (c & <- & Hc). now rewrite (H c Hc).
Qed.

(* ------------------------------------------------------------------ *)
(* advance with a callback: [advance_at]                                *)

Lemma advance_at_wf ph s o out s' b : WF s -> advance_at ph s o out = (s', b) -> WF s'.
Proof.
  intros W. unfold advance_at. destruct (get_ctx s o) as [c|] eqn:Hc.
  - destruct (match out with CpDefault => cond_at ph c | _ => false end);
      intros H; inversion H; subst; auto.
    eapply wf_put_ctx; eauto. apply incl_refl.
  - intros H; inversion H; subst; auto.
Qed.

Lemma advance_at_frame ph s o out s' b :
  advance_at ph s o out = (s', b) ->
  active s' = active s /\ (forall r, get_lock s' r = get_lock s r) /\ now s' = now s /\
  (forall o', o' <> o -> get_ctx s' o' = get_ctx s o').
Proof.
  unfold advance_at. destruct (get_ctx s o) as [c|] eqn:Hc.
  - destruct (match out with CpDefault => cond_at ph c | _ => false end);
      intros H; inversion H; subst; auto.
    repeat split; auto. intros o' N. autorewrite with st. destruct (Z.eqb o o') eqn:E; auto. lia.
  - intros H; inversion H; subst; auto.
Qed.

(* ------------------------------------------------------------------ *)
(* An operation that is being executed may have been delisted (killed from
   inside one of its own callbacks) and still go on acquiring locks until
   execute_operation notices; with NESTED execute_operation calls there is a
   whole chain of such operations.  [WFbuts xs s]: [s] is well-formed once the
   operations [xs] are counted among the live ones, i.e. every owner is active
   OR one of [xs], and each of [xs] has a context that lists what it owns.
   [WFbut x] is the one-operation case.  [acts_plus] commutes with every
   primitive of the controller, so the lemmas about [WF] carry over. *)

Definition acts_plus (xs : list Z) (s : st) : st := set_active s (xs ++ active s).
Definition WFbuts (xs : list Z) (s : st) : Prop := WF (acts_plus xs s).
Definition act_plus (x : Z) (s : st) : st := acts_plus [x] s.
Definition WFbut (x : Z) (s : st) : Prop := WFbuts [x] s.

Lemma set_active_id s : set_active s (active s) = s.
Proof. destruct s; reflexivity. Qed.

Lemma acts_plus_nil s : acts_plus [] s = s.
Proof. apply set_active_id. Qed.

Lemma wfbuts_nil s : WFbuts [] s <-> WF s.
Proof. unfold WFbuts. now rewrite acts_plus_nil. Qed.

Lemma wf_more_active s A B :
  WF (set_active s A) -> incl A B -> (forall o, In o B -> exists c, get_ctx s o = Some c) ->
  WF (set_active s B).
Proof.
  intros W I C. constructor.
  - apply (wf_lock _ W).
  - intros r l o Hl Ho. destruct (wf_own _ W r l o Hl Ho) as (X & Y).
    split; [apply I; exact X | exact Y].
  - intros o X. apply C. exact X.
Qed.

Lemma wfbuts_ctx xs s x : WFbuts xs s -> In x xs -> exists c, get_ctx s x = Some c.
Proof. intros W X. apply (wf_act _ W x). simpl. apply in_or_app. auto. Qed.

Lemma wfbuts_act_ctx xs s x : WFbuts xs s -> In x (active s) -> exists c, get_ctx s x = Some c.
Proof. intros W X. apply (wf_act _ W x). simpl. apply in_or_app. auto. Qed.

Lemma wf_wfbuts xs s : WF s -> (forall x, In x xs -> exists c, get_ctx s x = Some c) -> WFbuts xs s.
Proof.
  intros W C. unfold WFbuts, acts_plus. apply wf_more_active with (A := active s).
  - now rewrite set_active_id.
  - apply incl_appr, incl_refl.
  - intros o X. apply in_app_or in X as [X|X]; [now apply C | apply (wf_act s W o X)].
Qed.

Lemma wfbuts_cons x xs s : WFbuts xs s -> (exists c, get_ctx s x = Some c) -> WFbuts (x :: xs) s.
Proof.
  intros W C. unfold WFbuts, acts_plus in *. eapply wf_more_active; [exact W| |].
  - intros y Y. simpl. auto.
  - intros y [<-|Y]; auto. apply (wf_act _ W y Y).
Qed.

Lemma wf_wfbut x s : WF s -> (exists c, get_ctx s x = Some c) -> WFbut x s.
Proof. intros W Hx. apply wf_wfbuts; auto. intros y [<-|[]]. exact Hx. Qed.

Lemma wfbut_wf x s : WFbut x s -> (In x (active s) \/ owns_nothing s x) -> WF s.
Proof.
  intros W Hx. constructor.
  - apply (wf_lock _ W).
  - intros r l o Hl Ho. destruct (wf_own _ W r l o Hl Ho) as (A & B). split; auto.
    simpl in A. destruct A as [<-|A]; auto. destruct Hx as [Hx|Hx]; auto.
    exfalso. apply (Hx r). assert (Hl' : get_lock s r = Some l) by exact Hl.
    rewrite owner_def, Hl'. exact Ho.
  - intros o X. apply (wf_act _ W o). simpl. auto.
Qed.

Lemma wfbut_ctx x s : WFbut x s -> exists c, get_ctx s x = Some c.
Proof. intros W. apply (wfbuts_ctx [x] s x W). simpl. auto. Qed.

(* operations outside [xs] and not active own nothing *)
Lemma wfbuts_inactive_owns_nothing xs s o :
  WFbuts xs s -> ~ In o (active s) -> ~ In o xs -> owns_nothing s o.
Proof.
  intros W Na Nx r H.
  assert (X : In o (active (acts_plus xs s))) by (eapply wf_owner_active; eauto).
  simpl in X. apply in_app_or in X. tauto.
Qed.

Lemma remz_cons_ne o x A : o <> x -> remz o (x :: A) = x :: remz o A.
Proof. intros N. unfold remz. simpl. destruct (Z.eqb x o) eqn:E; [lia|reflexivity]. Qed.

Lemma remz_cons_eq x A : remz x (x :: A) = remz x A.
Proof. unfold remz. simpl. now rewrite Z.eqb_refl. Qed.

Lemma remz_app o A B : remz o (A ++ B) = remz o A ++ remz o B.
Proof. unfold remz. apply filter_app. Qed.

Lemma remz_notin o A : ~ In o A -> remz o A = A.
Proof.
  induction A as [|a A IH]; intros N; auto.
  rewrite remz_cons_ne by (intros ->; apply N; simpl; auto).
  rewrite IH; auto. intros X. apply N. simpl. auto.
Qed.

Lemma acquire_pluss fl xs s o r :
  acquire fl (acts_plus xs s) o r = (acts_plus xs (fst (acquire fl s o r)), snd (acquire fl s o r)).
Proof.
  unfold acquire. change (get_ctx (acts_plus xs s) o) with (get_ctx s o).
  destruct (get_ctx s o) as [c|]; [|reflexivity].
  change (get_lock (acts_plus xs s) r) with (get_lock s r).
  destruct (get_lock s r) as [l|]; [|reflexivity].
  destruct (try_acquire l o (c_prio c)) as [l' res]. destruct res; reflexivity.
Qed.

Lemma release_pluss fl xs s o r :
  release fl (acts_plus xs s) o r = (acts_plus xs (fst (release fl s o r)), snd (release fl s o r)).
Proof.
  unfold release. change (get_ctx (acts_plus xs s) o) with (get_ctx s o).
  destruct (get_ctx s o) as [c|]; [|reflexivity].
  destruct (negb (memz r (c_acq c))); [reflexivity|].
  change (get_lock (acts_plus xs s) r) with (get_lock s r).
  destruct (get_lock s r) as [l|]; [|reflexivity].
  destruct (lock_release l o) as [l' ok]. destruct ok; [|reflexivity].
  destruct (f_forget fl || negb (oeqb (l_owner l') o)); reflexivity.
Qed.

Lemma release_one_pluss fl xs s o r :
  release_one fl (acts_plus xs s) o r = acts_plus xs (release_one fl s o r).
Proof.
  unfold release_one. destruct (f_reentrant fl).
  - now rewrite release_pluss.
  - change (get_lock (acts_plus xs s) r) with (get_lock s r).
    destruct (get_lock s r) as [l|].
    + change (put_lock (acts_plus xs s) r (drop_reentrant (Z.to_nat (l_hold l)) o l))
        with (acts_plus xs (put_lock s r (drop_reentrant (Z.to_nat (l_hold l)) o l))).
      now rewrite release_pluss.
    + now rewrite release_pluss.
Qed.

Lemma release_fold_pluss fl xs o (L : list Z) : forall s,
  fold_left (fun s r => release_one fl s o r) L (acts_plus xs s) =
  acts_plus xs (fold_left (fun s r => release_one fl s o r) L s).
Proof.
  induction L as [|r L IH]; intros s; simpl; auto. now rewrite release_one_pluss, IH.
Qed.

Lemma release_all_pluss fl xs s o : release_all fl (acts_plus xs s) o = acts_plus xs (release_all fl s o).
Proof.
  unfold release_all. change (get_ctx (acts_plus xs s) o) with (get_ctx s o).
  destruct (get_ctx s o); auto. apply release_fold_pluss.
Qed.

Lemma fin_acts xs o s3 :
  set_active (acts_plus xs s3) (remz o (active (acts_plus xs s3))) =
  acts_plus (remz o xs) (set_active s3 (remz o (active s3))).
Proof.
  unfold acts_plus, set_active. cbn [active resources ctxs edges now]. now rewrite remz_app.
Qed.

(* complete / abort of [o]: [o] leaves the extra list as well *)
Lemma finish_pluss fl xs s o : finish fl (acts_plus xs s) o = acts_plus (remz o xs) (finish fl s o).
Proof.
  unfold finish. rewrite release_all_pluss.
  set (s1 := release_all fl s o).
  destruct (f_graph fl).
  - change (get_ctx (acts_plus xs s1) o) with (get_ctx s1 o).
    destruct (get_ctx s1 o) as [c|].
    + exact (fin_acts xs o (put_ctx s1 o (c_set_phase c G0 (now s1)))).
    + exact (fin_acts xs o s1).
  - set (s2 := set_edges s1 (remove_all_for_agent (edges s1) o)).
    change (set_edges (acts_plus xs s1) (remove_all_for_agent (edges (acts_plus xs s1)) o)) with (acts_plus xs s2).
    change (get_ctx (acts_plus xs s2) o) with (get_ctx s2 o).
    destruct (get_ctx s2 o) as [c|].
    + exact (fin_acts xs o (put_ctx s2 o (c_set_phase c G0 (now s2)))).
    + exact (fin_acts xs o s2).
Qed.

Lemma finish_pluss_ne fl xs s o : ~ In o xs -> finish fl (acts_plus xs s) o = acts_plus xs (finish fl s o).
Proof. intros N. now rewrite finish_pluss, remz_notin. Qed.

Lemma finish_plus_ne fl x s o : o <> x -> finish fl (act_plus x s) o = act_plus x (finish fl s o).
Proof. intros N. apply finish_pluss_ne. simpl. intuition. Qed.

Lemma finish_plus_eq fl x s : finish fl (act_plus x s) x = finish fl s x.
Proof.
  unfold act_plus. rewrite finish_pluss, remz_cons_eq. apply acts_plus_nil.
Qed.

Lemma finish_plus_lock x s o r :
  get_lock (finish current (act_plus x s) o) r = get_lock (finish current s o) r.
Proof. unfold act_plus. now rewrite finish_pluss. Qed.

Lemma upd_ctx_pluss xs s o f : upd_ctx (acts_plus xs s) o f = acts_plus xs (upd_ctx s o f).
Proof.
  unfold upd_ctx. change (get_ctx (acts_plus xs s) o) with (get_ctx s o). destruct (get_ctx s o); reflexivity.
Qed.

Lemma advance_at_pluss ph xs s o out :
  advance_at ph (acts_plus xs s) o out =
  (acts_plus xs (fst (advance_at ph s o out)), snd (advance_at ph s o out)).
Proof.
  unfold advance_at. change (get_ctx (acts_plus xs s) o) with (get_ctx s o).
  destruct (get_ctx s o) as [c|]; [|reflexivity].
  destruct (match out with CpDefault => cond_at ph c | _ => false end); reflexivity.
Qed.

(* the primitives preserve [WFbuts xs] *)
Lemma acquire_wfbuts xs s o r s' res :
  WFbuts xs s -> In o (active s) \/ In o xs -> acquire current s o r = (s', res) -> WFbuts xs s'.
Proof.
  intros W Ha H. unfold WFbuts in *.
  pose proof (acquire_pluss current xs s o r) as E. rewrite H in E. simpl in E.
  eapply acquire_wf; [exact W| |exact E]. simpl. apply in_or_app. tauto.
Qed.

Lemma release_wfbuts xs s o r s' b : WFbuts xs s -> release current s o r = (s', b) -> WFbuts xs s'.
Proof.
  intros W H. unfold WFbuts in *.
  pose proof (release_pluss current xs s o r) as E. rewrite H in E. simpl in E.
  eapply release_wf; eauto.
Qed.

Lemma finish_wfbuts xs s o : WFbuts xs s -> WFbuts xs (finish current s o).
Proof.
  intros W. unfold WFbuts in *.
  destruct (finish_spec _ o W) as (W' & _ & _ & _ & _ & _ & _ & _ & S).
  rewrite finish_pluss in W', S.
  unfold acts_plus at 1. unfold acts_plus at 1 in W'.
  eapply wf_more_active; [exact W'| |].
  - intros y Y. apply in_app_or in Y as [Y|Y]; apply in_or_app; auto.
    left. apply remz_In in Y. tauto.
  - intros y Y. destruct (Z.eq_dec y o) as [->|N].
    + destruct (wf_act _ W o) as (c & Hc).
      { apply in_app_or in Y as [Y|Y]; simpl; apply in_or_app; auto.
        exfalso. eapply finish_not_active; eauto. }
      destruct (S c Hc) as (x & Hx & _). eexists. exact Hx.
    + apply (wf_act _ W' y). simpl. apply in_app_or in Y as [Y|Y]; apply in_or_app; auto.
      left. apply remz_In. auto.
Qed.

(* ending [x] itself, the innermost of the chain: everything it still holds is
   released, the state is well-formed up to the rest of the chain *)
Lemma finish_x_wfbuts x xs s :
  WFbuts (x :: xs) s -> ~ In x xs ->
  WFbuts xs (finish current s x) /\ owns_nothing (finish current s x) x.
Proof.
  intros W N. unfold WFbuts in *.
  destruct (finish_spec _ x W) as (W' & N' & _).
  rewrite finish_pluss, remz_cons_eq, remz_notin in W', N' by auto.
  split; [exact W' | exact N'].
Qed.

Lemma finish_lock_frame_buts xs s o r :
  WFbuts xs s -> owner s r <> Some o -> get_lock (finish current s o) r = get_lock s r.
Proof.
  intros W N. destruct (finish_spec _ o W) as (_ & _ & _ & _ & L & _).
  specialize (L r N). rewrite finish_pluss in L. exact L.
Qed.

Lemma start_op_pluss xs s o p ex :
  ~ In o (xs ++ active s) -> start_op (acts_plus xs s) o p ex = acts_plus xs (start_op s o p ex).
Proof.
  intros Na. unfold start_op.
  assert (M1 : memz o (active (acts_plus xs s)) = false) by (apply memz_false; exact Na).
  assert (M2 : memz o (active s) = false) by (apply memz_false; intros X; apply Na, in_or_app; auto).
  rewrite M1, M2. unfold acts_plus, set_active, put_ctx, set_ctxs.
  cbn [active resources ctxs edges now]. now rewrite app_assoc.
Qed.

Lemma start_op_wfbuts xs s o p ex : WFbuts xs s -> get_ctx s o = None -> WFbuts xs (start_op s o p ex).
Proof.
  intros W F. unfold WFbuts in *.
  rewrite <- start_op_pluss.
  - apply start_op_wf; auto.
  - apply (wf_fresh_not_active _ o W F).
Qed.

(* execute_operation may re-use the id of an operation that has ended *)
Lemma start_op_wf_ended s o p ex : WF s -> ~ In o (active s) -> WF (start_op s o p ex).
Proof.
  intros W Na. unfold start_op.
  assert (M : memz o (active s) = false) by now apply memz_false.
  rewrite M. constructor.
  - intros r l. autorewrite with st. apply (wf_lock s W).
  - intros r l o0. autorewrite with st. intros Hl Ho.
    destruct (wf_own s W r l o0 Hl Ho) as (A & c & Hc & Hin).
    split. { apply in_or_app. auto. }
    destruct (Z.eqb o o0) eqn:E; eauto. assert (o = o0) by lia. subst. tauto.
  - intros o0. autorewrite with st. intros X. apply in_app_or in X as [X|[<-|[]]].
    + destruct (Z.eqb o o0); eauto. apply (wf_act s W o0 X).
    + rewrite Z.eqb_refl. eauto.
Qed.

(* ... also from inside a callback, as long as it is not the id of an enclosing operation *)
Lemma start_op_wfbuts_ended xs s o p ex :
  WFbuts xs s -> ~ In o (active s) -> ~ In o xs -> WFbuts xs (start_op s o p ex).
Proof.
  intros W Na Nx. unfold WFbuts in *.
  assert (N : ~ In o (xs ++ active s)) by (intros X; apply in_app_or in X; tauto).
  rewrite <- start_op_pluss by exact N. apply start_op_wf_ended; auto.
Qed.

Lemma upd_ctx_wfbuts xs s o f :
  WFbuts xs s -> (forall c, c_acq (f c) = c_acq c) -> WFbuts xs (upd_ctx s o f).
Proof. intros W Hf. unfold WFbuts. rewrite <- upd_ctx_pluss. now apply upd_ctx_wf. Qed.

Lemma advance_at_wfbuts ph xs s o out : WFbuts xs s -> WFbuts xs (fst (advance_at ph s o out)).
Proof.
  intros W. unfold WFbuts in *. pose proof (advance_at_pluss ph xs s o out) as E.
  eapply advance_at_wf; eauto.
Qed.

Lemma abort_if_active_wfbuts xs s o : WFbuts xs s -> WFbuts xs (abort_if_active current s o).
Proof. intros W. unfold abort_if_active. destruct (is_active s o); auto. now apply finish_wfbuts. Qed.

Lemma abort_fold_wfbuts xs (L : list Z) : forall s,
  WFbuts xs s -> WFbuts xs (fold_left (abort_if_active current) L s).
Proof. induction L as [|o L IH]; intros s W; simpl; auto. apply IH. now apply abort_if_active_wfbuts. Qed.

Lemma advance_as_at s o out : advance s o out = advance_at (phase_of s o) s o out.
Proof.
  unfold advance, advance_at, phase_of. destruct (get_ctx s o) as [c|]; reflexivity.
Qed.

Lemma prio_only_pluss xs s s' : prio_only s s' -> prio_only (acts_plus xs s) (acts_plus xs s').
Proof.
  intros [A B C D E]. constructor; auto.
  unfold acts_plus. rewrite !active_set_active. now rewrite B.
Qed.

Lemma prio_only_wfbuts xs s s' : prio_only s s' -> WFbuts xs s -> WFbuts xs s'.
Proof. intros P W. unfold WFbuts in *. eapply prio_only_wf; [apply prio_only_pluss; eauto | auto]. Qed.

Lemma reregister_pluss xs s r pre : reregister (acts_plus xs s) r pre = acts_plus xs (reregister s r pre).
Proof.
  unfold reregister, acts_plus. rewrite get_lock_set_active.
  destruct (get_lock s r) as [l|]; [destruct (l_owner l)|]; reflexivity.
Qed.

Lemma fstep_wfbuts xs w s a : WFbuts xs s -> WFbuts xs (fst (fstep current w s a)).
Proof.
  intros W. destruct a; cbn [fstep].
  - destruct (has_ctx s o) eqn:E; simpl; auto. apply start_op_wfbuts; auto. now apply has_ctx_false.
  - destruct (is_active s o) eqn:E; simpl; auto.
    destruct (acquire current s o r) as [s' res] eqn:Ha.
    assert (WFbuts xs s') by (apply (acquire_wfbuts xs s o r s' res W); [left; now apply is_active_In | exact Ha]).
    destruct res; auto.
  - destruct (is_active s o) eqn:E; simpl; auto.
    destruct (release current s o r) as [s' b] eqn:Hr. simpl. eapply release_wfbuts; eauto.
  - destruct (is_active s o); simpl; auto. now apply finish_wfbuts.
  - destruct (is_active s o); simpl; auto. now apply finish_wfbuts.
  - destruct (is_active s o); simpl; auto. now apply finish_wfbuts.
  - unfold wd_execute. rewrite fold_abort_events. simpl. now apply abort_fold_wfbuts.
  - unfold shutdown. now apply abort_fold_wfbuts.
  - exact (wf_set_now (acts_plus xs s) _ W).
  - destruct (pi_boost s) as [[s1 nb]|] eqn:B; auto.
    assert (W1 : WFbuts xs s1) by (eapply prio_only_wfbuts; [eapply pi_boost_po; eauto | auto]).
    unfold wd_execute. rewrite fold_abort_events. simpl. now apply abort_fold_wfbuts.
  - destruct (is_active s o); simpl; auto.
    rewrite advance_as_at. pose proof (advance_at_wfbuts (phase_of s o) xs s o CpDefault W) as X.
    destruct (advance_at (phase_of s o) s o CpDefault) as [s' b]. exact X.
  - destruct (get_lock s r) as [l|] eqn:Hl; simpl; auto.
    destruct (l_wait l) as [|y t]; simpl; auto.
    unfold WFbuts in *.
    change (WF (put_lock (acts_plus xs s) r (mkLock (l_owner l) (l_prio l) (l_hold l) (l_preempt l) t))).
    eapply wf_put_lock_core; eauto.
  - cbn [fst]. unfold WFbuts in *. rewrite <- reregister_pluss. now apply reregister_wf.
Qed.

Lemma run_work_wfbuts xs w acts : forall s, WFbuts xs s -> WFbuts xs (fst (run_work current w s acts)).
Proof. intros s W. apply run_work_inv; auto. intros; now apply fstep_wfbuts. Qed.

(* the one-operation case, under the names used so far *)
Lemma acquire_wfbut x s o r s' res :
  WFbut x s -> In o (active s) \/ o = x -> acquire current s o r = (s', res) -> WFbut x s'.
Proof. intros W Ha H. apply (acquire_wfbuts [x] s o r s' res W); auto. destruct Ha; simpl; auto. Qed.
Lemma release_wfbut x s o r s' b : WFbut x s -> release current s o r = (s', b) -> WFbut x s'.
Proof. apply release_wfbuts. Qed.
Lemma finish_wfbut x s o : WFbut x s -> WFbut x (finish current s o).
Proof. apply finish_wfbuts. Qed.
Lemma finish_x_wf x s : WFbut x s -> WF (finish current s x) /\ owns_nothing (finish current s x) x.
Proof.
  intros W. destruct (finish_x_wfbuts x [] s W (fun F => F)) as (A & B).
  split; [now apply wfbuts_nil | exact B].
Qed.
Lemma finish_lock_frame_but x s o r :
  WFbut x s -> owner s r <> Some o -> get_lock (finish current s o) r = get_lock s r.
Proof. apply finish_lock_frame_buts. Qed.
Lemma start_op_wfbut x s o p ex : WFbut x s -> get_ctx s o = None -> WFbut x (start_op s o p ex).
Proof. apply start_op_wfbuts. Qed.
Lemma upd_ctx_wfbut x s o f :
  WFbut x s -> (forall c, c_acq (f c) = c_acq c) -> WFbut x (upd_ctx s o f).
Proof. apply upd_ctx_wfbuts. Qed.
Lemma advance_at_wfbut ph x s o out : WFbut x s -> WFbut x (fst (advance_at ph s o out)).
Proof. apply advance_at_wfbuts. Qed.
Lemma fstep_wfbut x w s a : WFbut x s -> WFbut x (fst (fstep current w s a)).
Proof. apply fstep_wfbuts. Qed.
Lemma run_work_wfbut x w acts : forall s, WFbut x s -> WFbut x (fst (run_work current w s acts)).
Proof. apply run_work_wfbuts. Qed.

(* ------------------------------------------------------------------ *)
(* Ending OTHER operations never touches a lock owned by [o]; and once [o] is
   delisted it stays delisted as long as nobody starts operations.  No
   well-formedness needed, any flags: used for "work_fn is only invoked while
   the operation holds everything it asked for". *)

Lemma release_active_g fl s o r : active (fst (release fl s o r)) = active s.
Proof.
  unfold release. destruct (get_ctx s o) as [c|]; [|reflexivity].
  destruct (negb (memz r (c_acq c))); [reflexivity|].
  destruct (get_lock s r) as [l|]; [|reflexivity].
  destruct (lock_release l o) as [l' ok]. destruct ok; [|reflexivity].
  destruct (f_forget fl || negb (oeqb (l_owner l') o)); reflexivity.
Qed.

Lemma release_one_active_g fl s o r : active (release_one fl s o r) = active s.
Proof.
  unfold release_one. rewrite release_active_g.
  destruct (f_reentrant fl); auto. destruct (get_lock s r); reflexivity.
Qed.

Lemma release_all_active_g fl s o : active (release_all fl s o) = active s.
Proof.
  unfold release_all. destruct (get_ctx s o) as [c|]; auto.
  generalize (c_acq c). intros L. revert s. induction L as [|r L IH]; intros s; simpl; auto.
  now rewrite IH, release_one_active_g.
Qed.

Lemma finish_active_g fl s o : active (finish fl s o) = remz o (active s).
Proof.
  unfold finish. pose proof (release_all_active_g fl s o) as A.
  set (s1 := release_all fl s o) in *.
  destruct (f_graph fl).
  - destruct (get_ctx s1 o); simpl; now rewrite A.
  - change (get_ctx (set_edges s1 (remove_all_for_agent (edges s1) o)) o) with (get_ctx s1 o).
    destruct (get_ctx s1 o); simpl; now rewrite A.
Qed.

Lemma release_owner_keep fl s o' r0 o r :
  o' <> o -> owner s r = Some o -> owner (fst (release fl s o' r0)) r = Some o.
Proof.
  intros N H. unfold release. destruct (get_ctx s o') as [c|]; [|exact H].
  destruct (negb (memz r0 (c_acq c))); [exact H|].
  destruct (get_lock s r0) as [l|] eqn:Hl; [|exact H].
  destruct (lock_release l o') as [l' ok] eqn:Hr. destruct ok; [|exact H].
  assert (X : owner (put_lock s r0 l') r = Some o).
  { rewrite owner_def. autorewrite with st. destruct (Z.eqb r0 r) eqn:E.
    - exfalso. assert (r0 = r) by lia. subst r0. rewrite owner_def, Hl in H.
      apply lock_release_cases in Hr as [(X & _)|[(_ & Ho & _)|(_ & Ho & _)]]; congruence.
    - rewrite <- owner_def. exact H. }
  destruct (f_forget fl || negb (oeqb (l_owner l') o')); exact X.
Qed.

Lemma release_one_owner_keep fl s o' r0 o r :
  o' <> o -> owner s r = Some o -> owner (release_one fl s o' r0) r = Some o.
Proof.
  intros N H. unfold release_one. apply release_owner_keep; auto.
  destruct (f_reentrant fl); auto.
  destruct (get_lock s r0) as [l|] eqn:Hl; auto.
  rewrite owner_def. autorewrite with st. destruct (Z.eqb r0 r) eqn:E.
  - assert (r0 = r) by lia. subst r0. rewrite owner_def, Hl in H.
    rewrite drop_reentrant_other; auto. congruence.
  - rewrite <- owner_def. exact H.
Qed.

Lemma release_all_owner_keep fl s o' o r :
  o' <> o -> owner s r = Some o -> owner (release_all fl s o') r = Some o.
Proof.
  intros N. unfold release_all. destruct (get_ctx s o') as [c|]; auto.
  generalize (c_acq c). intros L. revert s. induction L as [|r0 L IH]; intros s H; simpl; auto.
  apply IH. now apply release_one_owner_keep.
Qed.

Lemma finish_owner_keep fl s o' o r :
  o' <> o -> owner s r = Some o -> owner (finish fl s o') r = Some o.
Proof.
  intros N H. pose proof (release_all_owner_keep fl s o' o r N H) as X.
  unfold finish. set (s1 := release_all fl s o') in *.
  destruct (f_graph fl).
  - destruct (get_ctx s1 o'); exact X.
  - change (get_ctx (set_edges s1 (remove_all_for_agent (edges s1) o')) o') with (get_ctx s1 o').
    destruct (get_ctx s1 o'); exact X.
Qed.

Section Keeps.
Variables (fl : flags) (o : Z).

Definition keeps (s s' : st) : Prop :=
  incl (active s') (active s) /\
  (In o (active s') -> forall r, owner s r = Some o -> owner s' r = Some o).

Lemma keeps_refl s : keeps s s.
Proof. split; [apply incl_refl|auto]. Qed.

Lemma keeps_trans s1 s2 s3 : keeps s1 s2 -> keeps s2 s3 -> keeps s1 s3.
Proof.
  intros (I1 & K1) (I2 & K2). split. { eapply incl_tran; eauto. }
  intros A r H. apply K2; auto.
Qed.

Lemma abort_if_active_keeps s o' : keeps s (abort_if_active fl s o').
Proof.
  unfold abort_if_active. destruct (is_active s o'); [|apply keeps_refl].
  split.
  - rewrite finish_active_g. intros y Y. now apply remz_In in Y.
  - rewrite finish_active_g. intros A r H. apply remz_In in A as [_ A].
    apply finish_owner_keep; auto.
Qed.

Lemma abort_fold_keeps (L : list Z) : forall s, keeps s (fold_left (abort_if_active fl) L s).
Proof.
  induction L as [|o' L IH]; intros s; simpl; [apply keeps_refl|].
  eapply keeps_trans; [apply abort_if_active_keeps | apply IH].
Qed.

Lemma cact_keeps w s (a : cact) : keeps s (fst (run_work fl w s [cact_wact a])).
Proof.
  destruct a; simpl.
  - apply keeps_refl.
  - destruct (is_active s o0) eqn:E; simpl.
    + pose proof (abort_if_active_keeps s o0) as K. unfold abort_if_active in K. now rewrite E in K.
    + apply keeps_refl.
  - unfold wd_execute. rewrite fold_abort_events. simpl. apply abort_fold_keeps.
  - unfold shutdown. apply abort_fold_keeps.
  - split; [apply incl_refl|auto].
  - destruct (pi_boost s) as [[s1 nb]|] eqn:B; simpl; [|apply keeps_refl].
    pose proof (pi_boost_po _ _ _ B) as P.
    apply keeps_trans with (s2 := s1).
    + split; [rewrite (po_act _ _ P); apply incl_refl|].
      intros _ r H. now rewrite (prio_only_owner _ _ r P).
    + unfold wd_execute. rewrite fold_abort_events. simpl. apply abort_fold_keeps.
Qed.

Lemma run_work_cons fl' w s a acts :
  fst (run_work fl' w s (a :: acts)) = fst (run_work fl' w (fst (run_work fl' w s [a])) acts).
Proof.
  destruct a as [|f|o0 p0 reqs0 sc0]; cbn [run_work_with].
  - cbn [fst]. destruct (run_work fl' w s acts). reflexivity.
  - destruct (fstep fl' w s f) as [s1 ret]. cbn [fst]. destruct (run_work fl' w s1 acts). reflexivity.
  - destruct (is_active s o0 || memz o0 []); cbn [no_nested fst];
      destruct (run_work fl' w s acts); reflexivity.
Qed.

Lemma callback_keeps w (acts : list cact) : forall s, keeps s (fst (run_work fl w s (map cact_wact acts))).
Proof.
  induction acts as [|a acts IH]; intros s; [apply keeps_refl|].
  cbn [map]. rewrite run_work_cons. eapply keeps_trans; [apply cact_keeps | apply IH].
Qed.
End Keeps.

(* ------------------------------------------------------------------ *)
(* the acquisition loop of execute_operation                            *)

Lemma acquire_keeps_own fl s o r s' res r0 :
  acquire fl s o r = (s', res) -> owner s r0 = Some o -> owner s' r0 = Some o.
Proof.
  intros H X. destruct (Z.eq_dec r0 r) as [->|N].
  - destruct res as [lr| |].
    + destruct (acquire_lock_self _ _ _ _ _ _ H) as (l & l' & Hl & Hl' & C).
      rewrite owner_def in *. rewrite Hl in X. rewrite Hl'.
      destruct lr; intuition congruence.
    + apply acquire_shape in H as [-> _]. auto.
    + apply acquire_shape in H as [-> _]. auto.
  - rewrite owner_def in *. now rewrite (acquire_lock_frame _ _ _ _ _ _ r0 H N).
Qed.

Lemma acquire_all_owns fl o reqs : forall s k s',
  acquire_all fl s o k reqs = (s', AllAcquired) ->
  (forall r, In r reqs -> owner s' r = Some o) /\
  (forall r, owner s r = Some o -> owner s' r = Some o).
Proof.
  induction reqs as [|r reqs IH]; intros s k s' H; simpl in H.
  - inversion H; subst. split; auto. intros r [].
  - destruct (acquire fl s o r) as [s1 res] eqn:Ha.
    destruct res as [lr| |]; try discriminate.
    destruct lr; try discriminate;
      (destruct (IH _ _ _ H) as (A & B); split;
       [ intros r0 [<-|Hin]; auto; apply B;
         destruct (acquire_lock_self _ _ _ _ _ _ Ha) as (l & l' & _ & Hl' & C);
         rewrite owner_def, Hl'; intuition
       | intros r0 X; apply B; eapply acquire_keeps_own; eauto ]).
Qed.

Lemma acquire_all_wf o reqs : forall s k s' out,
  WF s -> In o (active s) -> acquire_all current s o k reqs = (s', out) ->
  WF s' /\ active s' = active s /\ now s' = now s /\
  (forall o', o' <> o -> get_ctx s' o' = get_ctx s o').
Proof.
  induction reqs as [|r reqs IH]; intros s k s' out W Ha H; simpl in H.
  - inversion H; subst. auto.
  - destruct (acquire current s o r) as [s1 res] eqn:Hq.
    pose proof (acquire_wf _ _ _ _ _ W Ha Hq) as W1.
    pose proof (acquire_active _ _ _ _ _ _ Hq) as A1.
    pose proof (acquire_now _ _ _ _ _ _ Hq) as T1.
    assert (C1 : forall o', o' <> o -> get_ctx s1 o' = get_ctx s o').
    { intros o' N. eapply acquire_ctx_frame; eauto. }
    destruct res as [lr| |].
    + destruct lr; try (inversion H; subst; auto; fail);
        (assert (Ha1 : In o (active s1)) by (rewrite A1; auto);
         destruct (IH _ _ _ _ W1 Ha1 H) as (W2 & A2 & T2 & C2);
         split; auto; split; [congruence|]; split; [congruence|];
         intros o' N; rewrite C2 by auto; auto).
    + inversion H; subst; auto.
    + inversion H; subst; auto.
Qed.

(* the requests that were obtained: the prefix before the first BLOCKED / unknown id *)
Fixpoint obtained (fl : flags) (s : st) (o : Z) (reqs : list Z) : list Z :=
  match reqs with
  | [] => []
  | r :: rest =>
      match acquire fl s o r with
      | (_, AOk LBlocked) => []
      | (s', AOk _) => r :: obtained fl s' o rest
      | _ => []
      end
  end.

Definition lock_core (s : st) (r : Z) : option (option Z * Z * Z) :=
  match get_lock s r with Some l => Some (l_owner l, l_prio l, l_hold l) | None => None end.

Lemma lock_core_eq s s' r : get_lock s' r = get_lock s r -> lock_core s' r = lock_core s r.
Proof. unfold lock_core. now intros ->. Qed.

Lemma obtained_incl fl o reqs : forall s, incl (obtained fl s o reqs) reqs.
Proof.
  induction reqs as [|r reqs IH]; intros s; simpl; [apply incl_refl|].
  destruct (acquire fl s o r) as [s1 res]. destruct res as [lr| |]; try (intros x []; fail).
  destruct lr; try (intros x []; fail); (intros x [<-|X]; simpl; auto; right; eapply IH; eauto).
Qed.

Lemma acquire_all_untouched fl o reqs : forall s k s' out r0,
  acquire_all fl s o k reqs = (s', out) ->
  ~ In r0 (obtained fl s o reqs) ->
  lock_core s' r0 = lock_core s r0 /\ (owner s' r0 = Some o -> owner s r0 = Some o).
Proof.
  induction reqs as [|r reqs IH]; intros s k s' out r0 H N; simpl in *.
  - inversion H; subst. auto.
  - destruct (acquire fl s o r) as [s1 res] eqn:Ha.
    destruct res as [lr| |].
    + assert (Hcase : lr = LBlocked \/
               (lr <> LBlocked /\ acquire_all fl s1 o (S k) reqs = (s', out) /\
                ~ In r0 (r :: obtained fl s1 o reqs))).
      { destruct lr; auto; right; (split; [discriminate|auto]). }
      destruct Hcase as [->|(Nb & H' & N')].
      * inversion H; subst. destruct (Z.eq_dec r0 r) as [->|Nr].
        -- destruct (acquire_lock_self _ _ _ _ _ _ Ha) as (l & l' & Hl & Hl' & A & B & C & _).
           unfold lock_core. rewrite owner_def, owner_def, Hl, Hl'. split; congruence.
        -- rewrite owner_def, owner_def. unfold lock_core.
           rewrite (acquire_lock_frame _ _ _ _ _ _ r0 Ha Nr). auto.
      * assert (Nr : r0 <> r) by (intros ->; apply N'; simpl; auto).
        assert (N2 : ~ In r0 (obtained fl s1 o reqs)) by (intros X; apply N'; simpl; auto).
        destruct (IH _ _ _ _ r0 H' N2) as (A & B).
        pose proof (acquire_lock_frame _ _ _ _ _ _ r0 Ha Nr) as F.
        unfold owner, lock_core in *.
        rewrite F in A, B. split; [exact A | exact B].
    + inversion H; subst. apply acquire_shape in Ha as [-> _]. auto.
    + inversion H; subst. apply acquire_shape in Ha as [-> _]. auto.
Qed.

Lemma acquire_all_wfbuts xs o reqs : forall s k s' out,
  WFbuts xs s -> In o xs -> acquire_all current s o k reqs = (s', out) -> WFbuts xs s'.
Proof.
  induction reqs as [|r reqs IH]; intros s k s' out W Hx H; simpl in H.
  - inversion H; subst. auto.
  - destruct (acquire current s o r) as [s1 res] eqn:Hq.
    pose proof (acquire_wfbuts xs _ _ _ _ _ W (or_intror Hx) Hq) as W1.
    destruct res as [lr| |]; [destruct lr|..]; try (inversion H; subst; auto; fail); eapply IH; eauto.
Qed.

Lemma acquire_all_wfbut o reqs : forall s k s' out,
  WFbut o s -> acquire_all current s o k reqs = (s', out) -> WFbut o s'.
Proof. intros s k s' out W. apply acquire_all_wfbuts; auto. simpl. auto. Qed.

(* ------------------------------------------------------------------ *)
(* execute_operation: every path ends in complete/abort of a good state *)

Definition ends (o : Z) (P : st -> Prop) (x : st * result) : Prop :=
  exists sX, P sX /\ fst x = finish current sX o.

Section Stages.
Variables (chk : bool) (w : wcfg) (rw : runner) (o : Z) (sc : script) (P : st -> Prop).
Hypothesis P_upd : forall s f, (forall c, c_acq (f c) = c_acq c) -> P s -> P (upd_ctx s o f).
Hypothesis P_adv : forall ph s out, P s -> P (fst (advance_at ph s o out)).
Hypothesis P_work : forall s, P s -> P (fst (rw s (sc_work sc))).
Hypothesis P_cb : forall k s, P s -> P (fst (run_work current w s (cb_of sc k))).

Lemma failed_ends s log : P s -> ends o P (failed current s o log).
Proof. intros H. exists s. split; auto. Qed.

Lemma exec_validate_ends s log : P s -> ends o P (exec_validate current w s o sc log).
Proof.
  intros H. unfold exec_validate.
  assert (H8 : P (upd_ctx s o c_set_valid)) by (apply P_upd; auto).
  pose proof (P_cb 3 _ H8) as H8'.
  destruct (run_work current w (upd_ctx s o c_set_valid) (cb_of sc 3)) as [s8' l3]. simpl in H8'.
  pose proof (P_adv (phase_of (upd_ctx s o c_set_valid) o) _ (cp_of sc 3) H8') as H9.
  destruct (advance_at (phase_of (upd_ctx s o c_set_valid) o) s8' o (cp_of sc 3)) as [s9 b3]. simpl in H9.
  destruct (validate_outcome sc); try (apply failed_ends; assumption);
    (destruct b3; simpl; [exists s9; split; auto | apply failed_ends; assumption]).
Qed.

Lemma exec_after_work_ends s log : P s -> ends o P (exec_after_work current w s o sc log).
Proof.
  intros H. unfold exec_after_work.
  assert (H6 : P (upd_ctx s o c_set_exec)) by (apply P_upd; auto).
  pose proof (P_cb 2 _ H6) as H6'.
  destruct (run_work current w (upd_ctx s o c_set_exec) (cb_of sc 2)) as [s6' l2]. simpl in H6'.
  pose proof (P_adv (phase_of (upd_ctx s o c_set_exec) o) _ (cp_of sc 2) H6') as H7.
  destruct (advance_at (phase_of (upd_ctx s o c_set_exec) o) s6' o (cp_of sc 2)) as [s7 b2]. simpl in H7.
  destruct b2; simpl; [apply exec_validate_ends | apply failed_ends]; assumption.
Qed.

Lemma exec_work_ends s log : P s -> ends o P (exec_work current w rw s o sc log).
Proof.
  intros H. unfold exec_work.
  destruct (negb (accepts (sc_wsh sc) 0)); [apply failed_ends; assumption|].
  pose proof (P_work _ H) as H5.
  destruct (rw s (sc_work sc)) as [s5 wl]. simpl in H5.
  destruct (sc_work_raises sc); [apply failed_ends | apply exec_after_work_ends]; assumption.
Qed.

Lemma exec_acquired_ends s log : P s -> ends o P (exec_acquired chk current w rw s o sc log).
Proof.
  intros H. unfold exec_acquired.
  assert (H3 : P (upd_ctx s o c_set_racq)) by (apply P_upd; auto).
  pose proof (P_cb 1 _ H3) as H3'.
  destruct (run_work current w (upd_ctx s o c_set_racq) (cb_of sc 1)) as [s3' l1]. simpl in H3'.
  pose proof (P_adv (phase_of (upd_ctx s o c_set_racq) o) _ (cp_of sc 1) H3') as H4.
  destruct (advance_at (phase_of (upd_ctx s o c_set_racq) o) s3' o (cp_of sc 1)) as [s4 b1]. simpl in H4.
  destruct b1; simpl; [|apply failed_ends; assumption].
  destruct (chk && negb (is_active s4 o)); [apply failed_ends | apply exec_work_ends]; assumption.
Qed.
End Stages.

Lemma start_op_ctx s o p ex : exists c, get_ctx (start_op s o p ex) o = Some c.
Proof. unfold start_op. autorewrite with st. rewrite Z.eqb_refl. eauto. Qed.

(* the id may be one that was used before, by an operation that has ended - but
   not that of an operation whose execute_operation call encloses this one *)
Lemma exec_begin_specs xs w s o p sc s1 b0 l0 :
  WFbuts xs s -> ~ In o (active s) -> ~ In o xs ->
  exec_begin current w s o p sc = (s1, b0, l0) -> WFbuts (o :: xs) s1.
Proof.
  intros W Na Nx H. unfold exec_begin in H.
  assert (W0 : WFbuts (o :: xs) (start_op s o p false)).
  { apply wfbuts_cons; [now apply start_op_wfbuts_ended | apply start_op_ctx]. }
  pose proof (run_work_wfbuts (o :: xs) w (cb_of sc 0) _ W0) as W0'.
  destruct (run_work current w (start_op s o p false) (cb_of sc 0)) as [s0' l]. simpl in W0'.
  pose proof (advance_at_wfbuts G0 (o :: xs) s0' o (cp_of sc 0) W0') as W1.
  destruct (advance_at G0 s0' o (cp_of sc 0)) as [sa b]. simpl in W1. inversion H; subst. exact W1.
Qed.

Lemma exec_begin_spec w s o p sc s1 b0 l0 :
  WF s -> ~ In o (active s) -> exec_begin current w s o p sc = (s1, b0, l0) -> WFbut o s1.
Proof.
  intros W Na H. apply (exec_begin_specs [] w s o p sc s1 b0 l0); auto. now apply wfbuts_nil.
Qed.

(* ------------------------------------------------------------------ *)
(* nested execute_operation calls: induction on the nesting depth of the script *)

Fixpoint script_size (sc : script) : nat :=
  match sc with
  | mkScript _ _ work _ _ _ _ _ =>
      S ((fix ws (l : list wact) : nat :=
            match l with
            | [] => O
            | a :: r => (match a with WExec _ _ _ sc' => script_size sc' | _ => O end + ws r)%nat
            end) work)
  end.

Lemma script_size_in o p reqs sc' sc :
  In (WExec o p reqs sc') (sc_work sc) -> (script_size sc' < script_size sc)%nat.
Proof.
  destruct sc as [cp cpw work rs v vl wsh vsh]. cbn [sc_work script_size].
  induction work as [|a work IH]; intros X; [destruct X|].
  destruct X as [->|X].
  - lia.
  - specialize (IH X). destruct a; lia.
Qed.

Lemma exec_in_eq chk fl w sc encl s o p reqs :
  exec_in chk fl w sc encl s o p reqs =
  exec_body chk fl w (run_work_x chk (o :: encl) fl w) s o p reqs sc.
Proof. destruct sc; reflexivity. Qed.

(* execute_operation(o) called while the calls of [xs] are in progress: every
   path ends in complete/abort of a state that is well-formed up to [o :: xs] *)
Lemma exec_in_ends_wfbuts w : forall n sc, (script_size sc < n)%nat -> forall xs s o p reqs,
  WFbuts xs s -> ~ In o (active s) -> ~ In o xs ->
  ends o (WFbuts (o :: xs)) (exec_in true current w sc xs s o p reqs).
Proof.
  induction n as [|n IHn]; intros sc Hn xs s o p reqs W Na Nx; [lia|].
  rewrite exec_in_eq. unfold exec_body.
  destruct (exec_begin current w s o p sc) as [[s1 b0] l0] eqn:Hb.
  pose proof (exec_begin_specs _ _ _ _ _ _ _ _ _ W Na Nx Hb) as W1.
  destruct (acquire_all current s1 o 0 reqs) as [s2 out] eqn:Ha.
  assert (Hin : In o (o :: xs)) by (simpl; auto).
  pose proof (acquire_all_wfbuts _ _ _ _ _ _ _ W1 Hin Ha) as W2.
  assert (Hup : forall s f, (forall c, c_acq (f c) = c_acq c) -> WFbuts (o :: xs) s -> WFbuts (o :: xs) (upd_ctx s o f))
    by (intros; now apply upd_ctx_wfbuts).
  assert (Hadv : forall ph s out, WFbuts (o :: xs) s -> WFbuts (o :: xs) (fst (advance_at ph s o out)))
    by (intros; now apply advance_at_wfbuts).
  assert (Hcb : forall k s, WFbuts (o :: xs) s -> WFbuts (o :: xs) (fst (run_work current w s (cb_of sc k))))
    by (intros; now apply run_work_wfbuts).
  assert (Hwork : forall s, WFbuts (o :: xs) s ->
                    WFbuts (o :: xs) (fst (run_work_x true (o :: xs) current w s (sc_work sc)))).
  { intros s0 W0. unfold run_work_x. apply run_work_with_inv with (P := WFbuts (o :: xs)); auto.
    - intros; now apply fstep_wfbuts.
    - intros s' o' p' reqs' sc' Hi W' Na' Nx'.
      assert (Hs : (script_size sc' < n)%nat) by (apply script_size_in in Hi; lia).
      destruct (IHn sc' Hs (o :: xs) s' o' p' reqs' W' Na' Nx') as (sX & WX & E). rewrite E.
      now apply finish_x_wfbuts. }
  destruct out.
  - apply exec_acquired_ends; auto.
  - apply failed_ends; auto.
  - apply failed_ends; auto.
Qed.

Lemma nested_no_leak_proof w xs s o p reqs sc :
  WFbuts xs s -> ~ In o (active s) -> ~ In o xs ->
  let s' := fst (exec_in true current w sc xs s o p reqs) in
  owns_nothing s' o /\ ~ In o (active s') /\ WFbuts xs s'.
Proof.
  intros W Na Nx.
  destruct (exec_in_ends_wfbuts w (S (script_size sc)) sc (Nat.lt_succ_diag_r _) xs s o p reqs W Na Nx)
    as (sX & WX & E).
  cbv zeta. rewrite E. destruct (finish_x_wfbuts o xs sX WX Nx) as (W' & N).
  split; auto. split; auto. apply finish_not_active.
Qed.

Lemma exec_op_ends_wfbut w s o p reqs sc :
  WF s -> ~ In o (active s) -> ends o (WFbut o) (exec_op current w s o p reqs sc).
Proof.
  intros W Na. unfold exec_op, exec_op_gen.
  apply (exec_in_ends_wfbuts w (S (script_size sc)) sc (Nat.lt_succ_diag_r _) [] s o p reqs); auto.
  now apply wfbuts_nil.
Qed.

Lemma no_leak_proof w s o p reqs sc :
  WF s -> ~ In o (active s) ->
  let s' := fst (exec_op current w s o p reqs sc) in
  owns_nothing s' o /\ ~ In o (active s') /\ WF s'.
Proof.
  intros W Na. destruct (exec_op_ends_wfbut w s o p reqs sc W Na) as (sX & WX & ->).
  destruct (finish_x_wf o sX WX) as (W' & N).
  split; auto. split; auto. apply finish_not_active.
Qed.

(* resources the operation never obtained keep owner / priority / hold_count *)
Definition no_calls (sc : script) : Prop :=
  probes_only (sc_work sc) /\ forall k, probes_only (cb_of sc k).

Definition obtained_by (w : wcfg) (s : st) (o p : Z) (reqs : list Z) (sc : script) : list Z :=
  obtained current (fst (fst (exec_begin current w s o p sc))) o reqs.

Lemma nested_unobtained_untouched_proof w xs s o p reqs sc r :
  WFbuts xs s -> ~ In o (active s) -> ~ In o xs -> no_calls sc ->
  ~ In r (obtained_by w s o p reqs sc) ->
  lock_core (fst (exec_in true current w sc xs s o p reqs)) r = lock_core s r.
Proof.
  intros W Na Nx (PO & PC) N. unfold obtained_by in N. rewrite exec_in_eq. unfold exec_body.
  destruct (exec_begin current w s o p sc) as [[s1 b0] l0] eqn:Hb. simpl in N.
  pose proof (exec_begin_specs _ _ _ _ _ _ _ _ _ W Na Nx Hb) as W1.
  assert (L1 : forall r, get_lock s1 r = get_lock s r).
  { unfold exec_begin in Hb. pose proof (run_work_probes no_nested [] current w (cb_of sc 0) (start_op s o p false) (PC 0%nat)) as E.
    destruct (run_work current w (start_op s o p false) (cb_of sc 0)) as [s0' l]. simpl in E. subst s0'.
    destruct (advance_at G0 (start_op s o p false) o (cp_of sc 0)) as [sa b] eqn:Hv.
    destruct (advance_at_frame _ _ _ _ _ _ Hv) as (_ & L & _). inversion Hb; subst.
    intros r0. rewrite L. reflexivity. }
  destruct (acquire_all current s1 o 0 reqs) as [s2 out] eqn:Ha.
  assert (Hin : In o (o :: xs)) by (simpl; auto).
  pose proof (acquire_all_wfbuts _ _ _ _ _ _ _ W1 Hin Ha) as W2.
  destruct (acquire_all_untouched _ _ _ _ _ _ _ r Ha N) as (C2 & O2).
  set (P := fun sx => WFbuts (o :: xs) sx /\ lock_core sx r = lock_core s r /\ owner sx r <> Some o).
  assert (P2 : P s2).
  { split; auto. split.
    - rewrite C2. apply lock_core_eq, L1.
    - intros X. apply O2 in X. rewrite owner_def, L1 in X.
      apply (wfbuts_inactive_owns_nothing xs s o W Na Nx r). rewrite owner_def. exact X. }
  assert (Hup : forall s f, (forall c, c_acq (f c) = c_acq c) -> P s -> P (upd_ctx s o f)).
  { intros s0 f Hf (Wa & Ca & Oa). destruct (upd_ctx_frame s0 o f) as (_ & L & _).
    split. { now apply upd_ctx_wfbuts. }
    split. { rewrite <- Ca. apply lock_core_eq, L. }
    now rewrite owner_def, L. }
  assert (Hadv : forall ph s out, P s -> P (fst (advance_at ph s o out))).
  { intros ph s0 out0 (Wa & Ca & Oa). pose proof (advance_at_wfbuts ph (o :: xs) s0 o out0 Wa) as Wb.
    destruct (advance_at ph s0 o out0) as [s' b] eqn:E. simpl in *.
    destruct (advance_at_frame _ _ _ _ _ _ E) as (_ & L & _).
    split. { exact Wb. }
    split. { rewrite <- Ca. apply lock_core_eq, L. }
    now rewrite owner_def, L. }
  assert (Hwork : forall s, P s -> P (fst (run_work_x true (o :: xs) current w s (sc_work sc)))).
  { intros s0 H0. unfold run_work_x. now rewrite run_work_probes. }
  assert (Hcb : forall k s, P s -> P (fst (run_work current w s (cb_of sc k)))).
  { intros k s0 H0. rewrite run_work_probes; auto. }
  assert (E : ends o P (match out with
                        | AllAcquired => exec_acquired true current w (run_work_x true (o :: xs) current w) s2 o sc (l0 ++ [EvCp 0 b0])
                        | _ => failed current s2 o (l0 ++ [EvCp 0 b0]) end)).
  { destruct out; [apply exec_acquired_ends | apply failed_ends | apply failed_ends]; auto. }
  destruct E as (sX & (WX & CX & OX) & ->).
  rewrite <- CX. apply lock_core_eq. eapply finish_lock_frame_buts; eauto.
Qed.

Lemma unobtained_untouched_proof w s o p reqs sc r :
  WF s -> ~ In o (active s) -> no_calls sc ->
  ~ In r (obtained_by w s o p reqs sc) ->
  lock_core (fst (exec_op current w s o p reqs sc)) r = lock_core s r.
Proof.
  intros W Na PO N. unfold exec_op, exec_op_gen.
  apply nested_unobtained_untouched_proof; auto. now apply wfbuts_nil.
Qed.

Lemma unrequested_untouched_proof w s o p reqs sc r :
  WF s -> ~ In o (active s) -> no_calls sc -> ~ In r reqs ->
  lock_core (fst (exec_op current w s o p reqs sc)) r = lock_core s r.
Proof.
  intros W F PO N. apply unobtained_untouched_proof; auto.
  intros X. apply N. eapply obtained_incl; eauto.
Qed.

(* ------------------------------------------------------------------ *)
(* the callback log of execute_operation                                *)

Definition is_inner (e : ev) : Prop := match e with EvProbe _ | EvDid _ => True | _ => False end.
Definition validation_ok (sc : script) : bool :=
  match validate_outcome sc with ONone | OTrue => true | _ => false end.

Lemma run_work_log_inner nested encl fl w acts :
  forall s, Forall is_inner (snd (run_work_with nested encl fl w s acts)).
Proof.
  induction acts as [|a acts IH]; intros s; simpl; [constructor|].
  destruct a as [|f|o0 p0 reqs0 sc0].
  - specialize (IH s). destruct (run_work_with nested encl fl w s acts). simpl. constructor; simpl; auto.
  - destruct (fstep fl w s f) as [s1 ret]. specialize (IH s1).
    destruct (run_work_with nested encl fl w s1 acts). simpl. constructor; simpl; auto.
  - destruct (is_active s o0 || memz o0 encl).
    + specialize (IH s). destruct (run_work_with nested encl fl w s acts). simpl. constructor; simpl; auto.
    + destruct (nested s o0 p0 reqs0 sc0) as [s1 r]. specialize (IH s1).
      destruct (run_work_with nested encl fl w s1 acts). simpl. constructor; simpl; auto.
Qed.

Lemma exec_begin_log_inner fl w s o p sc : Forall is_inner (snd (exec_begin fl w s o p sc)).
Proof.
  unfold exec_begin. pose proof (run_work_log_inner no_nested [] fl w (cb_of sc 0) (start_op s o p false)) as X.
  destruct (run_work fl w (start_op s o p false) (cb_of sc 0)) as [s0' l].
  destruct (advance_at G0 s0' o (cp_of sc 0)). exact X.
Qed.

Lemma inner_filter_work wl : Forall is_inner wl -> filter is_work wl = [].
Proof.
  induction 1 as [|e l He _ IH]; simpl; auto. destruct e; simpl in *; tauto.
Qed.

Lemma inner_not_in wl e : Forall is_inner wl -> In e wl -> is_inner e.
Proof. intros H X. rewrite Forall_forall in H. auto. Qed.

Ltac exec_unfold :=
  rewrite ?exec_in_eq;
  unfold exec_body, run_work_x, exec_acquired, exec_work, exec_after_work, exec_validate, failed.

(* one case per exit path of execute_operation *)
Ltac exec_paths :=
  repeat match goal with
  | |- context [exec_begin ?fl ?w ?s ?o ?p ?sc] =>
      let s1 := fresh "s1" in let b0 := fresh "b0" in let l0 := fresh "l0" in
      pose proof (exec_begin_log_inner fl w s o p sc);
      destruct (exec_begin fl w s o p sc) as [[s1 b0] l0] eqn:?
  | |- context [acquire_all ?fl ?s ?o ?k ?reqs] =>
      let s2 := fresh "s2" in let out := fresh "out" in
      destruct (acquire_all fl s o k reqs) as [s2 out] eqn:?; destruct out
  | |- context [run_work_with ?n ?e ?fl ?w ?s ?a] =>
      let s5 := fresh "s5" in let wl := fresh "wl" in
      pose proof (run_work_log_inner n e fl w a s);
      destruct (run_work_with n e fl w s a) as [s5 wl] eqn:?
  | |- context [advance_at ?ph ?s ?o ?c] =>
      let s4 := fresh "sa" in let b := fresh "b" in
      destruct (advance_at ph s o c) as [s4 b] eqn:?; destruct b
  | |- context [is_active ?s ?o] => destruct (is_active s o) eqn:?
  | |- context [sc_work_raises ?sc] => destruct (sc_work_raises sc) eqn:?
  | |- context [match validate_outcome ?sc with _ => _ end] => destruct (validate_outcome sc) eqn:?
  | |- context [accepts ?sh ?n] => destruct (accepts sh n) eqn:?
  end; cbn [negb andb fst snd r_log r_success r_phase].

Lemma acquire_all_active fl o reqs : forall s k s' out,
  acquire_all fl s o k reqs = (s', out) -> active s' = active s.
Proof.
  induction reqs as [|r reqs IH]; intros s k s' out H; simpl in H.
  - inversion H; auto.
  - destruct (acquire fl s o r) as [s1 res] eqn:Ha.
    pose proof (acquire_active _ _ _ _ _ _ Ha) as A.
    destruct res as [lr| |]; try (inversion H; subst; auto; fail).
    destruct lr; try (inversion H; subst; auto; fail); rewrite (IH _ _ _ _ H); auto.
Qed.

(* the situation in which work_fn is invoked: everything was acquired, then the
   G1 checkpoint callback ran (it may have ended any operation), the checkpoint
   passed and the operation is still listed as active *)
Lemma work_entry fl w o reqs sc s1 s2 s3' l1 sw :
  acquire_all fl s1 o 0 reqs = (s2, AllAcquired) ->
  run_work fl w (upd_ctx s2 o c_set_racq) (cb_of sc 1) = (s3', l1) ->
  advance_at (phase_of (upd_ctx s2 o c_set_racq) o) s3' o (cp_of sc 1) = (sw, true) ->
  is_active sw o = true ->
  In o (active sw) /\ forall r, In r reqs -> owner sw r = Some o.
Proof.
  intros Ha Hw Hv Hact. apply is_active_In in Hact. split; auto.
  destruct (acquire_all_owns _ _ _ _ _ _ Ha) as (Own & _).
  destruct (advance_at_frame _ _ _ _ _ _ Hv) as (A & L & _).
  destruct (upd_ctx_frame s2 o c_set_racq) as (_ & L2 & _).
  pose proof (callback_keeps fl o w (nth 1 (sc_cpw sc) []) (upd_ctx s2 o c_set_racq)) as (_ & K).
  fold (cb_of sc 1) in K. rewrite Hw in K. simpl in K.
  intros r Hr. rewrite owner_def, L, <- owner_def. apply K.
  - now rewrite <- A.
  - rewrite owner_def, L2, <- owner_def. now apply Own.
Qed.

Lemma work_once_holding_all_proof fl w encl s o p reqs sc :
  let res := snd (exec_in true fl w sc encl s o p reqs) in
  (length (filter is_work (r_log res)) <= 1)%nat /\
  (forall sw, In (EvWork sw) (r_log res) ->
     In o (active sw) /\ forall r, In r reqs -> owner sw r = Some o).
Proof.
  cbv zeta. exec_unfold. exec_paths;
    repeat rewrite ?filter_app, ?app_length; cbn [filter is_work length app];
    rewrite ?inner_filter_work by assumption; cbn [length app]; (split; [lia|]);
    intros sw X;
    repeat (rewrite ?in_app_iff in X; cbn [In] in X);
    repeat match goal with
    | X : _ \/ _ |- _ => destruct X as [X|X]
    | X : False |- _ => destruct X
    | X : EvWork _ = EvWork _ |- _ => inversion X; subst; clear X
    | X : In (EvWork _) ?wl, F : Forall is_inner ?wl |- _ => destruct (inner_not_in _ _ F X)
    | X : _ = EvWork _ |- _ => discriminate X
    end.
  (* the remaining cases: work_fn was invoked in state [sw] *)
  all: eapply work_entry; eauto.
Qed.

Definition noval (e : ev) : Prop := is_validate e = false.

Definition val_after_ret (L : list ev) : Prop :=
  forall l1 e l2, L = l1 ++ e :: l2 -> is_validate e = true ->
    In EvWorkRet l1 /\ exists sw, In (EvWork sw) l1.

Lemma inner_noval wl : Forall is_inner wl -> Forall noval wl.
Proof. apply Forall_impl. intros e. destruct e; simpl; unfold noval; simpl; tauto. Qed.

Lemma var_noval L : Forall noval L -> val_after_ret L.
Proof.
  intros F l1 e l2 -> He. exfalso. rewrite Forall_forall in F.
  assert (X : noval e) by (apply F, in_or_app; simpl; auto). unfold noval in X. congruence.
Qed.

Lemma app_split_noval A : forall B l1 e l2,
  Forall noval A -> is_validate e = true -> A ++ B = l1 ++ e :: l2 ->
  exists B1, l1 = A ++ B1.
Proof.
  induction A as [|a A IH]; intros B l1 e l2 F He H.
  - exists l1. reflexivity.
  - inversion F as [|? ? Fa FA]; subst. destruct l1 as [|x l1].
    + simpl in H. inversion H; subst. unfold noval in Fa. congruence.
    + simpl in H. inversion H; subst. destruct (IH _ _ _ _ FA He H2) as (B1 & ->).
      exists B1. reflexivity.
Qed.

Lemma var_prefix A B :
  Forall noval A -> In EvWorkRet A -> (exists sw, In (EvWork sw) A) -> val_after_ret (A ++ B).
Proof.
  intros F R (sw & Wk) l1 e l2 H He.
  destruct (app_split_noval A B l1 e l2 F He H) as (B1 & ->).
  split; [|exists sw]; apply in_or_app; auto.
Qed.

Ltac solve_noval :=
  repeat rewrite Forall_app; repeat split;
  repeat (first [ apply Forall_nil | apply Forall_cons; [reflexivity|] ]);
  try (apply inner_noval; assumption).

Lemma validate_after_work_proof fl w encl s o p reqs sc :
  val_after_ret (r_log (snd (exec_in true fl w sc encl s o p reqs))).
Proof.
  exec_unfold. exec_paths;
  first
    [ apply var_noval; solve_noval; fail
    | apply var_prefix;
      [ solve [solve_noval]
      | repeat rewrite in_app_iff; simpl; tauto
      | eexists; repeat rewrite in_app_iff; simpl; eauto 10 ]
    | rewrite <- app_assoc; apply var_prefix;
      [ solve [solve_noval]
      | repeat rewrite in_app_iff; simpl; tauto
      | eexists; repeat rewrite in_app_iff; simpl; eauto 10 ] ].
Qed.

Lemma success_iff_both_proof fl w encl s o p reqs sc :
  let res := snd (exec_in true fl w sc encl s o p reqs) in
  r_success res = true <->
  (In EvWorkRet (r_log res) /\ validation_ok sc = true /\ In (EvCp 3 true) (r_log res)).
Proof.
  cbv zeta. unfold validation_ok. exec_unfold. exec_paths;
    repeat rewrite in_app_iff; cbn [In];
    (split;
     [ try discriminate; intros _;
       repeat match goal with H : validate_outcome _ = _ |- _ => rewrite H end; tauto
     | intros (Hq1 & Hq2 & Hq3);
       repeat match goal with H : validate_outcome _ = _ |- _ => rewrite H in * end;
       try reflexivity; try discriminate;
       repeat match goal with
       | X : _ \/ _ |- _ => destruct X as [X|X]
       | X : False |- _ => destruct X
       | X : In _ ?wl, F : Forall is_inner ?wl |- _ => destruct (inner_not_in _ _ F X)
       | X : _ = EvCp _ _ |- _ => discriminate X
       | X : _ = EvWorkRet |- _ => discriminate X
       end ]).
Qed.

(* ------------------------------------------------------------------ *)
(* kill / complete / abort / watchdog / shutdown; reachable states       *)

Definition ends_op (a : fop) (o : Z) : Prop := a = FKill o \/ a = FAbort o \/ a = FComplete o.

Lemma end_no_leak_proof w s a o :
  WF s -> ends_op a o ->
  let s' := fst (fstep current w s a) in
  WF s' /\ owns_nothing s' o /\ ~ In o (active s').
Proof.
  intros W E. cbv zeta. split; [now apply fstep_wf|].
  destruct E as [->|[->| ->]]; cbn [fstep];
    (destruct (is_active s o) eqn:Ea; simpl;
     [ destruct (finish_spec s o W) as (_ & N & _); split; [exact N | apply finish_not_active]
     | assert (Na : ~ In o (active s)) by (now apply memz_false);
       split; [now apply wf_inactive_owns_nothing | exact Na] ]).
Qed.

Lemma watchdog_no_leak_proof w s :
  WF s ->
  let s' := fst (wd_execute current w s) in
  let evs := snd (wd_execute current w s) in
  WF s' /\ forall v why, In (v, why) evs -> owns_nothing s' v /\ ~ In v (active s').
Proof.
  intros W. pose proof (wd_execute_spec w s W) as X.
  destruct (wd_execute current w s) as [s' evs]. simpl.
  destruct X as (W' & _ & _ & N). split; auto.
  intros v why Hin. assert (Hv : In v (map fst evs)).
  { change v with (fst (v, why)). now apply in_map. }
  destruct (N v Hv). auto.
Qed.

Lemma shutdown_no_leak_proof s :
  WF s ->
  let s' := shutdown current s in
  WF s' /\ active s' = [] /\ forall r, owner s' r = None.
Proof. intros W. destruct (shutdown_spec s W) as (A & B & C & _). auto. Qed.

Lemma step_wf w s a : WF s -> WF (fst (step current w s a)).
Proof.
  intros W. destruct a as [f|o p reqs sc]; cbn [step].
  - pose proof (fstep_wf w s f W) as X. destruct (fstep current w s f). exact X.
  - destruct (is_active s o) eqn:E; [exact W|].
    apply memz_false in E.
    destruct (no_leak_proof w s o p reqs sc W E) as (_ & _ & X).
    destruct (exec_op current w s o p reqs sc). exact X.
Qed.

Lemma run_ops_wf w ops : forall s, WF s -> WF (fst (run_ops current w s ops)).
Proof.
  induction ops as [|a ops IH]; intros s W; simpl; auto.
  pose proof (step_wf w s a W) as W1. destruct (step current w s a) as [s1 o1]. simpl in W1.
  specialize (IH s1 W1). destruct (run_ops current w s1 ops). exact IH.
Qed.

Lemma reachable_wf_proof res w ops : WF (fst (run_ops current w (init_state res) ops)).
Proof. apply run_ops_wf, wf_init. Qed.

(* ------------------------------------------------------------------ *)
(* ending an operation touches only the locks it owns at that moment     *)

Lemma end_own_locks_proof w s a o :
  WF s -> ends_op a o ->
  forall r, owner s r <> Some o -> get_lock (fst (fstep current w s a)) r = get_lock s r.
Proof.
  intros W E r N.
  destruct E as [->|[->| ->]]; cbn [fstep];
    (destruct (is_active s o); simpl; auto;
     destruct (finish_spec s o W) as (_ & _ & _ & _ & L & _); now apply L).
Qed.

Lemma abort_fold_frame (L : list Z) : forall s r,
  WF s -> (forall v, In v L -> owner s r <> Some v) ->
  get_lock (fold_left (abort_if_active current) L s) r = get_lock s r.
Proof.
  induction L as [|o L IH]; intros s r W N; simpl; auto.
  destruct (abort_if_active_spec s o W) as (W1 & _).
  assert (E1 : get_lock (abort_if_active current s o) r = get_lock s r).
  { unfold abort_if_active. destruct (is_active s o); auto.
    destruct (finish_spec s o W) as (_ & _ & _ & _ & Lk & _). apply Lk. apply N. simpl. auto. }
  rewrite IH; auto. intros v Hv. rewrite owner_def, E1, <- owner_def. apply N. simpl. auto.
Qed.

Lemma watchdog_own_locks_proof w s :
  WF s ->
  forall r, (forall v why, In (v, why) (snd (wd_execute current w s)) -> owner s r <> Some v) ->
  get_lock (fst (wd_execute current w s)) r = get_lock s r.
Proof.
  intros W r N. unfold wd_execute in *. simpl in *. rewrite fold_abort_events.
  apply abort_fold_frame; auto. intros v Hv. apply in_map_iff in Hv as ([v0 why] & <- & Hin).
  eapply N; eauto.
Qed.

(* execute_operation ends by complete/abort of a state [sX] that is well-formed up to
   the operation itself (which may have been delisted by a callback and still
   hold locks); only locks owned by the operation in [sX] change *)
Lemma exec_end_own_locks_proof w s o p reqs sc :
  WF s -> ~ In o (active s) ->
  exists sX, WFbut o sX /\ fst (exec_op current w s o p reqs sc) = finish current sX o /\
    forall r, owner sX r <> Some o -> get_lock (fst (exec_op current w s o p reqs sc)) r = get_lock sX r.
Proof.
  intros W F. destruct (exec_op_ends_wfbut w s o p reqs sc W F) as (sX & WX & E).
  exists sX. split; auto. split; auto. rewrite E.
  intros r N. eapply finish_lock_frame_but; eauto.
Qed.

(* ------------------------------------------------------------------ *)
(* termination from inside a checkpoint callback                         *)

(* If the operation is no longer listed as active when the G1 checkpoint has
   been evaluated (it was killed / reaped / shut down while the G0 or G1
   checkpoint callback ran), work_fn is not invoked and failure is reported. *)
Lemma terminated_before_work_proof fl w encl s o p reqs sc :
  let res := snd (exec_in true fl w sc encl s o p reqs) in
  (forall sw, In (EvWork sw) (r_log res) -> In o (active sw)) /\
  (r_success res = true -> exists sw, In (EvWork sw) (r_log res)).
Proof.
  cbv zeta. split.
  - intros sw X. now apply (work_once_holding_all_proof fl w encl s o p reqs sc).
  - intros X. apply success_iff_both_proof in X as (X & _).
    pose proof (validate_after_work_proof fl w encl s o p reqs sc) as V. revert X V.
    exec_unfold. exec_paths; repeat rewrite in_app_iff; cbn [In]; intros X V;
      try (eexists; repeat rewrite in_app_iff; cbn [In]; eauto 12; fail);
      exfalso;
      repeat match goal with
      | X : _ \/ _ |- _ => destruct X as [X|X]
      | X : False |- _ => destruct X
      | X : In _ ?wl, F : Forall is_inner ?wl |- _ => destruct (inner_not_in _ _ F X)
      | X : _ = EvWorkRet |- _ => discriminate X
      end.
Qed.

(* ------------------------------------------------------------------ *)
(* run_maintenance = check_and_boost; watchdog.execute                  *)

Lemma pi_waiters_boosted g keys : forall s s' nb o p,
  pi_waiters g keys s = Some (s', nb) -> In (o, p) nb -> In o (active s).
Proof.
  induction keys as [|k keys IH]; intros s s' nb o p; cbn [pi_waiters].
  - intros H. inversion H; subst. intros [].
  - destruct (live_ctx s k) as [c|]; [|apply IH].
    destruct (pi_tail g k) as [ch|]; [|discriminate].
    pose proof (pi_chain_po ch s (c_prio c)) as P.
    pose proof (pi_chain_boosted ch s (c_prio c) o p) as Q.
    destruct (pi_chain s (c_prio c) ch) as [s1 nb1]. cbn [fst snd] in *.
    destruct (pi_waiters g keys s1) as [[s2 nb2]|] eqn:R; [|discriminate].
    intros H. inversion H; subst. intros X. apply in_app_or in X as [X|X]; auto.
    rewrite <- (po_act _ _ P). eapply IH; eauto.
Qed.

(* the priority-inheritance half touches no lock, ends nobody and boosts active
   operations only; the watchdog half is Watchdog.execute on that state *)
Lemma maintenance_no_leak_proof w s s1 nb :
  WF s -> pi_boost s = Some (s1, nb) ->
  (forall r, get_lock s1 r = get_lock s r) /\ active s1 = active s /\ edges s1 = edges s /\
  (forall o p, In (o, p) nb -> In o (active s)) /\
  let s' := fst (wd_execute current w s1) in
  let evs := snd (wd_execute current w s1) in
  WF s' /\ forall v why, In (v, why) evs -> owns_nothing s' v /\ ~ In v (active s').
Proof.
  intros W B. pose proof (pi_boost_po _ _ _ B) as P.
  split. { intros r. now apply prio_only_lock. }
  split. { apply (po_act _ _ P). }
  split. { apply (po_edges _ _ P). }
  split. { intros o p. eapply pi_waiters_boosted; eauto. }
  apply watchdog_no_leak_proof. eapply prio_only_wf; eauto.
Qed.

Lemma maintenance_own_locks_proof w s s1 nb :
  WF s -> pi_boost s = Some (s1, nb) ->
  forall r, (forall v why, In (v, why) (snd (wd_execute current w s1)) -> owner s r <> Some v) ->
  get_lock (fst (wd_execute current w s1)) r = get_lock s r.
Proof.
  intros W B r N. pose proof (pi_boost_po _ _ _ B) as P.
  rewrite <- (prio_only_lock _ _ r P). apply watchdog_own_locks_proof.
  - eapply prio_only_wf; eauto.
  - intros v why H. rewrite (prio_only_owner _ _ r P). eauto.
Qed.

(* ------------------------------------------------------------------ *)
(* the objects the callbacks use (which exception is raised, which falsy
   verdict is returned, what work_fn returns: [sc_val]) decide nothing:
   the whole outcome of execute_operation - state, success, phase reached,
   callback log - is the same for every choice, at every nesting depth *)

Definition with_val_w (k : Z) (a : wact) : wact :=
  match a with
  | WExec o p reqs sc' => WExec o p reqs (with_val k sc')
  | _ => a
  end.

Lemma with_val_eq k sc :
  with_val k sc = mkScript (sc_cp sc) (sc_cpw sc) (map (with_val_w k) (sc_work sc)) (sc_work_raises sc) (sc_validate sc) k
                           (sc_wsh sc) (sc_vsh sc).
Proof. destruct sc; reflexivity. Qed.

Lemma exec_validate_ext fl w s o sc sc' log :
  sc_cp sc = sc_cp sc' -> sc_cpw sc = sc_cpw sc' -> validate_outcome sc = validate_outcome sc' ->
  exec_validate fl w s o sc log = exec_validate fl w s o sc' log.
Proof. intros H1 H2 H3. unfold exec_validate, cb_of, cp_of. now rewrite H1, H2, H3. Qed.

Lemma exec_after_work_ext fl w s o sc sc' log :
  sc_cp sc = sc_cp sc' -> sc_cpw sc = sc_cpw sc' -> validate_outcome sc = validate_outcome sc' ->
  exec_after_work fl w s o sc log = exec_after_work fl w s o sc' log.
Proof.
  intros H1 H2 H3. unfold exec_after_work, cb_of, cp_of. rewrite H1, H2.
  destruct (run_work_with no_nested [] fl w (upd_ctx s o c_set_exec) _) as [s6' l2].
  destruct (advance_at _ s6' o _) as [s7 b2].
  destruct (negb b2); [reflexivity|]. now apply exec_validate_ext.
Qed.

Lemma exec_body_ext chk fl w (rw rw' : runner) s o p reqs sc sc' :
  sc_cp sc = sc_cp sc' -> sc_cpw sc = sc_cpw sc' ->
  sc_work_raises sc = sc_work_raises sc' -> validate_outcome sc = validate_outcome sc' ->
  accepts (sc_wsh sc) 0 = accepts (sc_wsh sc') 0 ->
  (forall s0, rw s0 (sc_work sc) = rw' s0 (sc_work sc')) ->
  exec_body chk fl w rw s o p reqs sc = exec_body chk fl w rw' s o p reqs sc'.
Proof.
  intros H1 H2 H3 H4 H6 H5.
  unfold exec_body, exec_begin, exec_acquired, exec_work, cb_of, cp_of. rewrite H1, H2, H3, H6.
  destruct (run_work_with no_nested [] fl w (start_op s o p false) _) as [s0' l0].
  destruct (advance_at G0 s0' o _) as [s1 b0].
  destruct (acquire_all fl s1 o 0 reqs) as [s2 out].
  destruct out; [|reflexivity|reflexivity].
  destruct (run_work_with no_nested [] fl w (upd_ctx s2 o c_set_racq) _) as [s3' l1].
  destruct (advance_at _ s3' o _) as [s4 b1].
  destruct (negb b1); [reflexivity|].
  destruct (chk && negb (is_active s4 o)); [reflexivity|].
  destruct (negb (accepts (sc_wsh sc') 0)); [reflexivity|].
  rewrite H5. destruct (rw' s4 (sc_work sc')) as [s5 wl].
  destruct (sc_work_raises sc'); [reflexivity|]. now apply exec_after_work_ext.
Qed.

Lemma run_work_with_val nested encl fl w k : forall acts s,
  (forall o p reqs sc', In (WExec o p reqs sc') acts ->
     forall s', nested s' o p reqs (with_val k sc') = nested s' o p reqs sc') ->
  run_work_with nested encl fl w s (map (with_val_w k) acts) = run_work_with nested encl fl w s acts.
Proof.
  induction acts as [|a acts IH]; intros s H; [reflexivity|].
  assert (IH' : forall s, run_work_with nested encl fl w s (map (with_val_w k) acts)
                          = run_work_with nested encl fl w s acts).
  { intros s'. apply IH. intros; apply H; now right. }
  destruct a as [|f|o p reqs sc']; cbn [map with_val_w run_work_with].
  - now rewrite IH'.
  - destruct (fstep fl w s f) as [s1 ret]. now rewrite IH'.
  - destruct (is_active s o || memz o encl).
    + now rewrite IH'.
    + rewrite (H o p reqs sc' (or_introl eq_refl)). destruct (nested s o p reqs sc') as [s1 r]. now rewrite IH'.
Qed.

Lemma exec_in_with_val chk fl w k : forall n sc, (script_size sc < n)%nat -> forall encl s o p reqs,
  exec_in chk fl w (with_val k sc) encl s o p reqs = exec_in chk fl w sc encl s o p reqs.
Proof.
  induction n as [|n IHn]; intros sc Hn encl s o p reqs; [lia|].
  rewrite !exec_in_eq. rewrite with_val_eq.
  apply exec_body_ext; try reflexivity.
  intros s0. cbn [sc_work]. unfold run_work_x. apply run_work_with_val.
  intros o' p' reqs' sc' Hi s'. apply IHn. apply script_size_in in Hi. lia.
Qed.

Lemma values_irrelevant_proof chk fl w sc sc' encl s o p reqs :
  with_val 0 sc = with_val 0 sc' ->
  exec_in chk fl w sc encl s o p reqs = exec_in chk fl w sc' encl s o p reqs.
Proof.
  intros E.
  rewrite <- (exec_in_with_val chk fl w 0 (S (script_size sc)) sc (Nat.lt_succ_diag_r _)).
  rewrite <- (exec_in_with_val chk fl w 0 (S (script_size sc')) sc' (Nat.lt_succ_diag_r _)).
  now rewrite E.
Qed.

(* ------------------------------------------------------------------ *)
(* how often the bodies of the caller's callables run                   *)

Lemma inner_filter_validate wl : Forall is_inner wl -> filter is_validate wl = [].
Proof.
  induction 1 as [|e l He _ IH]; simpl; auto. destruct e; simpl in *; tauto.
Qed.

Ltac count_runs :=
  unfold work_runs, validate_runs; cbn [r_log r_success];
  repeat rewrite ?filter_app, ?app_length; cbn [filter is_work is_validate length app];
  rewrite ?inner_filter_work by assumption; rewrite ?inner_filter_validate by assumption;
  cbn [length app Nat.add].

Lemma has_validator_outcome sc : has_validator sc = true -> validate_outcome sc <> ONone.
Proof.
  unfold has_validator, validate_outcome.
  destruct (sc_validate sc); try discriminate; intros _; destruct (accepts (sc_vsh sc) 1); discriminate.
Qed.

(* the body of work_fn runs at most once, the body of validate_fn at most once and only
   if that of work_fn ran; success needs the one run of work_fn and, when a validator was
   handed in, its one run *)
Lemma run_counts_proof fl w encl s o p reqs sc :
  let res := snd (exec_in true fl w sc encl s o p reqs) in
  (work_runs res <= 1)%nat /\ (validate_runs res <= 1)%nat /\
  (validate_runs res = 1%nat -> work_runs res = 1%nat) /\
  (r_success res = true ->
     work_runs res = 1%nat /\ (has_validator sc = true -> validate_runs res = 1%nat)).
Proof.
  cbv zeta. pose proof (has_validator_outcome sc) as HV. revert HV. generalize (has_validator sc). intros hv HV.
  exec_unfold. exec_paths; count_runs;
    (split; [auto|]); (split; [auto|]); (split; [intros X; first [reflexivity | discriminate X]|]);
    intros X; first [discriminate X | split; [reflexivity|]; intros Y; first [reflexivity | now destruct (HV Y)]].
Qed.

(* a callable whose signature does not accept the call execute_operation makes never runs,
   and the operation fails (TypeError from the call itself: an exit path like any other) *)
Lemma uncallable_work_proof fl w encl s o p reqs sc :
  accepts (sc_wsh sc) 0 = false ->
  let res := snd (exec_in true fl w sc encl s o p reqs) in
  work_runs res = 0%nat /\ validate_runs res = 0%nat /\ r_success res = false.
Proof.
  intros A. cbv zeta. exec_unfold. rewrite A. exec_paths; count_runs; auto.
Qed.

Lemma uncallable_validator_outcome sc :
  has_validator sc = true -> accepts (sc_vsh sc) 1 = false -> validate_outcome sc = OUncallable.
Proof.
  unfold has_validator, validate_outcome. intros H A. rewrite A. destruct (sc_validate sc); auto; discriminate.
Qed.

Lemma uncallable_validator_proof fl w encl s o p reqs sc :
  has_validator sc = true -> accepts (sc_vsh sc) 1 = false ->
  let res := snd (exec_in true fl w sc encl s o p reqs) in
  validate_runs res = 0%nat /\ r_success res = false.
Proof.
  intros H A. pose proof (uncallable_validator_outcome sc H A) as E. cbv zeta. clear H A.
  exec_unfold. rewrite E. exec_paths; count_runs; auto.
Qed.

(* ------------------------------------------------------------------ *)
(* signatures decide nothing beyond whether they accept the call that is made *)

Definition norm_sig_w (a : wact) : wact :=
  match a with
  | WExec o p reqs sc' => WExec o p reqs (norm_sig sc')
  | _ => a
  end.

Lemma norm_sig_eq sc :
  norm_sig sc = mkScript (sc_cp sc) (sc_cpw sc) (map norm_sig_w (sc_work sc)) (sc_work_raises sc) (sc_validate sc)
                         (sc_val sc) (canon 0 (sc_wsh sc)) (canon 1 (sc_vsh sc)).
Proof. destruct sc; reflexivity. Qed.

Lemma accepts_canon n sh : accepts (canon n sh) n = accepts sh n.
Proof.
  unfold canon. destruct (accepts sh n) eqn:E; unfold accepts; cbn [sh_lo sh_hi].
  - now rewrite Nat.leb_refl.
  - assert (X : Nat.leb (S n) n = false) by (apply Nat.leb_gt; lia). now rewrite X.
Qed.

Lemma run_work_norm_sig nested encl fl w : forall acts s,
  (forall o p reqs sc', In (WExec o p reqs sc') acts ->
     forall s', nested s' o p reqs (norm_sig sc') = nested s' o p reqs sc') ->
  run_work_with nested encl fl w s (map norm_sig_w acts) = run_work_with nested encl fl w s acts.
Proof.
  induction acts as [|a acts IH]; intros s H; [reflexivity|].
  assert (IH' : forall s, run_work_with nested encl fl w s (map norm_sig_w acts)
                          = run_work_with nested encl fl w s acts).
  { intros s'. apply IH. intros; apply H; now right. }
  destruct a as [|f|o p reqs sc']; cbn [map norm_sig_w run_work_with].
  - now rewrite IH'.
  - destruct (fstep fl w s f) as [s1 ret]. now rewrite IH'.
  - destruct (is_active s o || memz o encl).
    + now rewrite IH'.
    + rewrite (H o p reqs sc' (or_introl eq_refl)). destruct (nested s o p reqs sc') as [s1 r]. now rewrite IH'.
Qed.

Lemma exec_in_norm_sig chk fl w : forall n sc, (script_size sc < n)%nat -> forall encl s o p reqs,
  exec_in chk fl w (norm_sig sc) encl s o p reqs = exec_in chk fl w sc encl s o p reqs.
Proof.
  induction n as [|n IHn]; intros sc Hn encl s o p reqs; [lia|].
  rewrite !exec_in_eq. rewrite norm_sig_eq.
  apply exec_body_ext; try reflexivity.
  - unfold validate_outcome. cbn [sc_validate sc_vsh]. now rewrite accepts_canon.
  - cbn [sc_wsh]. apply accepts_canon.
  - intros s0. cbn [sc_work]. unfold run_work_x. apply run_work_norm_sig.
    intros o' p' reqs' sc' Hi s'. apply IHn. apply script_size_in in Hi. lia.
Qed.

Lemma signatures_irrelevant_proof chk fl w sc sc' encl s o p reqs :
  norm_sig sc = norm_sig sc' ->
  exec_in chk fl w sc encl s o p reqs = exec_in chk fl w sc' encl s o p reqs.
Proof.
  intros E.
  rewrite <- (exec_in_norm_sig chk fl w (S (script_size sc)) sc (Nat.lt_succ_diag_r _)).
  rewrite <- (exec_in_norm_sig chk fl w (S (script_size sc')) sc' (Nat.lt_succ_diag_r _)).
  now rewrite E.
Qed.
