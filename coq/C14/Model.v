(* C14 — model of operon_ai/coordination: ResourceLock, DependencyGraph,
   CellCycleController, Watchdog and CoordinationSystem.execute_operation /
   kill_operation / shutdown, as the code is at /repo HEAD.
   Executable definitions only (no proofs), so the model still runs when a
   proof breaks.  C15 reuses this file.

   Conventions
   * operation ids and resource ids are integers; Python dicts are association
     lists in insertion order ([aget]/[aset]/[adel]);
   * every OperationContext ever created lives in the store [ctxs] under its
     operation id.  start_operation through the step API takes a fresh id; an
     execute_operation may RE-USE the id of an operation that has ended (a
     retry): the new context replaces the old one in the store, which nothing
     refers to any more.  While an id is live, id <-> context object;
     [active] is the key list of controller.active_operations.  A context that
     was removed from [active] is still reachable through the store, exactly as
     the local variable [ctx] of execute_operation keeps the Python object alive;
   * the clock is the field [now]; it moves only by an explicit [FTick];
   * a work function may call execute_operation itself ([WExec], to any depth):
     [exec_in] is structurally recursive in the script; the nested call is made
     only under an id that is neither live nor that of an enclosing call;
   * the callables the caller hands in are known by their SIGNATURE ([shape]: the
     range of positional-argument counts they accept, and their truth value as
     objects): execute_operation calls work_fn() and validate_fn(result); a
     signature that does not accept that call makes the call itself raise
     TypeError without running the body ([exec_work], [validate_outcome]);
     [work_runs] / [validate_runs] count how often each body ran;
   * the [flags] argument switches back to the behaviour before the three
     `fix:` commits 8bfbd27 / e0df91f / b431062 (documentation and refutation
     only); [current] is the code as it is. *)
From Coq Require Import ZArith List Bool.
Import ListNotations.
Open Scope Z_scope.

(* ------------------------------------------------------------------ *)
(* dictionaries                                                         *)

Section Assoc.
Context {A : Type}.
Fixpoint aget (m : list (Z * A)) (k : Z) : option A :=
  match m with
  | [] => None
  | (k', v) :: m' => if Z.eqb k' k then Some v else aget m' k
  end.
(* d[k] = v : in place when present, appended otherwise *)
Fixpoint aset (m : list (Z * A)) (k : Z) (v : A) : list (Z * A) :=
  match m with
  | [] => [(k, v)]
  | (k', v') :: m' => if Z.eqb k' k then (k, v) :: m' else (k', v') :: aset m' k v
  end.
Definition adel (m : list (Z * A)) (k : Z) : list (Z * A) :=
  filter (fun kv => negb (Z.eqb (fst kv) k)) m.
End Assoc.

Definition memz (x : Z) (l : list Z) : bool := existsb (Z.eqb x) l.
Definition remz (x : Z) (l : list Z) : list Z := filter (fun y => negb (Z.eqb y x)) l.
Definition oeqb (a : option Z) (x : Z) : bool :=
  match a with Some y => Z.eqb y x | None => false end.

(* ------------------------------------------------------------------ *)
(* types.py: ResourceLock                                               *)

Record lock := mkLock {
  l_owner : option Z; l_prio : Z; l_hold : Z; l_preempt : bool;
  l_wait : list (Z * Z) }.            (* waiting_list: (owner, priority), priority desc *)

Inductive lres := LAcquired | LBlocked | LReentrant | LPreempted.

(* list.sort(key=priority, reverse=True) is stable: insertion from the right *)
Fixpoint ins_desc (x : Z * Z) (l : list (Z * Z)) : list (Z * Z) :=
  match l with
  | [] => [x]
  | y :: l' => if Z.gtb (snd y) (snd x) then y :: ins_desc x l' else x :: y :: l'
  end.
Definition sort_desc (l : list (Z * Z)) : list (Z * Z) := fold_right ins_desc [] l.

Definition add_waiting (wl : list (Z * Z)) (o p : Z) : list (Z * Z) :=
  sort_desc (filter (fun x => negb (Z.eqb (fst x) o)) wl ++ [(o, p)]).

Definition try_acquire (l : lock) (o p : Z) : lock * lres :=
  if oeqb (l_owner l) o then
    (mkLock (l_owner l) (l_prio l) (l_hold l + 1) (l_preempt l) (l_wait l), LReentrant)
  else match l_owner l with
  | None => (mkLock (Some o) p 1 (l_preempt l) (l_wait l), LAcquired)
  | Some old =>
      if l_preempt l && Z.gtb p (l_prio l) then
        (mkLock (Some o) p 1 (l_preempt l) (add_waiting (l_wait l) old (l_prio l)), LPreempted)
      else
        (mkLock (l_owner l) (l_prio l) (l_hold l) (l_preempt l) (add_waiting (l_wait l) o p), LBlocked)
  end.

(* ResourceLock.release(owner) -> (lock, returned bool) *)
Definition lock_release (l : lock) (o : Z) : lock * bool :=
  if oeqb (l_owner l) o then
    if Z.leb (l_hold l - 1) 0 then (mkLock None 0 0 (l_preempt l) (l_wait l), true)
    else (mkLock (l_owner l) (l_prio l) (l_hold l - 1) (l_preempt l) (l_wait l), true)
  else (l, false).

(* while lock.owner == op and lock.hold_count > 1: lock.release(op)
   — the loop of release_all_resources; fuel = hold_count is enough *)
Fixpoint drop_reentrant (fuel : nat) (o : Z) (l : lock) : lock :=
  match fuel with
  | O => l
  | S f => if oeqb (l_owner l) o && Z.gtb (l_hold l) 1
           then drop_reentrant f o (fst (lock_release l o)) else l
  end.

(* ------------------------------------------------------------------ *)
(* types.py: DependencyGraph.  edges: waiter -> [(blocking, resource)]  *)

Definition graph := list (Z * list (Z * Z)).

Definition pair_eqb (a b : Z * Z) : bool := Z.eqb (fst a) (fst b) && Z.eqb (snd a) (snd b).
Definition mem2 (x : Z * Z) (l : list (Z * Z)) : bool := existsb (pair_eqb x) l.
Definition nonempty (kv : Z * list (Z * Z)) : bool :=
  match snd kv with [] => false | _ => true end.

Definition add_dependency (g : graph) (w b r : Z) : graph :=
  match aget g w with
  | None => g ++ [(w, [(b, r)])]
  | Some l => if mem2 (b, r) l then g else aset g w (l ++ [(b, r)])
  end.

Definition remove_wait (g : graph) (w r : Z) : graph :=
  match aget g w with
  | None => g
  | Some l =>
      let l' := filter (fun e => negb (Z.eqb (snd e) r)) l in
      match l' with [] => adel g w | _ => aset g w l' end
  end.

(* retarget_resource(resource, owner) *)
Definition retarget (g : graph) (r : Z) (owner : option Z) : graph :=
  filter nonempty
    (map (fun kv : Z * list (Z * Z) =>
            (fst kv,
             match owner with
             | Some o => map (fun e : Z * Z => if Z.eqb (snd e) r then (o, snd e) else e) (snd kv)
             | None => filter (fun e : Z * Z => negb (Z.eqb (snd e) r)) (snd kv)
             end)) g).

Definition remove_all_for_agent (g : graph) (a : Z) : graph :=
  filter nonempty
    (map (fun kv : Z * list (Z * Z) =>
            (fst kv, filter (fun e : Z * Z => negb (Z.eqb (fst e) a)) (snd kv)))
         (adel g a)).

Definition succs (g : graph) (n : Z) : list (Z * Z) :=
  match aget g n with Some l => l | None => [] end.

(* detect_cycle: the recursive DFS.  rec_stack is always the set of the
   elements of path, so membership in [path] stands for both. *)
Inductive dres := DFound (cycle : list Z) | DNone (visited : list Z) | DOutOfFuel.

Fixpoint from_first (b : Z) (path : list Z) : list Z :=    (* path[path.index(b):] *)
  match path with
  | [] => []
  | x :: p => if Z.eqb x b then path else from_first b p
  end.

Fixpoint dfs_loop (rec : Z -> list Z -> dres) (path1 : list Z)
         (es : list (Z * Z)) (vis : list Z) : dres :=
  match es with
  | [] => DNone vis
  | (b, _) :: es' =>
      if negb (memz b vis) then
        match rec b vis with
        | DNone vis' => dfs_loop rec path1 es' vis'
        | other => other
        end
      else if memz b path1 then DFound (from_first b path1)
      else dfs_loop rec path1 es' vis
  end.

Fixpoint dfs (fuel : nat) (g : graph) (node : Z) (vis path : list Z) : dres :=
  match fuel with
  | O => DOutOfFuel
  | S f =>
      let path1 := path ++ [node] in
      dfs_loop (fun b v => dfs f g b v path1) path1 (succs g node) (node :: vis)
  end.

Fixpoint dfs_top (fuel : nat) (g : graph) (keys : list Z) (vis : list Z) : dres :=
  match keys with
  | [] => DNone vis
  | k :: ks =>
      if memz k vis then dfs_top fuel g ks vis
      else match dfs fuel g k vis [] with
           | DNone vis' => dfs_top fuel g ks vis'
           | other => other
           end
  end.

Definition graph_nodes (g : graph) : list Z :=
  map fst g ++ flat_map (fun kv : Z * list (Z * Z) => map fst (snd kv)) g.

Definition detect (g : graph) : dres :=
  dfs_top (S (length (graph_nodes g))) g (map fst g) [].

Definition detect_cycle (g : graph) : option (list Z) :=
  match detect g with DFound c => Some c | _ => None end.

(* DeadlockInfo.resources: per member the resource of its first edge to the next member *)
Fixpoint first_to (n : Z) (es : list (Z * Z)) : option Z :=
  match es with
  | [] => None
  | (b, r) :: es' => if Z.eqb b n then Some r else first_to n es'
  end.
Definition cycle_resources (g : graph) (c : list Z) : list Z :=
  flat_map (fun i => match first_to (nth (Nat.modulo (S i) (length c)) c 0) (succs g (nth i c 0)) with
                     | Some r => [r] | None => [] end) (seq 0 (length c)).

(* ------------------------------------------------------------------ *)
(* controller.py                                                        *)

Inductive phase := G0 | G1 | PS | G2 | PM.
Definition next_phase (p : phase) : phase :=
  match p with G0 => G1 | G1 => PS | PS => G2 | G2 => PM | PM => G0 end.

Record ctx := mkCtx {
  c_prio : Z; c_phase : phase; c_phase_at : Z;
  c_acq : list Z;                       (* keys of acquired_resources *)
  c_racq : bool; c_exec : bool; c_valid : bool;
  c_created : Z; c_exempt : bool }.

Record st := mkSt {
  resources : list (Z * lock);
  ctxs : list (Z * ctx);
  active : list Z;
  edges : graph;
  now : Z }.

Definition set_resources s x := mkSt x (ctxs s) (active s) (edges s) (now s).
Definition set_ctxs s x := mkSt (resources s) x (active s) (edges s) (now s).
Definition set_active s x := mkSt (resources s) (ctxs s) x (edges s) (now s).
Definition set_edges s x := mkSt (resources s) (ctxs s) (active s) x (now s).
Definition set_now s x := mkSt (resources s) (ctxs s) (active s) (edges s) x.

Definition get_lock (s : st) (r : Z) : option lock := aget (resources s) r.
Definition put_lock (s : st) (r : Z) (l : lock) : st := set_resources s (aset (resources s) r l).
Definition get_ctx (s : st) (o : Z) : option ctx := aget (ctxs s) o.
Definition put_ctx (s : st) (o : Z) (c : ctx) : st := set_ctxs s (aset (ctxs s) o c).
Definition is_active (s : st) (o : Z) : bool := memz o (active s).
Definition owner (s : st) (r : Z) : option Z :=
  match get_lock s r with Some l => l_owner l | None => None end.

Definition c_set_acq c x :=
  mkCtx (c_prio c) (c_phase c) (c_phase_at c) x (c_racq c) (c_exec c) (c_valid c) (c_created c) (c_exempt c).
Definition c_set_phase c p t :=
  mkCtx (c_prio c) p t (c_acq c) (c_racq c) (c_exec c) (c_valid c) (c_created c) (c_exempt c).
Definition c_set_racq c :=
  mkCtx (c_prio c) (c_phase c) (c_phase_at c) (c_acq c) true (c_exec c) (c_valid c) (c_created c) (c_exempt c).
Definition c_set_exec c :=
  mkCtx (c_prio c) (c_phase c) (c_phase_at c) (c_acq c) (c_racq c) true (c_valid c) (c_created c) (c_exempt c).
Definition c_set_valid c :=
  mkCtx (c_prio c) (c_phase c) (c_phase_at c) (c_acq c) (c_racq c) (c_exec c) true (c_created c) (c_exempt c).

(* start_operation (the id is fresh: guarded by the callers below) *)
Definition start_op (s : st) (o p : Z) (exempt : bool) : st :=
  let c := mkCtx p G0 (now s) [] false false false (now s) exempt in
  set_active (put_ctx s o c) (if memz o (active s) then active s else active s ++ [o]).

(* the default checkpoint conditions of CellCycleController.__post_init__ *)
Definition default_cond (c : ctx) : bool :=
  match c_phase c with
  | G0 => true | G1 => c_racq c | PS => c_exec c | G2 => c_valid c | PM => true
  end.

(* behaviour of the checkpoint condition at one evaluation: the default
   condition, or an injected `return False` / `raise` (evaluate() maps both to FAILED) *)
Inductive cpo := CpDefault | CpFalse | CpRaise.

(* advance(ctx) with one checkpoint per phase -> PASSED? *)
Definition advance (s : st) (o : Z) (out : cpo) : st * bool :=
  match get_ctx s o with
  | None => (s, false)
  | Some c =>
      let ok := match out with CpDefault => default_cond c | _ => false end in
      if ok then (put_ctx s o (c_set_phase c (next_phase (c_phase c)) (now s)), true)
      else (s, false)
  end.

(* advance(ctx) when the checkpoint condition is a callback that may itself call
   the controller: `current_phase = ctx.phase` is read BEFORE the condition runs
   ([ph]); the condition's verdict is computed on the context as the callback
   left it; the phase entered is the successor of [ph] even if the callback
   aborted the operation (which resets ctx.phase to G0). *)
Definition cond_at (ph : phase) (c : ctx) : bool :=
  match ph with
  | G0 => true | G1 => c_racq c | PS => c_exec c | G2 => c_valid c | PM => true
  end.

Definition advance_at (ph : phase) (s : st) (o : Z) (out : cpo) : st * bool :=
  match get_ctx s o with
  | None => (s, false)
  | Some c =>
      let ok := match out with CpDefault => cond_at ph c | _ => false end in
      if ok then (put_ctx s o (c_set_phase c (next_phase ph) (now s)), true)
      else (s, false)
  end.

(* pre-repair behaviours, for documentation/refutation only *)
Record flags := mkF {
  f_reentrant : bool;   (* before 8bfbd27: release_all releases each id once *)
  f_graph : bool;       (* before e0df91f: acquire/release drop every edge mentioning the operation *)
  f_forget : bool }.    (* before b431062: any successful release forgets the resource id *)
Definition current : flags := mkF false false false.

Inductive ares := AOk (r : lres) | AUnknown | ANoCtx.

Definition add_acq (c : ctx) (r : Z) : ctx :=
  c_set_acq c (if memz r (c_acq c) then c_acq c else c_acq c ++ [r]).

(* acquire_resource(ctx, r); AUnknown is the ValueError for an unregistered id *)
Definition acquire (fl : flags) (s : st) (o r : Z) : st * ares :=
  match get_ctx s o with
  | None => (s, ANoCtx)
  | Some c =>
      match get_lock s r with
      | None => (s, AUnknown)
      | Some l =>
          let '(l', res) := try_acquire l o (c_prio c) in
          let s1 := put_lock s r l' in
          match res with
          | LAcquired | LReentrant =>
              let s2 := put_ctx s1 o (add_acq c r) in
              (set_edges s2 (if f_graph fl then remove_all_for_agent (edges s2) o
                             else remove_wait (edges s2) o r), AOk res)
          | LBlocked =>
              (set_edges s1 (match l_owner l' with
                             | Some b => add_dependency (edges s1) o b r
                             | None => edges s1 end), AOk res)
          | LPreempted =>
              let s2 := put_ctx s1 o (add_acq c r) in
              (set_edges s2 (if f_graph fl then remove_all_for_agent (edges s2) o
                             else retarget (remove_wait (edges s2) o r) r (Some o)), AOk res)
          end
      end
  end.

(* release_resource(ctx, r) *)
Definition release (fl : flags) (s : st) (o r : Z) : st * bool :=
  match get_ctx s o with
  | None => (s, false)
  | Some c =>
      if negb (memz r (c_acq c)) then (s, false)
      else match get_lock s r with
      | None => (s, false)
      | Some l =>
          let '(l', ok) := lock_release l o in
          if ok then
            let s1 := put_lock s r l' in
            let s2 := if f_forget fl || negb (oeqb (l_owner l') o)
                      then put_ctx s1 o (c_set_acq c (remz r (c_acq c))) else s1 in
            (set_edges s2 (if f_graph fl then remove_all_for_agent (edges s2) o
                           else match l_owner l' with
                                | None => retarget (edges s2) r None
                                | Some _ => edges s2 end), true)
          else (s, false)
      end
  end.

(* one iteration of release_all_resources *)
Definition release_one (fl : flags) (s : st) (o r : Z) : st :=
  let s1 := if f_reentrant fl then s else
            match get_lock s r with
            | Some l => put_lock s r (drop_reentrant (Z.to_nat (l_hold l)) o l)
            | None => s
            end in
  fst (release fl s1 o r).

Definition release_all (fl : flags) (s : st) (o : Z) : st :=
  match get_ctx s o with
  | None => s
  | Some c => fold_left (fun s r => release_one fl s o r) (c_acq c) s
  end.

(* complete_operation / abort_operation: identical effect on the state *)
Definition finish (fl : flags) (s : st) (o : Z) : st :=
  let s1 := release_all fl s o in
  let s2 := if f_graph fl then s1 else set_edges s1 (remove_all_for_agent (edges s1) o) in
  let s3 := match get_ctx s2 o with
            | Some c => put_ctx s2 o (c_set_phase c G0 (now s2))
            | None => s2 end in
  set_active s3 (remz o (active s3)).

(* ------------------------------------------------------------------ *)
(* watchdog.py                                                          *)

Inductive strategy := SPriority | SOldest | SOther.
Record wcfg := mkW {
  w_max : option Z; w_starve : option Z; w_progress : option Z; w_strategy : strategy }.
Definition no_timeouts : wcfg := mkW None None None SPriority.

Inductive reason := RTimeout | RStarvation | RNoProgress | RDeadlock | RManual.

(* `if self.max_operation_time:` — None and a zero timedelta are both falsy *)
Definition exceeded (t : option Z) (elapsed : Z) : bool :=
  match t with Some d => negb (Z.eqb d 0) && Z.gtb elapsed d | None => false end.

Definition is_phase (a b : phase) : bool :=
  match a, b with G0, G0 | G1, G1 | PS, PS | G2, G2 | PM, PM => true | _, _ => false end.

(* the per-operation part of Watchdog.check *)
Definition timeout_event (w : wcfg) (s : st) (o : Z) : option reason :=
  match get_ctx s o with
  | None => None
  | Some c =>
      if c_exempt c then None
      else if exceeded (w_max w) (now s - c_created c) then Some RTimeout
      else if is_phase (c_phase c) G1 && exceeded (w_starve w) (now s - c_phase_at c)
              && negb (c_racq c) then Some RStarvation
      else if is_phase (c_phase c) PS && exceeded (w_progress w) (now s - c_phase_at c)
           then Some RNoProgress
      else None
  end.

(* min(involved, key=...) returns the first minimal element *)
Fixpoint min_by (key : Z -> Z) (best : Z) (l : list Z) : Z :=
  match l with
  | [] => best
  | x :: l' => min_by key (if Z.ltb (key x) (key best) then x else best) l'
  end.

Definition prio_of (s : st) (o : Z) : Z := match get_ctx s o with Some c => c_prio c | None => 0 end.
Definition created_of (s : st) (o : Z) : Z := match get_ctx s o with Some c => c_created c | None => 0 end.

Definition select_victim (w : wcfg) (s : st) (agents : list Z) : option Z :=
  match filter (is_active s) agents with
  | [] => None
  | x :: l =>
      Some match w_strategy w with
           | SPriority => min_by (prio_of s) x l
           | SOldest => min_by (created_of s) x l
           | SOther => x
           end
  end.

Definition event := (Z * reason)%type.

Definition wd_check (w : wcfg) (s : st) : list event :=
  let evs := flat_map (fun o => match timeout_event w s o with
                                | Some r => [(o, r)] | None => [] end) (active s) in
  match detect_cycle (edges s) with
  | None => evs
  | Some c =>
      match select_victim w s c with
      | Some v => if memz v (map fst evs) then evs
                  else if is_active s v then evs ++ [(v, RDeadlock)] else evs
      | None => evs
      end
  end.

Definition abort_if_active (fl : flags) (s : st) (o : Z) : st :=
  if is_active s o then finish fl s o else s.

(* Watchdog.execute *)
Definition wd_execute (fl : flags) (w : wcfg) (s : st) : st * list event :=
  let evs := wd_check w s in
  (fold_left (fun s e => abort_if_active fl s (fst e)) evs s, evs).

(* CoordinationSystem.shutdown (clear_all afterwards finds no active operation to restore) *)
Definition shutdown (fl : flags) (s : st) : st :=
  fold_left (abort_if_active fl) (active s) s.

(* ------------------------------------------------------------------ *)
(* priority.py: PriorityInheritance.check_and_boost, which
   CoordinationSystem.run_maintenance runs right before Watchdog.execute.
   It rewrites OperationContext.priority of ACTIVE operations only (the
   priority a LATER acquisition is made with); active_boosts only remembers
   the original priorities (never read back by run_maintenance, and
   shutdown's clear_all runs after every operation was aborted), so it is
   not part of the state here. *)

Definition c_boost (c : ctx) (p : Z) : ctx :=
  mkCtx p (c_phase c) (c_phase_at c) (c_acq c) (c_racq c) (c_exec c) (c_valid c) (c_created c) (c_exempt c).

(* controller.active_operations.get(o) *)
Definition live_ctx (s : st) (o : Z) : option ctx :=
  if is_active s o then get_ctx s o else None.

(* DependencyGraph.get_blocking_chain(agent)[1:]: follow the FIRST recorded edge
   until a node without edges or an already visited node.  [None] = out of fuel
   (excluded by c14_boost_fuel_suffices). *)
Fixpoint pi_walk (fuel : nat) (g : graph) (cur : Z) (visited : list Z) : option (list Z) :=
  match fuel with
  | O => None
  | S f =>
      match succs g cur with
      | [] => Some []
      | (b, _) :: _ =>
          if memz b visited then Some []
          else match pi_walk f g b (b :: visited) with
               | Some l => Some (b :: l)
               | None => None
               end
      end
  end.

Definition pi_tail (g : graph) (a : Z) : option (list Z) :=
  pi_walk (S (length g)) g a [a].

(* the inner loop of check_and_boost over chain[1:] -> new boosts (operation, boosted priority) *)
Fixpoint pi_chain (s : st) (maxp : Z) (ch : list Z) : st * list (Z * Z) :=
  match ch with
  | [] => (s, [])
  | o :: rest =>
      match live_ctx s o with
      | None => pi_chain s maxp rest
      | Some c =>
          if Z.ltb (c_prio c) maxp then
            let '(s2, nb) := pi_chain (put_ctx s o (c_boost c maxp)) maxp rest in
            (s2, (o, maxp) :: nb)
          else pi_chain s (Z.max maxp (c_prio c)) rest
      end
  end.

(* the outer loop: for waiter_id in list(graph.edges.keys()) *)
Fixpoint pi_waiters (g : graph) (keys : list Z) (s : st) : option (st * list (Z * Z)) :=
  match keys with
  | [] => Some (s, [])
  | wt :: rest =>
      match live_ctx s wt with
      | None => pi_waiters g rest s
      | Some c =>
          match pi_tail g wt with
          | None => None
          | Some ch =>
              let '(s1, nb1) := pi_chain s (c_prio c) ch in
              match pi_waiters g rest s1 with
              | Some (s2, nb2) => Some (s2, nb1 ++ nb2)
              | None => None
              end
          end
      end
  end.

(* PriorityInheritance.check_and_boost(controller) *)
Definition pi_boost (s : st) : option (st * list (Z * Z)) :=
  pi_waiters (edges s) (map fst (edges s)) s.

(* ------------------------------------------------------------------ *)
(* system.register_resource(r, allow_preemption) -> controller.register_resource:
   `self.resources[r] = ResourceLock(r, allow_preemption)`.

   For an id that is registered already this REPLACES the lock object: the new
   lock is free, with an empty waiting list, at the old position of the dict.
   The old lock object is no longer registered, but every OperationContext that
   obtained it still refers to it (acquired_resources maps the id to the lock
   OBJECT), and release_resource / release_all_resources release through that
   reference.  The model keeps such a replaced lock in [resources] under a RETIRED
   key (>= [retired_from], never a resource id of a caller; fresh), and renames
   the id to that key in the acquired_resources of every context: id <-> object
   again.  Retired keys are not registered resources: [registered], and they are
   left out of every observation.  A replaced lock that was free is simply
   dropped (nothing can change it any more and nothing reads it).

   Not exact under re-registration: the dependency graph.  Its edges are labelled
   with the resource ID, which both generations of the lock share in the code; a
   release of the replaced lock drops the edges of the waiters of the new one.
   Cases with a registration therefore leave the graph rows out of the
   comparison and do not run the watchdog / priority inheritance (the only
   readers of the graph): [uses_reg], harness rule. *)

Definition retired_from : Z := 1000.
Definition registered (r : Z) : bool := Z.ltb r retired_from.

Definition fresh_key (s : st) : Z :=
  fold_right (fun rl m => Z.max (fst rl + 1) m) retired_from (resources s).

Definition fresh_lock (pre : bool) : lock := mkLock None 0 0 pre [].

Definition rename_acq (r k : Z) (c : ctx) : ctx :=
  c_set_acq c (map (fun x => if Z.eqb x r then k else x) (c_acq c)).

Definition reregister (s : st) (r : Z) (pre : bool) : st :=
  match get_lock s r with
  | None => set_resources s (resources s ++ [(r, fresh_lock pre)])
  | Some l =>
      match l_owner l with
      | None => put_lock s r (fresh_lock pre)
      | Some _ =>
          let k := fresh_key s in
          set_ctxs (set_resources s (aset (resources s) r (fresh_lock pre) ++ [(k, l)]))
                   (map (fun oc : Z * ctx => (fst oc, rename_acq r k (snd oc))) (ctxs s))
      end
  end.

(* ------------------------------------------------------------------ *)
(* the step API used by histories, and by scripted work functions       *)

Inductive fop :=
| FStart (o p : Z) (exempt : bool)   (* controller.start_operation with a fresh id (never used before) *)
| FAcquire (o r : Z)                 (* ctx = active_operations.get(o); acquire_resource(ctx, r) *)
| FRelease (o r : Z)
| FComplete (o : Z)
| FAbort (o : Z)
| FKill (o : Z)                      (* system.kill_operation(o) *)
| FWatchdog                          (* system.watchdog.execute(controller) *)
| FShutdown
| FTick (d : Z)
| FMaintain                          (* system.run_maintenance(): check_and_boost, then watchdog.execute *)
| FAdvance (o : Z)                   (* ctx = active_operations.get(o); controller.advance(ctx), default checkpoints *)
| FPopWaiter (r : Z)                 (* controller.resources[r].pop_next_waiter() *)
| FRegister (r : Z) (pre : bool).    (* system.register_resource(r, allow_preemption=pre): a NEW id, or an id that is
                                        registered already (re-registration, the only way to switch allow_preemption) *)

Definition lres_code (r : lres) : Z :=
  match r with LAcquired => 0 | LBlocked => 1 | LReentrant => 2 | LPreempted => 3 end.
Definition reason_code (r : reason) : Z :=
  match r with RTimeout => 0 | RStarvation => 1 | RNoProgress => 2 | RDeadlock => 3 | RManual => 4 end.
Definition b2z (b : bool) : Z := if b then 1 else 0.

Definition has_ctx (s : st) (o : Z) : bool :=
  match get_ctx s o with Some _ => true | None => false end.

(* returns the new state and the canonical return value of the call;
   [-1] = the driver did not make the call (operation not active / id not fresh) *)
Definition fstep (fl : flags) (w : wcfg) (s : st) (a : fop) : st * list Z :=
  match a with
  | FStart o p ex => if has_ctx s o then (s, [-1]) else (start_op s o p ex, [0])
  | FAcquire o r =>
      if is_active s o then
        match acquire fl s o r with
        | (s', AOk res) => (s', [lres_code res])
        | (s', AUnknown) => (s', [9])
        | (s', ANoCtx) => (s', [-1])
        end
      else (s, [-1])
  | FRelease o r =>
      if is_active s o then let '(s', b) := release fl s o r in (s', [b2z b]) else (s, [-1])
  | FComplete o => if is_active s o then (finish fl s o, [0]) else (s, [-1])
  | FAbort o => if is_active s o then (finish fl s o, [0]) else (s, [-1])
  | FKill o => if is_active s o then (finish fl s o, [1]) else (s, [0])
  | FWatchdog =>
      let '(s', evs) := wd_execute fl w s in
      (s', flat_map (fun e : event => [fst e; reason_code (snd e)]) evs)
  | FShutdown => (shutdown fl s, [0])
  | FTick d => (set_now s (now s + d), [0])
  | FMaintain =>
      (* [number of new boosts; (operation, boosted priority)*; (operation, reason)*]; [-7] = out of fuel *)
      match pi_boost s with
      | None => (s, [-7])
      | Some (s1, nb) =>
          let '(s', evs) := wd_execute fl w s1 in
          (s', Z.of_nat (length nb) :: flat_map (fun b : Z * Z => [fst b; snd b]) nb
                 ++ flat_map (fun e : event => [fst e; reason_code (snd e)]) evs)
      end
  | FAdvance o =>
      if is_active s o then let '(s', b) := advance s o CpDefault in (s', [b2z b]) else (s, [-1])
  | FPopWaiter r =>
      match get_lock s r with
      | None => (s, [-1])
      | Some l =>
          match l_wait l with
          | [] => (s, [0])
          | x :: t => (put_lock s r (mkLock (l_owner l) (l_prio l) (l_hold l) (l_preempt l) t), [1; fst x; snd x])
          end
      end
  | FRegister r pre => (reregister s r pre, [0])
  end.

(* ------------------------------------------------------------------ *)
(* system.py: execute_operation                                         *)

Inductive vfn := VNone | VTrue | VFalse | VRaise.

(* The SIGNATURE of a callable the caller hands in (work_fn, validate_fn): how many
   positional arguments a call may supply - [sh_lo .. sh_hi], [None] = no upper
   bound (`*args`).  def f(): 0..0; lambda *a: 0..; def f(ctx=None): 0..1;
   def f(result): 1..1; def f(result, strict=False): 1..2; a functools.partial, a
   bound method, an object with __call__: the same, counted after the bound
   arguments.  A call that supplies a number of arguments the signature does not
   accept raises TypeError BEFORE the body runs (the body does not run at all);
   a call that it accepts runs the body - exactly once per call.
   [sh_truthy]: bool(callable) - a callable OBJECT may be falsy (an empty rule list
   with __call__, __len__() == 0, __bool__ returning False); execute_operation asks
   `validate_fn is not None` (cbf3ada), so nothing below reads this field. *)
Record shape := mkShape { sh_lo : nat; sh_hi : option nat; sh_truthy : bool }.
Definition accepts (sh : shape) (n : nat) : bool :=
  Nat.leb (sh_lo sh) n && match sh_hi sh with Some h => Nat.leb n h | None => true end.
Definition sh_noargs : shape := mkShape 0 (Some 0%nat) true.   (* def work_fn(): ... *)
Definition sh_onearg : shape := mkShape 1 (Some 1%nat) true.   (* def validate_fn(result): ... *)

(* what a CHECKPOINT callback may do besides returning its verdict: the ways an
   operation is ended from outside (manual kill of any operation, a watchdog
   pass, a maintenance pass = priority inheritance + watchdog, shutdown), time
   passing, and looking at the locks *)
Inductive cact := CProbe | CKill (o : Z) | CWatchdog | CShutdown | CTick (d : Z) | CMaintain.

(* what a WORK function may do: look at the locks, call the step API, and run a
   NESTED coordinated operation on the same system (execute_operation called
   from inside work_fn, with its own fault script - to any depth) *)
Inductive wact :=
| WProbe
| WDo (a : fop)
| WExec (o p : Z) (reqs : list Z) (sc : script)
with script := mkScript
  (sc_cp : list cpo)          (* verdict of the k-th checkpoint evaluation (default beyond the list) *)
  (sc_cpw : list (list cact)) (* what the k-th checkpoint evaluation does first (nothing beyond the list) *)
  (sc_work : list wact)       (* what work_fn does before it returns / raises *)
  (sc_work_raises : bool)
  (sc_validate : vfn)
  (sc_val : Z)                (* WHICH Python objects the callbacks of this call use: the exception object a
                                 raising checkpoint / work function / validator raises (with a message, without
                                 arguments, a bare assert, KeyError(), StopIteration(), a falsy one, one of the
                                 system's own error classes, one whose __str__ itself raises ...), the falsy object a rejecting validator returns
                                 (False, 0, None, "" ...), the object work_fn returns.  An index into the harness's
                                 value tables, opaque here: execute_operation only str()s the exception (falling back
                                 to the class name when that raises: cc45a69), tests the verdict for truth and
                                 passes the result on, so nothing below reads this field
                                 ([with_val] / c14_callback_values_irrelevant) *)
  (sc_wsh : shape)            (* the signature of work_fn: execute_operation calls work_fn() *)
  (sc_vsh : shape).           (* the signature of validate_fn: execute_operation calls validate_fn(result) *)

Definition sc_cp (sc : script) := match sc with mkScript x _ _ _ _ _ _ _ => x end.
Definition sc_cpw (sc : script) := match sc with mkScript _ x _ _ _ _ _ _ => x end.
Definition sc_work (sc : script) := match sc with mkScript _ _ x _ _ _ _ _ => x end.
Definition sc_work_raises (sc : script) := match sc with mkScript _ _ _ x _ _ _ _ => x end.
Definition sc_validate (sc : script) := match sc with mkScript _ _ _ _ x _ _ _ => x end.
Definition sc_val (sc : script) := match sc with mkScript _ _ _ _ _ x _ _ => x end.
Definition sc_wsh (sc : script) := match sc with mkScript _ _ _ _ _ _ x _ => x end.
Definition sc_vsh (sc : script) := match sc with mkScript _ _ _ _ _ _ _ x => x end.

(* a script whose callables have the ordinary signatures: work_fn(), validate_fn(result) *)
Definition mkPlain cp cpw work wr v k : script := mkScript cp cpw work wr v k sh_noargs sh_onearg.

(* the same script with the value index [k] everywhere, also in the nested calls of its work function *)
Fixpoint with_val (k : Z) (sc : script) : script :=
  match sc with
  | mkScript cp cpw work wr v _ ws vs =>
      mkScript cp cpw
        (map (fun a => match a with
                       | WExec o p reqs sc' => WExec o p reqs (with_val k sc')
                       | _ => a
                       end) work) wr v k ws vs
  end.

(* signatures up to what execute_operation can tell apart: does the signature accept
   the call that is made (work_fn(): no argument; validate_fn(result): one)? *)
Definition canon (n : nat) (sh : shape) : shape :=
  if accepts sh n then mkShape n (Some n) true else mkShape (S n) (Some (S n)) true.

(* the same script with canonical signatures everywhere, also in the nested calls *)
Fixpoint norm_sig (sc : script) : script :=
  match sc with
  | mkScript cp cpw work wr v k ws vs =>
      mkScript cp cpw
        (map (fun a => match a with
                       | WExec o p reqs sc' => WExec o p reqs (norm_sig sc')
                       | _ => a
                       end) work) wr v k (canon 0 ws) (canon 1 vs)
  end.

Definition cact_wact (a : cact) : wact :=
  match a with
  | CProbe => WProbe
  | CKill o => WDo (FKill o)
  | CWatchdog => WDo FWatchdog
  | CShutdown => WDo FShutdown
  | CTick d => WDo (FTick d)
  | CMaintain => WDo FMaintain
  end.

(* callback log.  EvWork carries the state in which work_fn was invoked.  A nested
   execute_operation shows in the log of the enclosing one as ONE event, [EvDid]
   of its encoded result ([enc_result]): its own callback log stays its own *)
Inductive ev :=
| EvCp (k : nat) (passed : bool)
| EvWork (s : st)
| EvProbe (owners : list (Z * Z))      (* (owner or -1, hold_count) per registered resource *)
| EvDid (ret : list Z)
| EvWorkRet | EvWorkRaise
| EvValidate (ok : bool) | EvValidateRaise.

Definition probe (s : st) : list (Z * Z) :=
  map (fun rl : Z * lock => (match l_owner (snd rl) with Some o => o | None => -1 end, l_hold (snd rl)))
      (filter (fun rl : Z * lock => registered (fst rl)) (resources s)).

Record result := mkResult { r_success : bool; r_phase : phase; r_log : list ev }.

(* how many times the BODY of work_fn / validate_fn ran during the call *)
Definition is_work (e : ev) : bool := match e with EvWork _ => true | _ => false end.
Definition is_validate (e : ev) : bool :=
  match e with EvValidate _ | EvValidateRaise => true | _ => false end.
Definition work_runs (r : result) : nat := length (filter is_work (r_log r)).
Definition validate_runs (r : result) : nat := length (filter is_validate (r_log r)).

Definition phase_code (p : phase) : Z :=
  match p with G0 => 0 | G1 => 1 | PS => 2 | G2 => 3 | PM => 4 end.

Definition obs_ev (e : ev) : list Z :=
  match e with
  | EvCp k b => [0; Z.of_nat k; b2z b]
  | EvWork _ => [1]
  | EvProbe l => 2 :: flat_map (fun x : Z * Z => [fst x; snd x]) l
  | EvDid ret => 3 :: ret
  | EvWorkRet => [4]
  | EvWorkRaise => [5]
  | EvValidate b => [6; b2z b]
  | EvValidateRaise => [7]
  end.

(* what the enclosing work function sees of a nested execute_operation:
   [50; success; phase reached; (length of row, row)*] over the nested callback log;
   [50; -1] = the driver did not make the call (id of a live or of an enclosing operation) *)
Definition enc_result (r : result) : list Z :=
  50 :: b2z (r_success r) :: phase_code (r_phase r)
     :: flat_map (fun e => Z.of_nat (length (obs_ev e)) :: obs_ev e) (r_log r).

(* the scripted body of a callback.  [nested] runs an execute_operation called from
   inside it; [encl] = the ids of the operations whose execute_operation calls
   enclose this body (the driver never re-uses one of them: the context object of
   an enclosing operation is still in use even if the operation has ended) *)
Section RunWork.
Variable nested : st -> Z -> Z -> list Z -> script -> st * result.
Variable encl : list Z.

Fixpoint run_work_with (fl : flags) (w : wcfg) (s : st) (acts : list wact) : st * list ev :=
  match acts with
  | [] => (s, [])
  | WProbe :: rest => let '(s', l) := run_work_with fl w s rest in (s', EvProbe (probe s) :: l)
  | WDo a :: rest =>
      let '(s1, ret) := fstep fl w s a in
      let '(s', l) := run_work_with fl w s1 rest in (s', EvDid ret :: l)
  | WExec o p reqs sc :: rest =>
      if is_active s o || memz o encl then
        let '(s', l) := run_work_with fl w s rest in (s', EvDid [50; -1] :: l)
      else
        let '(s1, r) := nested s o p reqs sc in
        let '(s', l) := run_work_with fl w s1 rest in (s', EvDid (enc_result r) :: l)
  end.
End RunWork.

Inductive acq_out := AllAcquired | BlockedAt (k : nat) | UnknownAt (k : nat).

Fixpoint acquire_all (fl : flags) (s : st) (o : Z) (k : nat) (reqs : list Z) : st * acq_out :=
  match reqs with
  | [] => (s, AllAcquired)
  | r :: rest =>
      match acquire fl s o r with
      | (s', AOk LBlocked) => (s', BlockedAt k)
      | (s', AOk _) => acquire_all fl s' o (S k) rest
      | (s', _) => (s', UnknownAt k)
      end
  end.

Definition phase_of (s : st) (o : Z) : phase :=
  match get_ctx s o with Some c => c_phase c | None => G0 end.

Definition upd_ctx (s : st) (o : Z) (f : ctx -> ctx) : st :=
  match get_ctx s o with Some c => put_ctx s o (f c) | None => s end.

(* the `except Exception` branch: abort, report ctx.phase as it is afterwards *)
Definition failed (fl : flags) (s : st) (o : Z) (log : list ev) : st * result :=
  let s' := finish fl s o in (s', mkResult false (phase_of s' o) log).

Definition cp_of (sc : script) (k : nat) : cpo := nth k (sc_cp sc) CpDefault.
Definition cb_of (sc : script) (k : nat) : list wact := map cact_wact (nth k (sc_cpw sc) []).

(* how the work function of one execute_operation is run: state -> body -> (state, log) *)
Definition runner := st -> list wact -> st * list ev.

(* checkpoint callbacks: no nested execute_operation in their alphabet *)
Definition no_nested (s : st) (o p : Z) (reqs : list Z) (sc : script) : st * result :=
  (s, mkResult false G0 []).
Notation run_work := (run_work_with no_nested []).

(* the stages of execute_operation, last first.  Each controller.advance(ctx) is:
   read ctx.phase, run the callback of the checkpoint ([cb_of sc k]), then
   [advance_at] with the k-th verdict.
   [chk] = the liveness test before work_fn (fix 531c938); [exec_op] has it. *)
Definition has_validator (sc : script) : bool :=
  match sc_validate sc with VNone => false | _ => true end.

(* what `if validate_fn is not None: if not validate_fn(result): raise ...` comes to:
   no validator; the call validate_fn(result) is refused by the validator's signature
   (TypeError, the body does not run); the body runs and returns true / false / raises *)
Inductive vout := ONone | OTrue | OFalse | ORaise | OUncallable.
Definition validate_outcome (sc : script) : vout :=
  match sc_validate sc with
  | VNone => ONone
  | v => if accepts (sc_vsh sc) 1
         then match v with VTrue => OTrue | VFalse => OFalse | _ => ORaise end
         else OUncallable
  end.

Definition exec_validate (fl : flags) (w : wcfg) (s7 : st) (o : Z) (sc : script) (log3 : list ev) : st * result :=
  match validate_outcome sc with
  | OUncallable => failed fl s7 o log3       (* validate_fn(result) raises TypeError: its body does not run *)
  | OFalse => failed fl s7 o (log3 ++ [EvValidate false])
  | ORaise => failed fl s7 o (log3 ++ [EvValidateRaise])
  | v =>
      let log4 := log3 ++ match v with OTrue => [EvValidate true] | _ => [] end in
      let s8 := upd_ctx s7 o c_set_valid in
      let '(s8', l3) := run_work fl w s8 (cb_of sc 3) in
      let '(s9, b3) := advance_at (phase_of s8 o) s8' o (cp_of sc 3) in
      let log5 := log4 ++ l3 ++ [EvCp 3 b3] in
      if negb b3 then failed fl s9 o log5
      else (finish fl s9 o, mkResult true PM log5)          (* complete_operation *)
  end.

Definition exec_after_work (fl : flags) (w : wcfg) (s5 : st) (o : Z) (sc : script) (log2 : list ev) : st * result :=
  let s6 := upd_ctx s5 o c_set_exec in
  let '(s6', l2) := run_work fl w s6 (cb_of sc 2) in
  let '(s7, b2) := advance_at (phase_of s6 o) s6' o (cp_of sc 2) in
  let log3 := log2 ++ [EvWorkRet] ++ l2 ++ [EvCp 2 b2] in
  if negb b2 then failed fl s7 o log3 else exec_validate fl w s7 o sc log3.

Definition exec_work (fl : flags) (w : wcfg) (rw : runner) (s4 : st) (o : Z) (sc : script) (log1 : list ev) : st * result :=
  if negb (accepts (sc_wsh sc) 0) then
    failed fl s4 o log1            (* work_fn() raises TypeError: its body does not run (WorkError) *)
  else
  let '(s5, wl) := rw s4 (sc_work sc) in
  let log2 := log1 ++ EvWork s4 :: wl in
  if sc_work_raises sc then failed fl s5 o (log2 ++ [EvWorkRaise])
  else exec_after_work fl w s5 o sc log2.

Definition exec_acquired (chk : bool) (fl : flags) (w : wcfg) (rw : runner) (s2 : st) (o : Z) (sc : script) (log0 : list ev) : st * result :=
  let s3 := upd_ctx s2 o c_set_racq in
  let '(s3', l1) := run_work fl w s3 (cb_of sc 1) in
  let '(s4, b1) := advance_at (phase_of s3 o) s3' o (cp_of sc 1) in
  let log1 := log0 ++ l1 ++ [EvCp 1 b1] in
  if negb b1 then failed fl s4 o log1
  else if chk && negb (is_active s4 o) then failed fl s4 o log1   (* "Operation terminated before work" *)
  else exec_work fl w rw s4 o sc log1.

(* start_operation and the G0 advance (its result is ignored by the code):
   the state in which the acquisition loop starts, the verdict, the callback's log *)
Definition exec_begin (fl : flags) (w : wcfg) (s : st) (o p : Z) (sc : script) : st * bool * list ev :=
  let s0 := start_op s o p false in
  let '(s0', l0) := run_work fl w s0 (cb_of sc 0) in
  let '(s1, b0) := advance_at G0 s0' o (cp_of sc 0) in
  (s1, b0, l0).

Definition exec_body (chk : bool) (fl : flags) (w : wcfg) (rw : runner) (s : st) (o p : Z) (reqs : list Z) (sc : script)
  : st * result :=
  let '(s1, b0, l0) := exec_begin fl w s o p sc in
  let log0 := l0 ++ [EvCp 0 b0] in
  match acquire_all fl s1 o 0 reqs with
  | (s2, AllAcquired) => exec_acquired chk fl w rw s2 o sc log0
  | (s2, _) => failed fl s2 o log0                         (* ResourceError / ValueError *)
  end.

(* execute_operation(o, ...) called while the execute_operation calls of [encl]
   are in progress (innermost first; [] = not from inside a callback).  Structural
   in the script: the nested calls of its work function run their own scripts. *)
Fixpoint exec_in (chk : bool) (fl : flags) (w : wcfg) (sc : script) (encl : list Z)
         (s : st) (o p : Z) (reqs : list Z) {struct sc} : st * result :=
  exec_body chk fl w
    (run_work_with (fun s2 o2 p2 reqs2 sc2 => exec_in chk fl w sc2 (o :: encl) s2 o2 p2 reqs2) (o :: encl) fl w)
    s o p reqs sc.

(* the callbacks of an execute_operation whose enclosing chain (itself first) is [encl] *)
Definition run_work_x (chk : bool) (encl : list Z) (fl : flags) (w : wcfg) : runner :=
  run_work_with (fun s2 o2 p2 reqs2 sc2 => exec_in chk fl w sc2 encl s2 o2 p2 reqs2) encl fl w.

Definition exec_op_gen (chk : bool) (fl : flags) (w : wcfg) (s : st) (o p : Z) (reqs : list Z) (sc : script)
  : st * result := exec_in chk fl w sc [] s o p reqs.

Definition exec_op := exec_op_gen true.

Inductive op :=
| OFlat (a : fop)
| OExec (o p : Z) (reqs : list Z) (sc : script).

(* ------------------------------------------------------------------ *)
(* canonical observations for the correspondence check                   *)

Definition oz (o : option Z) : Z := match o with Some x => x | None => -1 end.

Definition obs_state (s : st) : list (list Z) :=
  map (fun rl : Z * lock =>
         let l := snd rl in
         [101; fst rl; oz (l_owner l); l_prio l; l_hold l]
           ++ flat_map (fun x : Z * Z => [fst x; snd x]) (l_wait l)) (resources s)
  ++ [102 :: active s]
  ++ [103 :: flat_map (fun kv : Z * list (Z * Z) =>
                         flat_map (fun e : Z * Z => [fst kv; fst e; snd e]) (snd kv)) (edges s)]
  ++ [104 :: match detect (edges s) with
             | DFound c => 1 :: c ++ (-2) :: cycle_resources (edges s) c
             | DNone _ => [0]
             | DOutOfFuel => [-7] end].

Definition step (fl : flags) (w : wcfg) (s : st) (a : op) : st * list (list Z) :=
  match a with
  | OFlat f => let '(s', ret) := fstep fl w s f in (s', [100 :: ret])
  | OExec o p reqs sc =>
      if is_active s o then (s, [[100; -1]])      (* the driver re-uses an id only after its operation ended *)
      else let '(s', r) := exec_op fl w s o p reqs sc in
           (s', [100; b2z (r_success r); phase_code (r_phase r)]
                  :: [106; Z.of_nat (work_runs r); Z.of_nat (validate_runs r)]
                  :: map (fun e => 105 :: obs_ev e) (r_log r))
  end.

Fixpoint run_ops (fl : flags) (w : wcfg) (s : st) (ops : list op) : st * list (list Z) :=
  match ops with
  | [] => (s, [])
  | a :: rest =>
      let '(s1, o1) := step fl w s a in
      let '(s2, o2) := run_ops fl w s1 rest in
      (s2, o1 ++ obs_state s1 ++ o2)
  end.

Definition init_state (res : list (Z * bool)) : st :=
  mkSt (map (fun rp : Z * bool => (fst rp, mkLock None 0 0 (snd rp) [])) res) [] [] [] 0.

(* rows of one execute_operation: [100; success; phase], [106; runs of the body of work_fn;
   runs of the body of validate_fn], then [105; event] per entry of the callback log *)
(* registered resources (id, allow_preemption), watchdog configuration, history *)
Definition case := (list (Z * bool) * wcfg * list op)%type.

(* does the history register a resource anywhere (top level, work functions, nested calls)? *)
Definition fop_is_reg (a : fop) : bool := match a with FRegister _ _ => true | _ => false end.
Fixpoint sc_uses_reg (sc : script) : bool :=
  match sc with
  | mkScript _ _ work _ _ _ _ _ =>
      existsb (fun a => match a with
                        | WDo f => fop_is_reg f
                        | WExec _ _ _ sc' => sc_uses_reg sc'
                        | WProbe => false
                        end) work
  end.
Definition uses_reg (ops : list op) : bool :=
  existsb (fun a => match a with OFlat f => fop_is_reg f | OExec _ _ _ sc => sc_uses_reg sc end) ops.

(* rows of replaced locks (retired keys) are never shown; the graph rows (103 edges, 104 cycle) only in
   histories without a registration *)
Definition shown (hide_graph : bool) (row : list Z) : bool :=
  match row with
  | 101 :: k :: _ => registered k
  | 103 :: _ | 104 :: _ => negb hide_graph
  | _ => true
  end.

Definition run_case_with (fl : flags) (c : case) : list (list Z) :=
  let '(res, w, ops) := c in filter (shown (uses_reg ops)) (snd (run_ops fl w (init_state res) ops)).

Definition run_case (c : case) : list (list Z) := run_case_with current c.

(* ------------------------------------------------------------------ *)
(* the `resources` argument of execute_operation is any ITERABLE of ids, not only a
   list.  execute_operation does `resources = resources or []` and then ONE pass
   `for resource_id in resources`.  What the operation requests is what the
   iterable yields on that pass: [request_of].  A second pass over a one-shot
   iterable yields nothing ([second_pass]) - which is why there must be only one. *)
Inductive itkind :=
| KList | KTuple            (* re-iterable sequences; empty ones are falsy *)
| KGen | KIter | KMap       (* generator, iter(list), map object: one-shot, always truthy *)
| KOnce                     (* an object with __iter__ returning itself and __next__: one-shot *)
| KObj                      (* an object whose __iter__ returns a new iterator each time: re-iterable *)
| KKeys | KDict             (* dict keys view / the dict itself: insertion order, repeats collapse *)
| KSet.                     (* set / frozenset: repeats collapse (the harness uses one distinct element) *)

Fixpoint dedup (l : list Z) : list Z :=
  match l with
  | [] => []
  | x :: t => x :: filter (fun y => negb (Z.eqb y x)) (dedup t)
  end.

Definition yields (k : itkind) (items : list Z) : list Z :=
  match k with
  | KKeys | KDict | KSet => dedup items
  | _ => items
  end.

Definition one_shot (k : itkind) : bool :=
  match k with KGen | KIter | KMap | KOnce => true | _ => false end.

(* bool(resources): containers are falsy when empty; iterators and plain objects are truthy *)
Definition it_truthy (k : itkind) (items : list Z) : bool :=
  match k with
  | KList | KTuple | KKeys | KDict | KSet => match items with [] => false | _ => true end
  | _ => true
  end.

(* the request list the acquisition loop of execute_operation goes through *)
Definition request_of (k : itkind) (items : list Z) : list Z :=
  if it_truthy k items then yields k items else [].

(* what a SECOND `for` over the same object would see *)
Definition second_pass (k : itkind) (items : list Z) : list Z :=
  if one_shot k then [] else request_of k items.
