(* C01 — what the size guards of the bounded primitives (fix a9a4a4e) guarantee, as mathematics.

   mitochondria.py:  _bounded_pow(a, b)   raises unless  |a|.bit_length() * b <= MAX_RESULT_BITS   (ints, b > 0, |a| > 1)
                     _bounded_mul(a, b)   raises unless  |a|.bit_length() + |b|.bit_length() <= MAX_RESULT_BITS  (ints)
                     _bounded_factorial(n) raises unless n * n.bit_length() <= MAX_RESULT_BITS     (int, n > 1)
   (the translator template-matches these bodies and the constants on every run).  [bits z] is Python's
   int.bit_length of |z|.  The lemmas say: whenever the guard lets the operation through, the result has at most
   [limit] bits - for every limit, in particular MAX_RESULT_BITS.  Together with c01_steps_bounded (one walker step
   per AST node) this is the memory/time bound of the engine; it is a statement about the integers, not about
   CPython's running time. *)
From Coq Require Import ZArith Lia.
Open Scope Z_scope.

Definition bits (z : Z) : Z := if Z.abs z =? 0 then 0 else Z.log2 (Z.abs z) + 1.

Lemma bits_nonneg z : 0 <= bits z.
Proof. unfold bits. destruct (Z.abs z =? 0); [lia|]. pose proof (Z.log2_nonneg (Z.abs z)). lia. Qed.

Lemma lt_pow2_bits z : Z.abs z < 2 ^ bits z.
Proof.
  unfold bits. destruct (Z.abs z =? 0) eqn:E.
  - apply Z.eqb_eq in E. rewrite E. cbn. lia.
  - apply Z.eqb_neq in E. assert (0 < Z.abs z) by lia.
    destruct (Z.log2_spec (Z.abs z) H) as [_ Hlt]. rewrite <- Z.add_1_r in Hlt. exact Hlt.
Qed.

Lemma bits_le_of_lt_pow2 z k : 0 <= k -> Z.abs z < 2 ^ k -> bits z <= k.
Proof.
  intros Hk Hlt. unfold bits. destruct (Z.abs z =? 0) eqn:E; [lia|].
  apply Z.eqb_neq in E. assert (H0 : 0 < Z.abs z) by lia.
  assert (Z.log2 (Z.abs z) < k); [|lia].
  apply Z.log2_lt_pow2; assumption.
Qed.

(* pow: the guard  bits a * b <= limit  bounds the size of a ^ b *)
Theorem bounded_pow_result_bits a b limit :
  0 < b -> bits a * b <= limit -> bits (a ^ b) <= limit.
Proof.
  intros Hb Hg.
  assert (Hk : 0 <= bits a * b) by (pose proof (bits_nonneg a); nia).
  apply Z.le_trans with (bits a * b); [|exact Hg].
  apply bits_le_of_lt_pow2; [exact Hk|].
  rewrite Z.abs_pow. rewrite Z.pow_mul_r by (pose proof (bits_nonneg a); lia).
  apply Z.pow_lt_mono_l; [lia|]. split; [apply Z.abs_nonneg | apply lt_pow2_bits].
Qed.

(* mul: the guard  bits a + bits b <= limit  bounds the size of a * b *)
Theorem bounded_mul_result_bits a b limit :
  bits a + bits b <= limit -> bits (a * b) <= limit.
Proof.
  intros Hg. apply Z.le_trans with (bits a + bits b); [|exact Hg].
  pose proof (bits_nonneg a). pose proof (bits_nonneg b).
  apply bits_le_of_lt_pow2; [lia|].
  rewrite Z.abs_mul, Z.pow_add_r by lia.
  pose proof (lt_pow2_bits a). pose proof (lt_pow2_bits b).
  pose proof (Z.abs_nonneg a). pose proof (Z.abs_nonneg b). nia.
Qed.

(* factorial (as the product 1 * 2 * ... * n): the guard  n * bits n <= limit  bounds its size *)
Fixpoint fact_nat (n : nat) : Z := match n with O => 1 | S k => Z.of_nat (S k) * fact_nat k end.

Lemma fact_le_pow n : 0 < fact_nat n <= Z.of_nat n ^ Z.of_nat n \/ n = O.
Proof.
  induction n as [|k IH]; [right; reflexivity|left].
  cbn [fact_nat]. destruct IH as [[Hp Hle]|Hk].
  - split; [lia|].
    replace (Z.of_nat (S k) ^ Z.of_nat (S k)) with (Z.of_nat (S k) * Z.of_nat (S k) ^ Z.of_nat k)
      by (rewrite Nat2Z.inj_succ, Z.pow_succ_r by lia; rewrite <- Nat2Z.inj_succ; reflexivity).
    apply Z.mul_le_mono_nonneg_l; [lia|].
    apply Z.le_trans with (Z.of_nat k ^ Z.of_nat k); [exact Hle|].
    apply Z.pow_le_mono_l. lia.
  - subst k. cbn. lia.
Qed.

Theorem bounded_factorial_result_bits n limit :
  (1 < n)%nat -> Z.of_nat n * bits (Z.of_nat n) <= limit -> bits (fact_nat n) <= limit.
Proof.
  intros Hn Hg.
  destruct (fact_le_pow n) as [[Hp Hle]|H0]; [|lia].
  assert (Hb : bits (Z.of_nat n ^ Z.of_nat n) <= limit).
  { apply bounded_pow_result_bits; [lia|]. lia. }
  apply Z.le_trans with (bits (Z.of_nat n ^ Z.of_nat n)); [|exact Hb].
  apply bits_le_of_lt_pow2; [apply bits_nonneg|].
  pose proof (lt_pow2_bits (Z.of_nat n ^ Z.of_nat n)) as Hlt.
  rewrite Z.abs_eq by lia. rewrite Z.abs_eq in Hlt by lia. lia.
Qed.
