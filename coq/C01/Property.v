(* C01 — property theorems only. *)
From Coq Require Import ZArith List Bool String.
From Verif Require Import C01.Model C01.Spec C01.Proofs C01.GenOk gen.Gen_C01 C01.Bounds.
Import ListNotations.

(* (a) confinement.  For ANY tables, oracles and expression, every primitive
   the walker performs is a lookup in the operator / comparison / function
   tables (or the built-in not / list / tuple construction) ... *)
Theorem c01_trace_confined :
  forall T O e, Forall (fun p => prim_ok T (fun _ => false) p = true) (fst (snd (run_eval T O e))).
Proof. exact trace_confined_proof. Qed.
Print Assumptions c01_trace_confined.

(* ... the tool pathway additionally only invokes the tool registered under
   the called name, and only if it passes the capability check ... *)
Theorem c01_tool_pathway_confined :
  forall T O reg allowed e,
    Forall (fun p => prim_ok T (tool_allowed reg allowed) p = true)
           (fst (snd (tool_pathway T O reg allowed e ([], 0%nat)))).
Proof. exact tool_pathway_confined_proof. Qed.
Print Assumptions c01_tool_pathway_confined.

(* ... a node whose class the walker does not dispatch on is an error and
   nothing below it is evaluated (trace unchanged, one step) ... *)
Theorem c01_forbidden_is_error :
  forall T O e s, mem (class_of e) (t_handled T) = false ->
    eval T O e s = (Err Unsupported, (fst s, S (snd s))).
Proof. exact forbidden_is_error_proof. Qed.
Print Assumptions c01_forbidden_is_error.

(* ... and the tables / dispatch / function shapes regenerated from the
   current source are within the allow-list of the property text (9 operators,
   6 comparisons, and/or, 36 names, 10 node classes, none of the forbidden
   classes), every branch and modelled function matches the template the model
   was transcribed from, the length guard is 10000 and the diagnostic print is
   inside the try. *)
Theorem Gen_C01_ok : gen_walker_ok = true.
Proof. exact gen_walker_ok_proof. Qed.
Print Assumptions Gen_C01_ok.

(* hence, for the tables of the current source, every primitive performed is
   one of the property text's allow-list *)
Theorem c01_confined_to_property_allow_list :
  forall O e, Forall (fun p => prim_ok spec_tables (fun _ => false) p = true)
                     (fst (snd (run_eval gen_tables O e))).
Proof.
  intros O e. eapply Forall_impl; [|apply c01_trace_confined].
  intros p. apply prim_ok_within. exact gen_tables_within_spec.
Qed.
Print Assumptions c01_confined_to_property_allow_list.

(* (b) totality: whatever the parser, json, literal_eval, the allow-listed
   primitives, the tools, the print and the result construction do (return or
   raise), metabolize returns a result *)
Theorem c01_total :
  forall max_len T O reg allowed env,
    fst (metabolize gen_print_guarded max_len T O reg allowed env) <> MRaised.
Proof. rewrite gen_print_guarded_true. exact metabolize_total_proof. Qed.
Print Assumptions c01_total.

(* ... and so does the legacy string API digest_glucose, whatever str() does *)
Theorem c01_digest_glucose_total :
  forall max_len T O reg allowed env str_outcome,
    digest_glucose gen_str_guarded
      (fst (metabolize gen_print_guarded max_len T O reg allowed env)) str_outcome <> MRaised.
Proof.
  intros. rewrite gen_str_guarded_true.
  pose proof (c01_total max_len T O reg allowed env) as H.
  destruct (fst (metabolize gen_print_guarded max_len T O reg allowed env)); simpl;
    [destruct str_outcome; discriminate | discriminate | exact H].
Qed.
Print Assumptions c01_digest_glucose_total.

(* (c) the walker itself takes at most one step per AST node *)
Theorem c01_steps_bounded :
  forall T O e, (snd (snd (run_eval T O e)) <= size e)%nat.
Proof. exact steps_bounded_proof. Qed.
Print Assumptions c01_steps_bounded.

(* Resource bound, part 2 (part 1 is c01_steps_bounded): the size guards of the bounded primitives pow / mul /
   factorial (fix a9a4a4e; their bodies and MAX_RESULT_BITS are template-matched by the translator) are sufficient:
   whenever a guard lets the operation through, the integer result has at most [limit] bits, for every limit.
   [bits] is int.bit_length of the absolute value. *)
Theorem c01_size_guards_bound_results :
  forall limit,
    (forall a b, 0 < b -> bits a * b <= limit -> bits (a ^ b) <= limit) /\
    (forall a b, bits a + bits b <= limit -> bits (a * b) <= limit) /\
    (forall n, (1 < n)%nat -> Z.of_nat n * bits (Z.of_nat n) <= limit -> bits (fact_nat n) <= limit).
Proof.
  intro limit.
  exact (conj (fun a b => bounded_pow_result_bits a b limit)
        (conj (fun a b => bounded_mul_result_bits a b limit)
              (fun n => bounded_factorial_result_bits n limit))).
Qed.
Print Assumptions c01_size_guards_bound_results.
