(* C01 — lemmas about the walker model. *)
From Coq Require Import ZArith List Bool String Lia.
From Verif Require Import C01.Model C01.Spec.
Import ListNotations.
Local Open Scope nat_scope.

(* ---------------------------------------------------------------------- *)
(* induction principle for [expr] with the nested lists                     *)
Section ExprInd.
Variable P : expr -> Prop.
Hypothesis HConst : forall v, P (EConst v).
Hypothesis HBin : forall op l r, P l -> P r -> P (EBinOp op l r).
Hypothesis HUn : forall op e, P e -> P (EUnaryOp op e).
Hypothesis HCall : forall f args kws, P f -> Forall P args ->
  Forall (fun kw => P (snd kw)) kws -> P (ECall f args kws).
Hypothesis HName : forall id, P (EName id).
Hypothesis HList : forall es, Forall P es -> P (EList es).
Hypothesis HTuple : forall es, Forall P es -> P (ETuple es).
Hypothesis HCmp : forall l ops cs, P l -> Forall P cs -> P (ECompare l ops cs).
Hypothesis HBool : forall op vs, Forall P vs -> P (EBoolOp op vs).
Hypothesis HIf : forall t b o, P t -> P b -> P o -> P (EIfExp t b o).
Hypothesis HOther : forall c, P (EOther c).

Fixpoint expr_ind' (e : expr) : P e :=
  let fix go (l : list expr) : Forall P l :=
    match l with [] => Forall_nil _ | x :: xs => Forall_cons _ (expr_ind' x) (go xs) end in
  match e with
  | EConst v => HConst v
  | EBinOp op l r => HBin op l r (expr_ind' l) (expr_ind' r)
  | EUnaryOp op x => HUn op x (expr_ind' x)
  | ECall f args kws =>
      HCall f args kws (expr_ind' f) (go args)
        ((fix gok (l : list (option string * expr)) : Forall (fun kw => P (snd kw)) l :=
            match l with
            | [] => Forall_nil _
            | kw :: xs => Forall_cons _ (expr_ind' (snd kw)) (gok xs)
            end) kws)
  | EName id => HName id
  | EList es => HList es (go es)
  | ETuple es => HTuple es (go es)
  | ECompare l ops cs => HCmp l ops cs (expr_ind' l) (go cs)
  | EBoolOp op vs => HBool op vs (go vs)
  | EIfExp t b o => HIf t b o (expr_ind' t) (expr_ind' b) (expr_ind' o)
  | EOther c => HOther c
  end.
End ExprInd.

(* ---------------------------------------------------------------------- *)
(* a small program logic for the walker monad: [spec n m] = running m keeps
   the trace invariant and advances the step counter by at most n           *)
Section Logic.
Variable T : tables.
Variable toolp : string -> bool.        (* which tool names may be invoked *)

Definition prim_ok (p : prim) : bool :=
  match p with
  | PBin op _ _ | PUn op _ => mem op (keys (t_operators T))
  | PNot _ => true
  | PCmp op _ _ => mem op (keys (t_comparisons T))
  | PName id | PCall id _ _ => mem id (keys (t_functions T))
  | PMkList _ | PMkTuple _ => true
  | PTool t _ _ => toolp t
  end.

Definition inv (s : st) : Prop := Forall (fun p => prim_ok p = true) (fst s).
Definition R (n : nat) (s s' : st) : Prop := (inv s -> inv s') /\ snd s' <= snd s + n.
Definition spec {A} (n : nat) (m : M A) : Prop := forall s, R n s (snd (m s)).

Lemma spec_weaken {A} n n' (m : M A) : spec n m -> n <= n' -> spec n' m.
Proof. intros H Hle s. destruct (H s) as [Hi Hs]. split; [exact Hi|lia]. Qed.

Lemma spec_ret {A} (a : A) : spec 0 (ret a).
Proof. intros s. split; simpl; [auto|lia]. Qed.

Lemma spec_fail {A} e : spec 0 (@fail A e).
Proof. intros s. split; simpl; [auto|lia]. Qed.

Lemma spec_of_opt {A} (o : option A) : spec 0 (of_opt o).
Proof. destruct o; [apply spec_ret|apply spec_fail]. Qed.

Lemma spec_tick : spec 1 tick.
Proof. intros s. split; simpl; [auto|lia]. Qed.

Lemma spec_emit p : prim_ok p = true -> spec 0 (emit p).
Proof.
  intros Hp s. split; simpl; [|lia]. unfold inv; simpl. intros Hs.
  apply Forall_app. split; [exact Hs|constructor; [exact Hp|constructor]].
Qed.

Lemma spec_bind {A B} n k (m : M A) (f : A -> M B) :
  spec n m -> (forall a, spec k (f a)) -> spec (n + k) (bind m f).
Proof.
  intros Hm Hf s. unfold bind. specialize (Hm s). destruct (m s) as [[a|e] s'] eqn:Hms; simpl in Hm.
  - specialize (Hf a s'). destruct Hm as [Hi Hs], Hf as [Hi' Hs']. split; [auto|lia].
  - destruct Hm as [Hi Hs]. split; simpl; [auto|lia].
Qed.

Lemma spec_if {A} n (c : bool) (m1 m2 : M A) : spec n m1 -> spec n m2 -> spec n (if c then m1 else m2).
Proof. destruct c; auto. Qed.

(* the list combinators *)
Lemma spec_eval_list (ev : expr -> M Z) l :
  Forall (fun x => spec (size x) (ev x)) l -> spec (list_sum (map size l)) (eval_list ev l).
Proof.
  induction 1 as [|x xs Hx _ IH]; simpl; [apply spec_ret|].
  apply spec_bind; [exact Hx|]. intros v.
  replace (list_sum (map size xs)) with (list_sum (map size xs) + 0) by lia.
  apply spec_bind; [exact IH|]. intros vs. apply spec_ret.
Qed.

Lemma spec_eval_kws (ev : expr -> M Z) l :
  Forall (fun kw => spec (size (snd kw)) (ev (snd kw))) l ->
  spec (list_sum (map (fun kw => size (snd kw)) l)) (eval_kws ev l).
Proof.
  induction 1 as [|[k x] xs Hx _ IH]; simpl; [apply spec_ret|].
  apply spec_bind; [exact Hx|]. intros v.
  replace (list_sum (map (fun kw => size (snd kw)) xs))
    with (list_sum (map (fun kw => size (snd kw)) xs) + 0) by lia.
  apply spec_bind; [exact IH|]. intros vs. apply spec_ret.
Qed.

Lemma spec_eval_kws_tool (ev : expr -> M Z) l :
  Forall (fun kw => spec (size (snd kw)) (ev (snd kw))) l ->
  spec (list_sum (map (fun kw => size (snd kw)) l)) (eval_kws_tool ev l).
Proof.
  induction 1 as [|[k x] xs Hx _ IH]; simpl; [apply spec_ret|].
  destruct k as [k|].
  - apply spec_bind; [exact Hx|]. intros v.
    replace (list_sum (map (fun kw => size (snd kw)) xs))
      with (list_sum (map (fun kw => size (snd kw)) xs) + 0) by lia.
    apply spec_bind; [exact IH|]. intros vs. apply spec_ret.
  - eapply spec_weaken; [exact IH|simpl; lia].
Qed.

Variable O : oracles.

Lemma spec_cmp_chain (ev : expr -> M Z) cs :
  Forall (fun x => spec (size x) (ev x)) cs ->
  forall ops left, spec (list_sum (map size cs)) (cmp_chain T O ev cs ops left).
Proof.
  induction 1 as [|c cs Hc _ IH]; intros ops left; simpl.
  - destruct ops; apply spec_ret.
  - destruct ops as [|op ops]; [eapply spec_weaken; [apply spec_ret|lia]|].
    apply spec_bind; [exact Hc|]. intros b.
    unfold lookup. destruct (mem op (keys (t_comparisons T))) eqn:Hop.
    + replace (list_sum (map size cs)) with (0 + (0 + list_sum (map size cs))) by lia.
      apply spec_bind; [apply spec_emit; exact Hop|]. intros _.
      apply spec_bind; [apply spec_of_opt|]. intros r.
      apply spec_if; [apply IH|eapply spec_weaken; [apply spec_ret|lia]].
    + eapply spec_weaken; [apply spec_fail|lia].
Qed.

Lemma spec_bool_chain (ev : expr -> M Z) is_or vs :
  Forall (fun x => spec (size x) (ev x)) vs ->
  forall last, spec (list_sum (map size vs)) (bool_chain O ev is_or vs last).
Proof.
  induction 1 as [|x xs Hx _ IH]; intros last; simpl; [apply spec_ret|].
  apply spec_bind; [exact Hx|]. intros v.
  apply spec_if; [eapply spec_weaken; [apply spec_ret|lia]|apply IH].
Qed.

(* the walker *)
Lemma eval_unfold e :
  eval T O e =
  bind tick (fun _ =>
  if negb (mem (class_of e) (t_handled T)) then fail Unsupported else
  match e with
  | EConst v => ret v
  | EBinOp op l r =>
      bind (eval T O l) (fun a => bind (eval T O r) (fun b =>
      if lookup (t_operators T) op
      then bind (emit (PBin op a b)) (fun _ => of_opt (o_bin O op a b))
      else fail Unsupported))
  | EUnaryOp op x =>
      bind (eval T O x) (fun a =>
      if String.eqb op "Not" then bind (emit (PNot a)) (fun _ => ret (o_not O a))
      else if lookup (t_operators T) op
      then bind (emit (PUn op a)) (fun _ => of_opt (o_un O op a))
      else fail Unsupported)
  | ECall f args kws =>
      match f with
      | EName id =>
          if lookup (t_functions T) id then
            bind (eval_list (eval T O) args) (fun avs =>
            if has_starstar kws then fail BadCall else
            bind (eval_kws (eval T O) kws) (fun kvs =>
            if o_callable O id
            then bind (emit (PCall id avs kvs)) (fun _ => of_opt (o_call O id avs kvs))
            else fail BadCall))          (* an allow-listed constant is not callable (since 2db6888) *)
          else fail Unsupported
      | _ => fail BadCall
      end
  | EName id =>
      if lookup (t_functions T) id then bind (emit (PName id)) (fun _ => ret (o_name O id))
      else if String.eqb id "True" then ret (o_true O)
      else if String.eqb id "False" then ret (o_false O)
      else fail Unsupported
  | EList es =>
      bind (eval_list (eval T O) es) (fun vs => bind (emit (PMkList vs)) (fun _ => ret (o_list O vs)))
  | ETuple es =>
      bind (eval_list (eval T O) es) (fun vs => bind (emit (PMkTuple vs)) (fun _ => ret (o_tuple O vs)))
  | ECompare l ops comps =>
      bind (eval T O l) (fun a => cmp_chain T O (eval T O) comps ops a)
  | EBoolOp op vs =>
      if lookup (t_boolops T) op then bool_chain O (eval T O) (String.eqb op "Or") vs (o_none O)
      else fail Unsupported
  | EIfExp t b o =>
      bind (eval T O t) (fun c => if o_truthy O c then eval T O b else eval T O o)
  | EOther _ => fail Unsupported
  end).
Proof. destruct e; reflexivity. Qed.

Lemma spec_eval e : spec (size e) (eval T O e).
Proof.
  induction e using expr_ind'; rewrite eval_unfold;
    (change (size ?x) with (S (pred (size x))) at 1 || idtac).
  all: cbn [size pred];
    match goal with |- spec (S ?n) _ => change (S n) with (1 + n) end;
    (apply spec_bind; [apply spec_tick|]); intros _;
    (destruct (negb (mem _ (t_handled T))); [eapply spec_weaken; [apply spec_fail|lia]|]).
  - eapply spec_weaken; [apply spec_ret|lia].
  - apply spec_bind; [exact IHe1|]. intros a.
    replace (size e2) with (size e2 + 0) by lia.
    apply spec_bind; [exact IHe2|]. intros b.
    unfold lookup. destruct (mem op (keys (t_operators T))) eqn:Hop; [|apply spec_fail].
    change 0 with (0 + 0). apply spec_bind; [apply spec_emit; exact Hop|]. intros _. apply spec_of_opt.
  - replace (size e) with (size e + 0) by lia.
    apply spec_bind; [exact IHe|]. intros a.
    destruct (String.eqb op "Not").
    + change 0 with (0 + 0). apply spec_bind; [apply spec_emit; reflexivity|]. intros _. apply spec_ret.
    + unfold lookup. destruct (mem op (keys (t_operators T))) eqn:Hop; [|apply spec_fail].
      change 0 with (0 + 0). apply spec_bind; [apply spec_emit; exact Hop|]. intros _. apply spec_of_opt.
  - destruct e; try (eapply spec_weaken; [apply spec_fail|lia]).
    unfold lookup. destruct (mem id (keys (t_functions T))) eqn:Hid;
      [|eapply spec_weaken; [apply spec_fail|lia]].
    eapply spec_weaken with (n := list_sum (map size args) + (list_sum (map (fun kw => size (snd kw)) kws) + 0));
      [|cbn [size]; lia].
    apply spec_bind; [apply spec_eval_list; assumption|]. intros avs.
    destruct (has_starstar kws); [eapply spec_weaken; [apply spec_fail|lia]|].
    apply spec_bind; [apply spec_eval_kws; assumption|]. intros kvs.
    destruct (o_callable O id).
    + change 0 with (0 + 0). apply spec_bind; [apply spec_emit; exact Hid|]. intros _. apply spec_of_opt.
    + apply spec_fail.
  - unfold lookup. destruct (mem id (keys (t_functions T))) eqn:Hid.
    + change 0 with (0 + 0). apply spec_bind; [apply spec_emit; exact Hid|]. intros _. apply spec_ret.
    + destruct (String.eqb id "True"); [apply spec_ret|].
      destruct (String.eqb id "False"); [apply spec_ret|apply spec_fail].
  - replace (list_sum (map size es)) with (list_sum (map size es) + (0 + 0)) by lia.
    apply spec_bind; [apply spec_eval_list; assumption|]. intros vs.
    apply spec_bind; [apply spec_emit; reflexivity|]. intros _. apply spec_ret.
  - replace (list_sum (map size es)) with (list_sum (map size es) + (0 + 0)) by lia.
    apply spec_bind; [apply spec_eval_list; assumption|]. intros vs.
    apply spec_bind; [apply spec_emit; reflexivity|]. intros _. apply spec_ret.
  - apply spec_bind; [exact IHe|]. intros a. apply spec_cmp_chain. assumption.
  - unfold lookup. destruct (mem op (keys (t_boolops T))); [|eapply spec_weaken; [apply spec_fail|lia]].
    apply spec_bool_chain. assumption.
  - replace (size e1 + size e2 + size e3) with (size e1 + (size e2 + size e3)) by lia.
    apply spec_bind; [exact IHe1|]. intros c.
    apply spec_if; eapply spec_weaken; eauto; lia.
  - apply spec_fail.
Qed.

End Logic.

(* ---------------------------------------------------------------------- *)
(* statements used by Property.v *)

Lemma trace_confined_proof T O e :
  Forall (fun p => prim_ok T (fun _ => false) p = true) (fst (snd (run_eval T O e))).
Proof.
  unfold run_eval. destruct (spec_eval T (fun _ => false) O e ([], 0)) as [Hi _]. apply Hi. constructor.
Qed.

Lemma steps_bounded_proof T O e : snd (snd (run_eval T O e)) <= size e.
Proof. unfold run_eval. destruct (spec_eval T (fun _ => false) O e ([], 0)) as [_ Hs]. simpl in Hs. exact Hs. Qed.

Lemma forbidden_is_error_proof T O e s :
  mem (class_of e) (t_handled T) = false ->
  eval T O e s = (Err Unsupported, (fst s, S (snd s))).
Proof.
  intros H. rewrite eval_unfold. unfold bind, tick. rewrite H. reflexivity.
Qed.

(* tool pathway: the only tool that can run is the named, registered one *)
Lemma mem_find_tool reg id t : find_tool reg id = Some t -> mem id (map tl_name reg) = true.
Proof.
  unfold find_tool. induction reg as [|x reg IH]; simpl; [discriminate|].
  destruct (String.eqb (tl_name x) id) eqn:Hx.
  - intros _. apply String.eqb_eq in Hx. rewrite Hx, String.eqb_refl. reflexivity.
  - intros H. rewrite (IH H). apply orb_true_r.
Qed.

Definition tool_allowed (reg : list toolspec) (allowed : option (list cap)) (t : string) : bool :=
  match find_tool reg t with Some s => cap_ok allowed s | None => false end.

Lemma spec_tool_pathway T O reg allowed e :
  spec T (tool_allowed reg allowed) (size e) (tool_pathway T O reg allowed e).
Proof.
  destruct e; try (eapply spec_weaken; [apply spec_fail|lia]).
  destruct e; try (eapply spec_weaken; [apply spec_fail|lia]).
  simpl tool_pathway. destruct (find_tool reg id) as [t|] eqn:Hf; [|eapply spec_weaken; [apply spec_fail|lia]].
  destruct (cap_ok allowed t) eqn:Hcap; cbn [negb]; [|eapply spec_weaken; [apply spec_fail|lia]].
  eapply spec_weaken with (n := list_sum (map size args) + (list_sum (map (fun kw => size (snd kw)) kws) + (0 + 0)));
    [|cbn [size]; lia].
  apply spec_bind.
  { apply spec_eval_list. apply Forall_forall. intros x _. apply spec_eval. }
  intros avs. apply spec_bind.
  { apply spec_eval_kws_tool. apply Forall_forall. intros x _. apply spec_eval. }
  intros kvs. apply spec_bind; [|intros _; apply spec_of_opt].
  apply spec_emit. simpl. unfold tool_allowed. rewrite Hf. exact Hcap.
Qed.

Lemma tool_pathway_confined_proof T O reg allowed e :
  Forall (fun p => prim_ok T (tool_allowed reg allowed) p = true)
         (fst (snd (tool_pathway T O reg allowed e ([], 0)))).
Proof. destruct (spec_tool_pathway T O reg allowed e ([], 0)) as [Hi _]. apply Hi. constructor. Qed.

(* generated tables within the hand-written allow-list *)
Lemma mem_keys_within g s k :
  pairs_within g s = true -> mem k (keys g) = true -> mem k (keys s) = true.
Proof.
  unfold pairs_within. induction g as [|[a b] g IH]; simpl; [discriminate|].
  intros H. apply andb_true_iff in H. destruct H as [Ha Hg].
  destruct (String.eqb k a) eqn:Hk; simpl; [|intros Hm; apply IH; assumption].
  intros _. apply String.eqb_eq in Hk. subst k.
  clear - Ha. induction s as [|[c d] s IHs]; simpl in *; [discriminate|].
  apply orb_true_iff in Ha. destruct Ha as [Ha|Ha].
  - unfold pair_eqb in Ha. simpl in Ha. apply andb_true_iff in Ha. destruct Ha as [Ha _]. rewrite Ha. reflexivity.
  - rewrite (IHs Ha). apply orb_true_r.
Qed.

Definition spec_tables : tables :=
  mkTables spec_operators spec_comparisons spec_boolops spec_functions spec_classes.

Lemma prim_ok_within T toolp p :
  tables_within_spec T = true -> prim_ok T toolp p = true -> prim_ok spec_tables toolp p = true.
Proof.
  unfold tables_within_spec. intros H.
  repeat (apply andb_true_iff in H; destruct H as [H ?]).
  destruct p; cbn [prim_ok spec_tables t_operators t_comparisons t_functions]; auto; intros Hm;
    eapply mem_keys_within; eauto.
Qed.

(* metabolize never raises when the diagnostic print is guarded *)
Lemma metabolize_total_proof max_len T O reg allowed env :
  fst (metabolize true max_len T O reg allowed env) <> MRaised.
Proof.
  unfold metabolize.
  destruct (Z.ltb max_len (m_len env)); [simpl; discriminate|].
  destruct (m_ros_exceeded env); [simpl; discriminate|].
  destruct (if m_silent env then Returns tt else m_print env); [|simpl; discriminate].
  match goal with |- fst (match ?b with _ => _ end) <> _ => destruct b as [[v|e] s] end.
  - destruct (m_build env); simpl; discriminate.
  - simpl; discriminate.
Qed.
