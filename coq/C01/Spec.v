(* C01 — the allow-list as the property text gives it, written by hand: 9
   operators, 6 comparisons, and/or (not is built in), 36 pure functions and
   constants, 10 AST node classes.  The generated tables must stay within it. *)
From Coq Require Import ZArith List Bool String.
From Verif Require Import C01.Model.
Import ListNotations.
Open Scope string_scope.

Definition spec_operators : list (string * string) :=
  [("Add", "_bounded_add"); ("Sub", "operator.sub"); ("Mult", "_bounded_mul");
   ("Div", "operator.truediv"); ("FloorDiv", "operator.floordiv"); ("Mod", "_bounded_mod");
   ("Pow", "_bounded_pow"); ("USub", "operator.neg"); ("UAdd", "operator.pos")].

Definition spec_comparisons : list (string * string) :=
  [("Eq", "operator.eq"); ("NotEq", "operator.ne"); ("Lt", "operator.lt");
   ("LtE", "operator.le"); ("Gt", "operator.gt"); ("GtE", "operator.ge")].

Definition spec_boolops : list (string * string) := [("And", "all"); ("Or", "any")].

Definition spec_functions : list (string * string) :=
  [("abs", "abs"); ("round", "round"); ("min", "min"); ("max", "max"); ("sum", "sum");
   ("len", "len"); ("int", "int"); ("float", "float"); ("bool", "bool");
   ("sqrt", "math.sqrt"); ("sin", "math.sin"); ("cos", "math.cos"); ("tan", "math.tan");
   ("asin", "math.asin"); ("acos", "math.acos"); ("atan", "math.atan"); ("atan2", "math.atan2");
   ("sinh", "math.sinh"); ("cosh", "math.cosh"); ("tanh", "math.tanh");
   ("log", "math.log"); ("log10", "math.log10"); ("log2", "math.log2"); ("exp", "math.exp");
   ("pow", "math.pow"); ("ceil", "math.ceil"); ("floor", "math.floor"); ("trunc", "math.trunc");
   ("factorial", "_bounded_factorial"); ("gcd", "math.gcd"); ("degrees", "math.degrees");
   ("radians", "math.radians");
   ("pi", "math.pi"); ("e", "math.e"); ("tau", "math.tau"); ("inf", "math.inf")].

Definition spec_classes : list string :=
  ["Constant"; "BinOp"; "UnaryOp"; "Call"; "Name"; "List"; "Tuple"; "Compare"; "BoolOp"; "IfExp"].

(* AST classes the property names as never evaluated *)
Definition forbidden_classes : list string :=
  ["Attribute"; "Subscript"; "Lambda"; "ListComp"; "SetComp"; "DictComp"; "GeneratorExp";
   "JoinedStr"; "FormattedValue"; "NamedExpr"; "Await"; "Yield"; "YieldFrom"; "Starred";
   "Dict"; "Set"; "Slice"].

Definition pair_eqb (a b : string * string) : bool :=
  String.eqb (fst a) (fst b) && String.eqb (snd a) (snd b).
Definition pairs_within (g s : list (string * string)) : bool :=
  forallb (fun p => existsb (pair_eqb p) s) g.
Definition strs_within (g s : list string) : bool := forallb (fun x => mem x s) g.

Definition tables_within_spec (t : tables) : bool :=
  pairs_within (t_operators t) spec_operators &&
  pairs_within (t_comparisons t) spec_comparisons &&
  pairs_within (t_boolops t) spec_boolops &&
  pairs_within (t_functions t) spec_functions &&
  strs_within (t_handled t) spec_classes &&
  forallb (fun c => negb (mem c (t_handled t))) forbidden_classes.
