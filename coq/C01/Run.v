(* C01 — entry point of the correspondence check: the model instantiated with
   the tables regenerated from the current source and the oracle answers
   recorded from the implementation. Executable definitions only. *)
From Coq Require Import ZArith List Bool String.
From Verif Require Import C01.Model gen.Gen_C01.
Import ListNotations.
Open Scope Z_scope.

Definition case := (otab * list toolspec * option (list cap) * menv)%type.

Definition run_case (c : case) : list (list Z) :=
  let '(tab, reg, allowed, env) := c in
  let '(r, (tr, steps)) :=
    metabolize gen_print_guarded gen_max_len gen_tables (oracles_of tab) reg allowed env in
  [ match r with MSuccess v => 1 | MFailure => 0 | MRaised => 2 end;
    match r with MSuccess v => v | _ => -1 end;
    Z.of_nat steps ] :: trace_obs tr.
