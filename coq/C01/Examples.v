(* C01 — non-vacuity, the pre-repair behaviours, and the resource finding. *)
From Coq Require Import ZArith List Bool String Lia.
From Verif Require Import C01.Model C01.Spec C01.Proofs C01.Bounds.
Import ListNotations.
Open Scope Z_scope.
Open Scope string_scope.

Definition ex_O : oracles :=
  mkOracles (fun op a b => if String.eqb op "Add" then Some (a + b) else None)
            (fun _ _ => None) (fun a => a) (fun _ _ _ => None) (fun a => negb (Z.eqb a 0))
            (fun _ => 7) (fun f => String.eqb f "abs") (fun _ a _ => match a with [x] => Some (Z.abs x) | _ => None end)
            (fun _ => 0) (fun _ => 0) 1 0 2 (fun _ _ _ => Some 42).

(* a confined evaluation that really performs primitives *)
Example ex_trace :
  run_eval spec_tables ex_O (EBinOp "Add" (EConst 1) (ECall (EName "abs") [EConst (-3)] []))
  = (Ok 4, ([PCall "abs" [-3] []; PBin "Add" 1 3], 4%nat)).
Proof. vm_compute. reflexivity. Qed.

(* a forbidden node below an allowed one: error, nothing evaluated after it *)
Example ex_forbidden :
  fst (run_eval spec_tables ex_O (EBinOp "Add" (EOther "Attribute") (EConst 1))) = Err Unsupported.
Proof. vm_compute. reflexivity. Qed.

Definition env_surrogate : menv :=
  mkMenv 1 false None Glycolysis false Raises (Returns (EConst 1)) Raises true Raises (Returns tt).

(* pre-repair metabolize (print before the try) raised on a lone surrogate *)
Lemma c01_legacy_print_raises_refuted :
  fst (metabolize false 10000 spec_tables ex_O [] None env_surrogate) = MRaised.
Proof. vm_compute. reflexivity. Qed.
Example ex_print_guarded :
  fst (metabolize true 10000 spec_tables ex_O [] None env_surrogate) = MFailure.
Proof. vm_compute. reflexivity. Qed.

(* pre-repair digest_glucose raised when str() of the value raises *)
Lemma c01_legacy_digest_raises_refuted :
  digest_glucose false (MSuccess 5) Raises = MRaised.
Proof. reflexivity. Qed.

(* the resource finding: an expression with 5 AST nodes whose value, in
   Python's integer semantics, needs more than 10^9 bits.  Proved symbolically
   (9^(9^9) >= 8^(9^9) = 2^(3*9^9)); nothing of that size is ever computed. *)
Definition e_pow : expr := EBinOp "Pow" (EConst 9) (EBinOp "Pow" (EConst 9) (EConst 9)).

Lemma log2_pow9 n : 0 <= n -> 3 * n <= Z.log2 (9 ^ n).
Proof.
  intros Hn.
  assert (Hle : 2 ^ (3 * n) <= 9 ^ n).
  { rewrite Z.pow_mul_r by lia. change (2 ^ 3) with 8. apply Z.pow_le_mono_l. lia. }
  apply Z.log2_le_mono in Hle. rewrite Z.log2_pow2 in Hle by lia. exact Hle.
Qed.

(* why the primitives have to be size-bounded (fix a9a4a4e): before it, a 5-node expression made the
   walker compute a value of more than 10^9 bits *)
Lemma c01_cost_unbounded_refuted :
  size e_pow = 5%nat /\ 1000000000 <= Z.log2 (9 ^ (9 ^ 9)).
Proof.
  split; [reflexivity|].
  assert (H0 : 0 <= 9 ^ 9) by (apply Z.pow_nonneg; lia).
  assert (H1 : 1000000000 <= 3 * 9 ^ 9) by (vm_compute; discriminate).
  exact (Z.le_trans _ _ _ H1 (log2_pow9 (9 ^ 9) H0)).
Qed.

(* the guards of the bounded primitives: 2**100000 passes (and has 100001 bits <= 10^6), 9**(9**9) does not *)
Example ex_guard_pow_passes : Bounds.bits 2 * 100000 <= 1000000 /\ Bounds.bits (2 ^ 100000) <= 1000000.
Proof. split; [vm_compute; discriminate|]. apply Bounds.bounded_pow_result_bits; [lia|vm_compute; discriminate]. Qed.
Example ex_guard_pow_refuses : ~ (Bounds.bits 9 * (9 ^ 9) <= 1000000).
Proof. vm_compute. intro H. apply H. reflexivity. Qed.
