(* C01/C03 — obligations on the definitions regenerated from the source on
   every run (coq/gen/Gen_C01.v).  Finite data, decided by vm_compute. *)
From Coq Require Import ZArith List Bool String.
From Verif Require Import C01.Model C01.Spec gen.Gen_C01.
Import ListNotations.

Definition gen_walker_ok : bool :=
  tables_within_spec gen_tables &&
  forallb snd gen_branch_matches_template &&
  gen_dispatch_chain_ok && gen_fallthrough_raises &&
  Z.eqb gen_max_len 10000 &&
  forallb snd gen_function_matches_template &&
  gen_print_guarded && gen_str_guarded.

Definition gen_entry_ok : bool :=
  forallb (fun s : string * string * string * bool => snd s) gen_execute_sites &&
  negb (Nat.eqb (List.length gen_execute_sites) 0) &&
  forallb snd gen_function_matches_template.

Lemma gen_walker_ok_proof : gen_walker_ok = true.
Proof. vm_compute. reflexivity. Qed.

Lemma gen_entry_ok_proof : gen_entry_ok = true.
Proof. vm_compute. reflexivity. Qed.

Lemma gen_tables_within_spec : tables_within_spec gen_tables = true.
Proof. vm_compute. reflexivity. Qed.

Lemma gen_print_guarded_true : gen_print_guarded = true.
Proof. vm_compute. reflexivity. Qed.

Lemma gen_str_guarded_true : gen_str_guarded = true.
Proof. vm_compute. reflexivity. Qed.
