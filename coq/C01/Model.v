(* C01/C02/C03 — model of operon_ai/organelles/mitochondria.py: the safe
   evaluator's AST walker (_compute_node), the four pathways, metabolize, the
   tool registry and the tool entry points.  Executable definitions only.

   Values are opaque identifiers (Z).  Everything Python does *to* values —
   the allow-listed operators/functions, truthiness, list/tuple construction,
   registered tools — is an oracle: a Section variable in the theorems and a
   finite table recorded from the implementation in the correspondence check.
   What is modelled is what the property is about: WHICH primitives the walker
   performs, in which order, on which operands, and how errors propagate. *)
From Coq Require Import ZArith List Bool String.
Import ListNotations.
Open Scope Z_scope.
Open Scope string_scope.
Open Scope list_scope.

(* ---------------------------------------------------------------------- *)
(* Python expression AST: one constructor per class the walker knows about,
   every other ast.expr class of the running interpreter is [EOther cls].   *)

Inductive expr :=
| EConst (v : Z)
| EBinOp (op : string) (l r : expr)
| EUnaryOp (op : string) (e : expr)
| ECall (f : expr) (args : list expr) (kws : list (option string * expr))
| EName (id : string)
| EList (es : list expr)
| ETuple (es : list expr)
| ECompare (l : expr) (ops : list string) (comps : list expr)
| EBoolOp (op : string) (vs : list expr)
| EIfExp (t b o : expr)
| EOther (cls : string).

Definition class_of (e : expr) : string :=
  match e with
  | EConst _ => "Constant" | EBinOp _ _ _ => "BinOp" | EUnaryOp _ _ => "UnaryOp"
  | ECall _ _ _ => "Call" | EName _ => "Name" | EList _ => "List" | ETuple _ => "Tuple"
  | ECompare _ _ _ => "Compare" | EBoolOp _ _ => "BoolOp" | EIfExp _ _ _ => "IfExp"
  | EOther c => c
  end.

(* ---------------------------------------------------------------------- *)
(* tables regenerated from the source on every run (coq/gen/Gen_C01.v)      *)

Record tables := mkTables {
  t_operators : list (string * string);    (* ast op class -> dotted callable *)
  t_comparisons : list (string * string);
  t_boolops : list (string * string);
  t_functions : list (string * string);    (* name -> dotted callable / constant *)
  t_handled : list string                  (* classes _compute_node dispatches on *)
}.

Fixpoint mem (s : string) (l : list string) : bool :=
  match l with [] => false | x :: r => String.eqb s x || mem s r end.
Definition keys (t : list (string * string)) : list string := map fst t.

(* ---------------------------------------------------------------------- *)
(* primitives the walker performs (the trace)                               *)

Inductive prim :=
| PBin (op : string) (a b : Z)
| PUn (op : string) (a : Z)
| PNot (a : Z)
| PCmp (op : string) (a b : Z)
| PName (id : string)                       (* allow-list lookup *)
| PCall (f : string) (args : list Z) (kws : list (string * Z))
| PMkList (vs : list Z)
| PMkTuple (vs : list Z)
| PTool (t : string) (args : list Z) (kws : list (string * Z)).

Inductive err :=
| Unsupported        (* "Unsupported expression type" and unknown operator/function/variable *)
| PrimRaised         (* an allow-listed primitive or tool raised *)
| Refused            (* PermissionError: capability check *)
| BadCall.           (* complex call / keyword unpacking / tool-call format *)

Inductive res (A : Type) := Ok (a : A) | Err (e : err).
Arguments Ok {A} _.
Arguments Err {A} _.

(* oracles: what the host Python does with values *)
Record oracles := mkOracles {
  o_bin : string -> Z -> Z -> option Z;
  o_un : string -> Z -> option Z;
  o_not : Z -> Z;                                    (* value id of `not v` *)
  o_cmp : string -> Z -> Z -> option Z;
  o_truthy : Z -> bool;
  o_name : string -> Z;                              (* SAFE_FUNCTIONS[id] as a value *)
  o_callable : string -> bool;                       (* callable(SAFE_FUNCTIONS[id]) *)
  o_call : string -> list Z -> list (string * Z) -> option Z;
  o_list : list Z -> Z;
  o_tuple : list Z -> Z;
  o_true : Z; o_false : Z; o_none : Z;               (* ids of True / False / None *)
  o_tool : string -> list Z -> list (string * Z) -> option Z
}.

(* state threaded through the walk: the trace and a step counter *)
Definition st := (list prim * nat)%type.
Definition M (A : Type) := st -> res A * st.
Definition ret {A} (a : A) : M A := fun s => (Ok a, s).
Definition fail {A} (e : err) : M A := fun s => (Err e, s).
Definition bind {A B} (m : M A) (f : A -> M B) : M B :=
  fun s => match m s with
           | (Ok a, s') => f a s'
           | (Err e, s') => (Err e, s')
           end.
Definition emit (p : prim) : M unit := fun s => (Ok tt, (fst s ++ [p], snd s)).
Definition tick : M unit := fun s => (Ok tt, (fst s, S (snd s))).
Definition of_opt {A} (o : option A) : M A :=
  match o with Some a => ret a | None => fail PrimRaised end.

(* list combinators, parametrised by the evaluator so that [eval] below is a
   plain structural fixpoint and lemmas about them are stated once *)
Definition eval_list (ev : expr -> M Z) : list expr -> M (list Z) :=
  fix go (l : list expr) : M (list Z) :=
    match l with
    | [] => ret []
    | x :: xs => bind (ev x) (fun v => bind (go xs) (fun vs => ret (v :: vs)))
    end.

(* keyword arguments of an allow-listed call: all evaluated, names kept *)
Definition eval_kws (ev : expr -> M Z) : list (option string * expr) -> M (list (string * Z)) :=
  fix gok (l : list (option string * expr)) : M (list (string * Z)) :=
    match l with
    | [] => ret []
    | (k, x) :: xs =>
        bind (ev x) (fun v => bind (gok xs) (fun vs =>
        ret ((match k with Some n => n | None => "" end, v) :: vs)))
    end.

(* keyword arguments of a tool call: `if kw.arg` skips ** entries unevaluated *)
Definition eval_kws_tool (ev : expr -> M Z) : list (option string * expr) -> M (list (string * Z)) :=
  fix gok (l : list (option string * expr)) : M (list (string * Z)) :=
    match l with
    | [] => ret []
    | (Some k, x) :: xs => bind (ev x) (fun v => bind (gok xs) (fun vs => ret ((k, v) :: vs)))
    | (None, _) :: xs => gok xs
    end.

Definition has_starstar (kws : list (option string * expr)) : bool :=
  existsb (fun kw => match fst kw with None => true | Some _ => false end) kws.

Section Eval.
Variable T : tables.
Variable O : oracles.

Definition lookup (t : list (string * string)) (k : string) : bool := mem k (keys t).

Definition cmp_chain (ev : expr -> M Z) : list expr -> list string -> Z -> M Z :=
  fix chain (cs : list expr) (ops : list string) (left : Z) {struct cs} : M Z :=
    match cs, ops with
    | c :: cs', op :: ops' =>
        bind (ev c) (fun b =>
        if lookup (t_comparisons T) op then
          bind (emit (PCmp op left b)) (fun _ =>
          bind (of_opt (o_cmp O op left b)) (fun r =>
          if o_truthy O r then chain cs' ops' b else ret (o_false O)))
        else fail Unsupported)
    | _, _ => ret (o_true O)            (* zip stops at the shorter list *)
    end.

Definition bool_chain (ev : expr -> M Z) (is_or : bool) : list expr -> Z -> M Z :=
  fix go (l : list expr) (last : Z) : M Z :=
    match l with
    | [] => ret last
    | x :: xs =>
        bind (ev x) (fun v =>
        if Bool.eqb (o_truthy O v) is_or then ret v else go xs v)
    end.

Fixpoint eval (e : expr) : M Z :=
  bind tick (fun _ =>
  if negb (mem (class_of e) (t_handled T)) then fail Unsupported else
  match e with
  | EConst v => ret v
  | EBinOp op l r =>
      bind (eval l) (fun a => bind (eval r) (fun b =>
      if lookup (t_operators T) op
      then bind (emit (PBin op a b)) (fun _ => of_opt (o_bin O op a b))
      else fail Unsupported))
  | EUnaryOp op x =>
      bind (eval x) (fun a =>
      if String.eqb op "Not" then bind (emit (PNot a)) (fun _ => ret (o_not O a))
      else if lookup (t_operators T) op
      then bind (emit (PUn op a)) (fun _ => of_opt (o_un O op a))
      else fail Unsupported)
  | ECall f args kws =>
      match f with
      | EName id =>
          if lookup (t_functions T) id then
            bind (eval_list eval args) (fun avs =>
            if has_starstar kws then fail BadCall else
            bind (eval_kws eval kws) (fun kvs =>
            if o_callable O id
            then bind (emit (PCall id avs kvs)) (fun _ => of_opt (o_call O id avs kvs))
            else fail BadCall))          (* an allow-listed constant is not callable (since 2db6888) *)
          else fail Unsupported
      | _ => fail BadCall
      end
  | EName id =>
      if lookup (t_functions T) id then bind (emit (PName id)) (fun _ => ret (o_name O id))
      else if String.eqb id "True" then ret (o_true O)
      else if String.eqb id "False" then ret (o_false O)
      else fail Unsupported
  | EList es =>
      bind (eval_list eval es) (fun vs => bind (emit (PMkList vs)) (fun _ => ret (o_list O vs)))
  | ETuple es =>
      bind (eval_list eval es) (fun vs => bind (emit (PMkTuple vs)) (fun _ => ret (o_tuple O vs)))
  | ECompare l ops comps =>
      bind (eval l) (fun a => cmp_chain eval comps ops a)
  | EBoolOp op vs =>
      if lookup (t_boolops T) op then bool_chain eval (String.eqb op "Or") vs (o_none O)
      else fail Unsupported
  | EIfExp t b o =>
      bind (eval t) (fun c => if o_truthy O c then eval b else eval o)
  | EOther _ => fail Unsupported
  end).

Definition run_eval (e : expr) : res Z * st := eval e ([], 0%nat).

End Eval.

(* the logic pathway renames the Name nodes true/false to True/False *)
Fixpoint normalize_tf (e : expr) : expr :=
  match e with
  | EName id => if String.eqb id "true" then EName "True"
                else if String.eqb id "false" then EName "False" else e
  | EBinOp op l r => EBinOp op (normalize_tf l) (normalize_tf r)
  | EUnaryOp op x => EUnaryOp op (normalize_tf x)
  | ECall f args kws => ECall (normalize_tf f) (map normalize_tf args)
                              (map (fun kw => (fst kw, normalize_tf (snd kw))) kws)
  | EList es => EList (map normalize_tf es)
  | ETuple es => ETuple (map normalize_tf es)
  | ECompare l ops cs => ECompare (normalize_tf l) ops (map normalize_tf cs)
  | EBoolOp op vs => EBoolOp op (map normalize_tf vs)
  | EIfExp t b o => EIfExp (normalize_tf t) (normalize_tf b) (normalize_tf o)
  | _ => e
  end.

(* ---------------------------------------------------------------------- *)
(* size of an expression (number of AST nodes the walker can visit)         *)

Fixpoint size (e : expr) : nat :=
  S match e with
    | EBinOp _ l r => size l + size r
    | EUnaryOp _ x => size x
    | ECall f args kws => size f + list_sum (map size args) + list_sum (map (fun kw => size (snd kw)) kws)
    | EList es | ETuple es => list_sum (map size es)
    | ECompare l _ cs => size l + list_sum (map size cs)
    | EBoolOp _ vs => list_sum (map size vs)
    | EIfExp t b o => size t + size b + size o
    | _ => 0
    end%nat.

(* ---------------------------------------------------------------------- *)
(* tool registry, capability check, the three entry points (C03)            *)

Definition cap := Z.
Fixpoint subset (a b : list cap) : bool :=
  match a with [] => true | x :: r => existsb (Z.eqb x) b && subset r b end.

Record toolspec := mkTool { tl_name : string; tl_caps : list cap }.

Definition find_tool (reg : list toolspec) (n : string) : option toolspec :=
  find (fun t => String.eqb (tl_name t) n) reg.

(* _require_capabilities *)
Definition cap_ok (allowed : option (list cap)) (t : toolspec) : bool :=
  match allowed with None => true | Some al => subset (tl_caps t) al end.

Section Tools.
Variable T : tables.
Variable O : oracles.
Variable reg : list toolspec.            (* registered tools, latest registration of a name wins *)
Variable allowed : option (list cap).

(* _oxidative_phosphorylation on a parsed expression *)
Definition tool_pathway (e : expr) : M Z :=
  match e with
  | ECall (EName id) args kws =>
      match find_tool reg id with
      | None => fail Unsupported
      | Some t =>
          if negb (cap_ok allowed t) then fail Refused else
          bind (eval_list (eval T O) args) (fun avs =>
          bind (eval_kws_tool (eval T O) kws) (fun kvs =>
          bind (emit (PTool id avs kvs)) (fun _ => of_opt (o_tool O id avs kvs))))
      end
  | ECall _ _ _ => fail BadCall
  | _ => fail BadCall
  end.

(* execute_tool_call(ToolCall(name, arguments)) *)
Definition structured_call (name : string) (kws : list (string * Z)) : M Z :=
  match find_tool reg name with
  | None => fail Unsupported
  | Some t =>
      if negb (cap_ok allowed t) then fail Refused else
      bind (emit (PTool name [] kws)) (fun _ => of_opt (o_tool O name [] kws))
  end.

(* Nucleus.transcribe_with_tools: the provider is a script, one list of calls
   per round; every requested call goes through structured_call and a failing
   call does not stop the loop *)
Fixpoint tool_loop (rounds : list (list (string * list (string * Z)))) : M (list (res Z)) :=
  match rounds with
  | [] => ret []
  | calls :: rest =>
      bind ((fix go (l : list (string * list (string * Z))) : M (list (res Z)) :=
               match l with
               | [] => ret []
               | (n, kws) :: xs =>
                   fun s => let '(r, s') := structured_call n kws s in
                            match go xs s' with
                            | (Ok rs, s'') => (Ok (r :: rs), s'')
                            | (Err e, s'') => (Err e, s'')
                            end
               end) calls) (fun rs => bind (tool_loop rest) (fun rs' => ret (rs ++ rs')))
  end.

End Tools.

(* which tools ran, from a trace *)
Definition tools_invoked (tr : list prim) : list string :=
  flat_map (fun p => match p with PTool t _ _ => [t] | _ => [] end) tr.

(* ---------------------------------------------------------------------- *)
(* metabolize: guards, pathway dispatch, blanket handler (C01 totality)     *)

Inductive pathway := Glycolysis | Krebs | Oxidative | BetaOx.

(* what can happen in a step of metabolize that calls out of the walker *)
Inductive outcome (A : Type) := Returns (a : A) | Raises.
Arguments Returns {A} _.
Arguments Raises {A}.

Record menv := mkMenv {
  m_len : Z;                                  (* len(expression) *)
  m_ros_exceeded : bool;
  m_forced : option pathway;
  m_detect : pathway;                         (* _detect_pathway(expression): total on str *)
  m_silent : bool;
  m_print : outcome unit;                     (* the diagnostic print *)
  m_parse : outcome expr;                     (* ast.parse(expression, mode='eval') *)
  m_json : outcome Z;                         (* json.loads *)
  m_json_is_decode_error : bool;              (* ... raised JSONDecodeError (else another exception) *)
  m_literal : outcome Z;                      (* ast.literal_eval *)
  m_build : outcome unit                      (* efficiency arithmetic + ATP/MetabolicResult construction *)
}.

Inductive mresult :=
| MSuccess (v : Z)
| MFailure                                    (* a MetabolicResult with success=False *)
| MRaised.                                    (* an exception escapes metabolize *)

(* [print_guarded]: is the diagnostic print inside the try block?  Generated
   from the source; the repaired code has [true]. *)
Definition metabolize (print_guarded : bool) (max_len : Z)
           (T : tables) (O : oracles) (reg : list toolspec) (allowed : option (list cap))
           (env : menv) : mresult * st :=
  let s0 : st := ([], 0%nat) in
  if Z.ltb max_len (m_len env) then (MFailure, s0) else
  if m_ros_exceeded env then (MFailure, s0) else
  let p := match m_forced env with Some p => p | None => m_detect env end in
  let printed := if m_silent env then Returns tt else m_print env in
  match printed, print_guarded with
  | Raises, false => (MRaised, s0)
  | Raises, true => (MFailure, s0)
  | Returns _, _ =>
      let body : res Z * st :=
        match p with
        | Glycolysis =>
            match m_parse env with
            | Raises => (Err PrimRaised, s0)
            | Returns e => eval T O e s0
            end
        | Krebs =>
            match m_parse env with
            | Raises => (Err PrimRaised, s0)
            | Returns e =>
                match eval T O (normalize_tf e) s0 with
                | (Ok v, s) => (Ok (if o_truthy O v then o_true O else o_false O), s)
                | r => r
                end
            end
        | Oxidative =>
            match m_parse env with
            | Raises => (Err PrimRaised, s0)
            | Returns e => tool_pathway T O reg allowed e s0
            end
        | BetaOx =>
            match m_json env with
            | Returns v => (Ok v, s0)
            | Raises =>
                if negb (m_json_is_decode_error env) then (Err PrimRaised, s0) else
                match m_literal env with
                | Returns v => (Ok v, s0)
                | Raises => (Err PrimRaised, s0)
                end
            end
        end in
      match body with
      | (Err _, s) => (MFailure, s)
      | (Ok v, s) =>
          match m_build env with
          | Returns _ => (MSuccess v, s)
          | Raises => (MFailure, s)
          end
      end
  end.

(* digest_glucose: the legacy string API = metabolize on the math pathway
   followed by str() of the value; [str_guarded]: is that str() inside a
   try/except Exception?  (generated from the source; true since 3e76390) *)
Definition digest_glucose (str_guarded : bool) (r : mresult) (str_outcome : outcome unit) : mresult :=
  match r with
  | MSuccess v =>
      match str_outcome with
      | Returns _ => MSuccess v
      | Raises => if str_guarded then MFailure else MRaised
      end
  | other => other
  end.

(* ---------------------------------------------------------------------- *)
(* oracle tables recorded from the implementation (correspondence check)    *)

Record otab := mkOTab {
  ot_bin : list (string * Z * Z * option Z);
  ot_un : list (string * Z * option Z);
  ot_cmp : list (string * Z * Z * option Z);
  ot_call : list (string * list Z * list (string * Z) * option Z);
  ot_tool : list (string * list Z * list (string * Z) * option Z);
  ot_list : list (list Z * Z);
  ot_tuple : list (list Z * Z);
  ot_names : list (string * Z);
  ot_callable : list string;
  ot_truthy : list Z;
  ot_true : Z; ot_false : Z; ot_none : Z }.

Fixpoint zs_eqb (a b : list Z) : bool :=
  match a, b with
  | [], [] => true
  | x :: a', y :: b' => Z.eqb x y && zs_eqb a' b'
  | _, _ => false
  end.
Fixpoint kws_eqb (a b : list (string * Z)) : bool :=
  match a, b with
  | [], [] => true
  | (k, x) :: a', (k', y) :: b' => String.eqb k k' && Z.eqb x y && kws_eqb a' b'
  | _, _ => false
  end.

Definition oracles_of (t : otab) : oracles :=
  let truthy v := existsb (Z.eqb v) (ot_truthy t) in
  mkOracles
    (fun op a b => match find (fun e => let '(o, x, y, _) := e in String.eqb o op && Z.eqb x a && Z.eqb y b) (ot_bin t)
                   with Some (_, _, _, r) => r | None => None end)
    (fun op a => match find (fun e => let '(o, x, _) := e in String.eqb o op && Z.eqb x a) (ot_un t)
                 with Some (_, _, r) => r | None => None end)
    (fun a => if truthy a then ot_false t else ot_true t)
    (fun op a b => match find (fun e => let '(o, x, y, _) := e in String.eqb o op && Z.eqb x a && Z.eqb y b) (ot_cmp t)
                   with Some (_, _, _, r) => r | None => None end)
    truthy
    (fun id => match find (fun e => String.eqb (fst e) id) (ot_names t) with Some (_, v) => v | None => -1 end)
    (fun id => mem id (ot_callable t))
    (fun f a k => match find (fun e => let '(o, x, y, _) := e in String.eqb o f && zs_eqb x a && kws_eqb y k) (ot_call t)
                  with Some (_, _, _, r) => r | None => None end)
    (fun vs => match find (fun e => zs_eqb (fst e) vs) (ot_list t) with Some (_, v) => v | None => -2 end)
    (fun vs => match find (fun e => zs_eqb (fst e) vs) (ot_tuple t) with Some (_, v) => v | None => -3 end)
    (ot_true t) (ot_false t) (ot_none t)
    (fun f a k => match find (fun e => let '(o, x, y, _) := e in String.eqb o f && zs_eqb x a && kws_eqb y k) (ot_tool t)
                  with Some (_, _, _, r) => r | None => None end).

(* canonical observation of a trace: only the primitives the harness can log
   (operators, comparisons, calls, tools); names as code points *)
Definition str_codes (s : string) : list Z :=
  map (fun a => Z.of_nat (Ascii.nat_of_ascii a)) (list_ascii_of_string s).
Definition kws_codes (k : list (string * Z)) : list Z :=
  flat_map (fun e => Z.of_nat (String.length (fst e)) :: str_codes (fst e) ++ [snd e]) k.
Definition prim_obs (p : prim) : list (list Z) :=
  let row code name args kws :=
    [code :: Z.of_nat (String.length name) :: str_codes name ++ Z.of_nat (List.length args) :: args ++ kws_codes kws] in
  match p with
  | PBin op a b => row 0 op [a; b] []
  | PUn op a => row 1 op [a] []
  | PCmp op a b => row 3 op [a; b] []
  | PCall f a k => row 5 f a k
  | PTool t a k => row 8 t a k
  | _ => []
  end.
Definition trace_obs (tr : list prim) : list (list Z) := flat_map prim_obs tr.
