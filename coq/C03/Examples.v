(* C03 — non-vacuity: a history in which a tool IS invoked, one in which it is
   refused, and the pre-repair structured call (no capability check). *)
From Coq Require Import ZArith List Bool String.
From Verif Require Import C01.Model C01.Spec C01.Proofs C03.Model C03.Proofs.
Import ListNotations.
Open Scope Z_scope.
Open Scope string_scope.

Definition ex_O : oracles :=
  mkOracles (fun _ _ _ => None) (fun _ _ => None) (fun a => a) (fun _ _ _ => None) (fun _ => true)
            (fun _ => 0) (fun _ => false) (fun _ _ _ => None) (fun _ => 0) (fun _ => 0) 1 0 2
            (fun t _ _ => Some 42).

Definition wipe := mkTool "wipe" [3].

Example ex_allowed_runs :
  map h_trace (run_history true 10000 spec_tables ex_O (Some [3]) [] [HRegister wipe; HCall ("wipe", [])])
  = [[PTool "wipe" [] []]].
Proof. vm_compute. reflexivity. Qed.

Example ex_refused :
  map (fun r => (h_trace r, h_code r))
      (run_history true 10000 spec_tables ex_O (Some []) [] [HRegister wipe; HCall ("wipe", []); HLoop 3 [[("wipe", [])]]])
  = [([], 0); ([], 1)].
Proof. vm_compute. reflexivity. Qed.

(* pre-repair execute_tool_call: no capability check *)
Definition legacy_structured_call (O : oracles) (reg : list toolspec) (n : string) (kws : list (string * Z)) : M Z :=
  match find_tool reg n with
  | None => fail Unsupported
  | Some t => bind (emit (PTool n [] kws)) (fun _ => of_opt (o_tool O n [] kws))
  end.

Lemma c03_legacy_structured_call_refuted :
  exists O reg allowed n kws,
    ~ Forall (fun p => invoked_ok reg allowed p = true)
             (fst (snd (legacy_structured_call O reg n kws ([], 0%nat)))).
Proof.
  exists ex_O, [wipe], (Some []), "wipe", []. vm_compute. intros H. inversion H. discriminate.
Qed.
