(* C03 — histories of tool registration and tool-invoking calls over the
   three entry points (expression pathway via metabolize, execute_tool_call,
   Nucleus.transcribe_with_tools).  The entry points themselves are defined in
   C01/Model.v (tool_pathway, structured_call, tool_loop, metabolize).
   Executable definitions only. *)
From Coq Require Import ZArith List Bool String.
From Verif Require Import C01.Model.
Import ListNotations.
Open Scope Z_scope.
Open Scope list_scope.

Definition callreq := (string * list (string * Z))%type.

Inductive hop :=
| HRegister (t : toolspec)                       (* engulf_tool / register_function *)
| HExpr (env : menv)                             (* metabolize(expression[, pathway]) *)
| HCall (c : callreq)                            (* execute_tool_call(ToolCall) *)
| HLoop (max_iter : nat) (rounds : list (list callreq)).  (* transcribe_with_tools, scripted provider *)

(* the rounds the LLM loop really executes: at most max_iter, stopping at the
   first round in which the provider requests no tool *)
Fixpoint effective_rounds (n : nat) (rounds : list (list callreq)) : list (list callreq) :=
  match n, rounds with
  | S n', (c :: cs) :: rest => (c :: cs) :: effective_rounds n' rest
  | _, _ => []
  end.

Record hres := mkHres {
  h_reg : list toolspec;            (* the registry when the operation ran *)
  h_trace : list prim;
  h_code : Z                        (* 1 success / 0 failure / 2 raised; loops: number of failed calls *)
}.

Section History.
Variable print_guarded : bool.
Variable max_len : Z.
Variable T : tables.
Variable O : oracles.
Variable allowed : option (list cap).

Definition run_hop (reg : list toolspec) (h : hop) : list toolspec * option hres :=
  match h with
  | HRegister t => (t :: reg, None)              (* dict assignment: the newest entry wins in find_tool *)
  | HExpr env =>
      let '(r, (tr, _)) := metabolize print_guarded max_len T O reg allowed env in
      (reg, Some (mkHres reg tr (match r with MSuccess _ => 1 | MFailure => 0 | MRaised => 2 end)))
  | HCall (n, kws) =>
      let '(r, (tr, _)) := structured_call O reg allowed n kws ([], 0%nat) in
      (reg, Some (mkHres reg tr (match r with Ok _ => 1 | Err _ => 0 end)))
  | HLoop n rounds =>
      match reg with
      | [] => (reg, Some (mkHres reg [] 0))      (* no tool schemas: plain transcription *)
      | _ =>
          let '(r, (tr, _)) := tool_loop O reg allowed (effective_rounds n rounds) ([], 0%nat) in
          (reg, Some (mkHres reg tr
             (match r with
              | Ok rs => Z.of_nat (List.length (filter (fun x => match x with Err _ => true | Ok _ => false end) rs))
              | Err _ => -1 end)))
      end
  end.

Fixpoint run_history (reg : list toolspec) (hs : list hop) : list hres :=
  match hs with
  | [] => []
  | h :: rest =>
      let '(reg', out) := run_hop reg h in
      match out with Some r => r :: run_history reg' rest | None => run_history reg' rest end
  end.

End History.

(* the registered tool under that name passes the capability check *)
Definition tool_allowed_at (reg : list toolspec) (allowed : option (list cap)) (t : string) : bool :=
  match find_tool reg t with Some s => cap_ok allowed s | None => false end.

Definition invoked_ok (reg : list toolspec) (allowed : option (list cap)) (p : prim) : bool :=
  match p with PTool t _ _ => tool_allowed_at reg allowed t | _ => true end.
