(* C03 — property theorems only. *)
From Coq Require Import ZArith List Bool String.
From Verif Require Import C01.Model C01.Proofs C01.GenOk C03.Model C03.Proofs gen.Gen_C01.
Import ListNotations.

(* For every history of registrations and calls through the three entry
   points, every allowed-capability set (None = unrestricted, Some [] = empty)
   and every behaviour of parser, primitives, tools and provider script: each
   tool invocation in each operation's trace is of the tool registered under
   that name at that time, and that tool's required capabilities are a subset
   of the allowed set. *)
Theorem c03_least_privilege :
  forall print_guarded max_len T O allowed hs reg,
    Forall (fun r => Forall (fun p => invoked_ok (h_reg r) allowed p = true) (h_trace r))
           (run_history print_guarded max_len T O allowed reg hs).
Proof. exact least_privilege_proof. Qed.
Print Assumptions c03_least_privilege.

(* A refused structured call is a failure and leaves the trace untouched (the
   tool body did not run) ... *)
Theorem c03_refused_call_is_failure_without_effect :
  forall O reg allowed n kws s t,
    find_tool reg n = Some t -> cap_ok allowed t = false ->
    structured_call O reg allowed n kws s = (Err Refused, s).
Proof. exact structured_call_refused. Qed.
Print Assumptions c03_refused_call_is_failure_without_effect.

(* ... and so is a refused expression-pathway call: a failure result, nothing
   evaluated, not even the arguments. *)
Theorem c03_refused_expression_is_failure_without_effect :
  forall max_len T O reg allowed env n args kws t,
    find_tool reg n = Some t -> cap_ok allowed t = false ->
    Z.ltb max_len (m_len env) = false -> m_ros_exceeded env = false ->
    (m_silent env = true \/ m_print env = Returns tt) ->
    match m_forced env with Some p => p | None => m_detect env end = Oxidative ->
    m_parse env = Returns (ECall (EName n) args kws) ->
    metabolize true max_len T O reg allowed env = (MFailure, ([], 0%nat)).
Proof. exact refusal_expr_proof. Qed.
Print Assumptions c03_refused_expression_is_failure_without_effect.

(* every call site of a tool's execute() in the current source is dominated by
   the capability check (or delegates to execute_tool_call), and the functions
   the model transcribes still match their templates *)
Theorem Gen_C03_entry_ok : gen_entry_ok = true.
Proof. exact gen_entry_ok_proof. Qed.
Print Assumptions Gen_C03_entry_ok.
