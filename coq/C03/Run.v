(* C03 — correspondence entry point: a whole history against one engine. *)
From Coq Require Import ZArith List Bool String.
From Verif Require Import C01.Model C03.Model gen.Gen_C01.
Import ListNotations.
Open Scope Z_scope.

Definition case3 := (otab * option (list cap) * list hop)%type.

Definition run_case3 (c : case3) : list (list Z) :=
  let '(tab, allowed, hs) := c in
  flat_map (fun r => [-1; h_code r] :: trace_obs (h_trace r))
           (run_history gen_print_guarded gen_max_len gen_tables (oracles_of tab) allowed [] hs).
