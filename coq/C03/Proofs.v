(* C03 — least privilege over every entry point and every history. *)
From Coq Require Import ZArith List Bool String Lia.
From Verif Require Import C01.Model C01.Spec C01.Proofs C03.Model.
Import ListNotations.
Local Open Scope nat_scope.

Definition trace_ok reg allowed (tr : list prim) : Prop :=
  Forall (fun p => invoked_ok reg allowed p = true) tr.

Lemma prim_ok_invoked T reg allowed p :
  prim_ok T (tool_allowed reg allowed) p = true -> invoked_ok reg allowed p = true.
Proof. destruct p; simpl; auto. Qed.

Lemma prim_ok_none_invoked T reg allowed p :
  prim_ok T (fun _ => false) p = true -> invoked_ok reg allowed p = true.
Proof. destruct p; simpl; auto; discriminate. Qed.

(* execute_tool_call *)
Lemma structured_call_ok O reg allowed n kws s :
  trace_ok reg allowed (fst s) ->
  trace_ok reg allowed (fst (snd (structured_call O reg allowed n kws s))).
Proof.
  unfold structured_call, trace_ok. intros Hs.
  destruct (find_tool reg n) as [t|] eqn:Hf; [|exact Hs].
  destruct (cap_ok allowed t) eqn:Hc; cbn [negb]; [|exact Hs].
  unfold bind, emit. simpl.
  assert (Hnew : Forall (fun p => invoked_ok reg allowed p = true) (fst s ++ [PTool n [] kws])).
  { apply Forall_app. split; [exact Hs|]. constructor; [|constructor].
    simpl. unfold tool_allowed_at. rewrite Hf. exact Hc. }
  destruct (o_tool O n [] kws); simpl; exact Hnew.
Qed.

(* refusal: failure and no effect at all *)
Lemma structured_call_refused O reg allowed n kws s t :
  find_tool reg n = Some t -> cap_ok allowed t = false ->
  structured_call O reg allowed n kws s = (Err Refused, s).
Proof. intros Hf Hc. unfold structured_call. rewrite Hf, Hc. reflexivity. Qed.

Lemma tool_pathway_refused T O reg allowed n args kws s t :
  find_tool reg n = Some t -> cap_ok allowed t = false ->
  tool_pathway T O reg allowed (ECall (EName n) args kws) s = (Err Refused, s).
Proof. intros Hf Hc. simpl. rewrite Hf, Hc. reflexivity. Qed.

(* the LLM loop *)
Lemma tool_loop_calls_ok O reg allowed calls :
  forall s, trace_ok reg allowed (fst s) ->
  trace_ok reg allowed
    (fst (snd ((fix go (l : list (string * list (string * Z))) : M (list (res Z)) :=
               match l with
               | [] => ret []
               | (n, kws) :: xs =>
                   fun s => let '(r, s') := structured_call O reg allowed n kws s in
                            match go xs s' with
                            | (Ok rs, s'') => (Ok (r :: rs), s'')
                            | (Err e, s'') => (Err e, s'')
                            end
               end) calls s))).
Proof.
  induction calls as [|[n kws] xs IH]; intros s Hs; [exact Hs|].
  pose proof (structured_call_ok O reg allowed n kws s Hs) as H1.
  destruct (structured_call O reg allowed n kws s) as [r s'] eqn:Hsc. simpl in H1.
  specialize (IH s' H1).
  match goal with |- context [match ?g xs s' with _ => _ end] => destruct (g xs s') as [[rs|e] s''] end;
    simpl in *; exact IH.
Qed.

Lemma tool_loop_ok O reg allowed rounds :
  forall s, trace_ok reg allowed (fst s) ->
  trace_ok reg allowed (fst (snd (tool_loop O reg allowed rounds s))).
Proof.
  induction rounds as [|calls rest IH]; intros s Hs; [exact Hs|].
  cbn [tool_loop]. unfold bind at 1.
  pose proof (tool_loop_calls_ok O reg allowed calls s Hs) as H1.
  match goal with |- context [match ?g calls s with _ => _ end] => destruct (g calls s) as [[rs|e] s'] end;
    simpl in H1; [|exact H1].
  unfold bind. specialize (IH s' H1).
  destruct (tool_loop O reg allowed rest s') as [[rs'|e] s'']; simpl in *; exact IH.
Qed.

(* metabolize, any pathway *)
Lemma metabolize_ok pg max_len T O reg allowed env :
  trace_ok reg allowed (fst (snd (metabolize pg max_len T O reg allowed env))).
Proof.
  unfold metabolize, trace_ok.
  destruct (Z.ltb max_len (m_len env)); [constructor|].
  destruct (m_ros_exceeded env); [constructor|].
  destruct (if m_silent env then Returns tt else m_print env); [|destruct pg; constructor].
  assert (Hev : forall e, Forall (fun p => invoked_ok reg allowed p = true) (fst (snd (eval T O e ([], 0))))).
  { intros e. eapply Forall_impl; [|apply (trace_confined_proof T O e)].
    intros p. apply prim_ok_none_invoked. }
  assert (Htp : forall e, Forall (fun p => invoked_ok reg allowed p = true)
                                 (fst (snd (tool_pathway T O reg allowed e ([], 0))))).
  { intros e. eapply Forall_impl; [|apply (tool_pathway_confined_proof T O reg allowed e)].
    intros p. apply (prim_ok_invoked T). }
  destruct (match m_forced env with Some p => p | None => m_detect env end).
  - destruct (m_parse env) as [e|]; [|simpl; destruct (m_build env); constructor].
    specialize (Hev e). unfold run_eval in Hev. destruct (eval T O e ([], 0)) as [[v|k] s]; simpl in *;
      [destruct (m_build env)|]; exact Hev.
  - destruct (m_parse env) as [e|]; [|simpl; constructor].
    specialize (Hev (normalize_tf e)). destruct (eval T O (normalize_tf e) ([], 0)) as [[v|k] s]; simpl in *;
      [destruct (m_build env)|]; exact Hev.
  - destruct (m_parse env) as [e|]; [|simpl; constructor].
    specialize (Htp e). destruct (tool_pathway T O reg allowed e ([], 0)) as [[v|k] s]; simpl in *;
      [destruct (m_build env)|]; exact Htp.
  - destruct (m_json env); [destruct (m_build env); constructor|].
    destruct (negb (m_json_is_decode_error env)); [constructor|].
    destruct (m_literal env); [destruct (m_build env)|]; constructor.
Qed.

(* every history *)
Lemma least_privilege_proof pg max_len T O allowed hs :
  forall reg, Forall (fun r => trace_ok (h_reg r) allowed (h_trace r))
                     (run_history pg max_len T O allowed reg hs).
Proof.
  induction hs as [|h hs IH]; intros reg; [constructor|].
  cbn [run_history]. destruct h as [t|env|[n kws]|n rounds]; cbn [run_hop].
  - apply IH.
  - pose proof (metabolize_ok pg max_len T O reg allowed env) as H.
    destruct (metabolize pg max_len T O reg allowed env) as [r [tr k]]. constructor; [exact H|apply IH].
  - pose proof (structured_call_ok O reg allowed n kws ([], 0) (Forall_nil _)) as H.
    destruct (structured_call O reg allowed n kws ([], 0)) as [r [tr k]]. constructor; [exact H|apply IH].
  - destruct reg as [|t0 reg0]; [constructor; [constructor|apply IH]|].
    pose proof (tool_loop_ok O (t0 :: reg0) allowed (effective_rounds n rounds) ([], 0) (Forall_nil _)) as H.
    destruct (tool_loop O (t0 :: reg0) allowed (effective_rounds n rounds) ([], 0)) as [r [tr k]].
    constructor; [exact H|apply IH].
Qed.

(* a refused tool: every entry point reports failure and performs nothing *)
Lemma refusal_expr_proof max_len T O reg allowed env n args kws t :
  find_tool reg n = Some t -> cap_ok allowed t = false ->
  Z.ltb max_len (m_len env) = false -> m_ros_exceeded env = false ->
  (m_silent env = true \/ m_print env = Returns tt) ->
  match m_forced env with Some p => p | None => m_detect env end = Oxidative ->
  m_parse env = Returns (ECall (EName n) args kws) ->
  metabolize true max_len T O reg allowed env = (MFailure, ([], 0)).
Proof.
  intros Hf Hc Hl Hr Hp Hpw Hparse. unfold metabolize. rewrite Hl, Hr.
  assert (Hpr : (if m_silent env then Returns tt else m_print env) = Returns tt).
  { destruct Hp as [Hp|Hp]; [rewrite Hp; reflexivity|destruct (m_silent env); [reflexivity|exact Hp]]. }
  rewrite Hpr, Hpw, Hparse. rewrite (tool_pathway_refused T O reg allowed n args kws _ t Hf Hc). reflexivity.
Qed.
