(* C16 — lemmas about the model of wagent.py / wiring_runtime.py. *)
From Coq Require Import ZArith List Bool Arith Lia Permutation.
From Verif Require Import C16.Model.
Import ListNotations.
Local Open Scope nat_scope.

(* ---------------------------------------------------------------------- *)
(* notions used in the statements of Property.v                            *)

(* the property's connection rule: both ports exist, equal data types, and the
   source integrity is at least the destination's *)
Definition flows_ok (mods : list module) (w : wire) : Prop :=
  exists s d, out_port mods (w_sm w) (w_sp w) = Some s /\ in_port mods (w_dm w) (w_dp w) = Some d /\
              fst s = fst d /\ il_rank (snd d) <= il_rank (snd s).

(* a labelled value is admissible on a port: the port's data type, at least its integrity *)
Definition typed (t : tval) (p : ptype) : Prop :=
  tv_dt t = fst p /\ il_rank (snd p) <= il_rank (tv_il t).
(* a labelled value carries exactly the declared label *)
Definition exact (t : tval) (p : ptype) : Prop :=
  tv_dt t = fst p /\ tv_il t = snd p.
(* an input slot is filled with an admissible value *)
Definition slot_ok (o : option tval) (p : ptype) : Prop := exists t, o = Some t /\ typed t p.
(* an input row has one slot per declared port, every slot filled and admissible *)
Definition row_ok (r : row) (ports : list ptype) : Prop := Forall2 slot_ok r ports.

(* a occurs strictly before b in l *)
Definition before (a b : nat) (l : list nat) : Prop :=
  exists i j, i < j /\ nth_error l i = Some a /\ nth_error l j = Some b.

(* one or more wires lead from a to b *)
Inductive path (wires : list wire) : nat -> nat -> Prop :=
  | path_one w : In w wires -> path wires (w_sm w) (w_dm w)
  | path_step w c : In w wires -> path wires (w_dm w) c -> path wires (w_sm w) c.

(* the WiringErrors by which execute rejects what a handler returned *)
Definition output_rejection (e : err) : Prop := e = EPortsMismatch \/ e = EOutType \/ e = EOutInteg.

(* raises that a diagram assembled through connect can never produce: a wire naming a port
   that does not exist, and the executor's per-wire runtime type / integrity checks *)
Definition dead_err (e : err) : bool :=
  match e with EKeyError | ETypeMismatch | EIntegViol => true | _ => false end.

Definition has_handler (handlers : nat -> option handler) (m : nat) : bool := is_some (handlers m).

(* further notions of the statements are defined where their lemmas are: [ext_feeds], [ctopo] (handler
   invocations in topological order), [handlers_after], [execution_ok] (one executor over time) *)

(* ---------------------------------------------------------------------- *)
(* enums                                                                   *)

Lemma dt_eqb_eq a b : dt_eqb a b = true <-> a = b.
Proof.
  split.
  - destruct a, b; cbn; intros H; try reflexivity; discriminate H.
  - intros ->. destruct b; reflexivity.
Qed.

Lemma il_eqb_eq a b : il_eqb a b = true <-> a = b.
Proof.
  split.
  - destruct a, b; cbn; intros H; try reflexivity; discriminate H.
  - intros ->. destruct b; reflexivity.
Qed.

Lemma cap_eqb_eq a b : cap_eqb a b = true <-> a = b.
Proof.
  split.
  - destruct a, b; cbn; intros H; try reflexivity; discriminate H.
  - intros ->. destruct b; reflexivity.
Qed.

Lemma il_ltb_lt a b : il_ltb a b = true <-> il_rank a < il_rank b.
Proof. unfold il_ltb. apply Nat.ltb_lt. Qed.

Lemma il_ltb_ge a b : il_ltb a b = false <-> il_rank b <= il_rank a.
Proof. unfold il_ltb. apply Nat.ltb_ge. Qed.

(* ---------------------------------------------------------------------- *)
(* connect                                                                 *)

Lemma connect_check_none mods w : connect_check mods w = None <-> flows_ok mods w.
Proof.
  unfold connect_check, flows_ok.
  destruct (out_port mods (w_sm w) (w_sp w)) as [s|].
  2:{ split; [discriminate|]. intros (s & d & H & _). discriminate H. }
  destruct (in_port mods (w_dm w) (w_dp w)) as [d|].
  2:{ split; [discriminate|]. intros (s' & d & _ & H & _). discriminate H. }
  destruct (dt_eqb (fst s) (fst d)) eqn:Ht; cbn [negb].
  - apply dt_eqb_eq in Ht.
    destruct (il_ltb (snd s) (snd d)) eqn:Hi.
    + apply il_ltb_lt in Hi. split; [discriminate|].
      intros (s' & d' & Hs & Hd & _ & Hle). inversion Hs; inversion Hd; subst. lia.
    + apply il_ltb_ge in Hi. split; [|reflexivity]. intros _. exists s, d. auto.
  - split; [discriminate|].
    intros (s' & d' & Hs & Hd & He & _). inversion Hs; inversion Hd; subst.
    apply dt_eqb_eq in He. congruence.
Qed.

Lemma connect_iff_proof mods ws w :
  (flows_ok mods w -> connect mods ws w = inl (ws ++ [w])) /\
  (~ flows_ok mods w -> exists e, connect mods ws w = inr e) /\
  (forall ws', connect mods ws w = inl ws' -> ws' = ws ++ [w] /\ flows_ok mods w).
Proof.
  unfold connect. destruct (connect_check mods w) as [e|] eqn:Hc.
  - split; [|split].
    + intros H. apply connect_check_none in H. congruence.
    + intros _. eauto.
    + intros ws' H. discriminate H.
  - apply connect_check_none in Hc. split; [|split].
    + reflexivity.
    + intros H. contradiction.
    + intros ws' H. inversion H. auto.
Qed.

Lemma build_from_accepted mods attempts : forall ws,
  Forall (flows_ok mods) ws -> Forall (flows_ok mods) (build_from mods ws attempts).
Proof.
  induction attempts as [|w rest IH]; intros ws H; cbn [build_from]; auto.
  unfold connect. destruct (connect_check mods w) eqn:Hc; auto.
  apply IH. apply Forall_app. split; auto. constructor; auto. apply connect_check_none; auto.
Qed.

Lemma build_accepted mods attempts : Forall (flows_ok mods) (build mods attempts).
Proof. apply build_from_accepted. constructor. Qed.

(* the diagram holds exactly the accepted attempts, in order *)
Lemma build_from_filter mods attempts : forall ws,
  build_from mods ws attempts =
  ws ++ filter (fun w => match connect_check mods w with None => true | Some _ => false end) attempts.
Proof.
  induction attempts as [|w rest IH]; intros ws; cbn [build_from filter].
  - now rewrite app_nil_r.
  - unfold connect. destruct (connect_check mods w); rewrite IH; auto.
    now rewrite <- app_assoc.
Qed.

(* ---------------------------------------------------------------------- *)
(* capabilities                                                            *)

Lemma cap_mem_In c l : cap_mem c l = true <-> In c l.
Proof.
  unfold cap_mem. rewrite existsb_exists. split.
  - intros (x & Hx & He). apply cap_eqb_eq in He. now subst.
  - intros H. exists c. split; auto. now apply cap_eqb_eq.
Qed.

Lemma cap_union_In l : forall acc c, In c (cap_union acc l) <-> In c acc \/ In c l.
Proof.
  unfold cap_union. induction l as [|x l IH]; intros acc c; cbn [fold_left].
  - cbn [In]. tauto.
  - rewrite IH. destruct (cap_mem x acc) eqn:Hm.
    + apply cap_mem_In in Hm. cbn [In]. split; [tauto|]. intros [H|[H|H]]; subst; auto.
    + rewrite in_app_iff. cbn [In]. tauto.
Qed.

Lemma required_caps_from mods : forall acc c,
  In c (fold_left (fun a md => cap_union a (m_caps md)) mods acc) <->
  In c acc \/ exists md, In md mods /\ In c (m_caps md).
Proof.
  induction mods as [|md mods IH]; intros acc c; cbn [fold_left].
  - split; [auto|]. intros [H|(md & [] & _)]. auto.
  - rewrite IH, cap_union_In. split.
    + intros [[H|H]|(md' & H1 & H2)]; auto.
      * right. exists md. cbn [In]. auto.
      * right. exists md'. cbn [In]. auto.
    + intros [H|(md' & [H1|H1] & H2)]; subst; auto. right. eauto.
Qed.

Lemma capabilities_union_proof mods c :
  In c (required_caps mods) <-> exists md, In md mods /\ In c (m_caps md).
Proof.
  unfold required_caps. rewrite required_caps_from. cbn [In]. tauto.
Qed.

Lemma NoDup_snoc {A} (l : list A) x : NoDup l -> ~ In x l -> NoDup (l ++ [x]).
Proof.
  induction l as [|y l IH]; intros H Hn; cbn.
  - constructor; auto.
  - inversion H; subst. constructor.
    + rewrite in_app_iff. cbn. intros [H'|[H'|[]]]; subst; [auto|]. apply Hn. now left.
    + apply IH; auto. intros H'. apply Hn. now right.
Qed.

Lemma cap_union_NoDup l : forall acc, NoDup acc -> NoDup (cap_union acc l).
Proof.
  unfold cap_union. induction l as [|x l IH]; intros acc H; cbn [fold_left]; auto.
  apply IH. destruct (cap_mem x acc) eqn:Hm; auto.
  apply NoDup_snoc; auto. intros Hin. apply cap_mem_In in Hin. congruence.
Qed.

Lemma required_caps_NoDup mods : NoDup (required_caps mods).
Proof.
  unfold required_caps. generalize (@NoDup_nil cap). generalize (@nil cap).
  induction mods as [|md mods IH]; intros acc H; cbn [fold_left]; auto.
  apply IH. now apply cap_union_NoDup.
Qed.

Lemma capabilities_union_full mods :
  (forall c, In c (required_caps mods) <-> exists md, In md mods /\ In c (m_caps md)) /\
  NoDup (required_caps mods).
Proof. split; [intros c; apply capabilities_union_proof | apply required_caps_NoDup]. Qed.

(* ---------------------------------------------------------------------- *)
(* list utilities                                                          *)

Lemma nth_error_set_nth {A} (l : list A) : forall n x k,
  nth_error (set_nth l n x) k =
  if Nat.eqb k n then match nth_error l n with Some _ => Some x | None => None end
  else nth_error l k.
Proof.
  induction l as [|h t IH]; intros n x k.
  - destruct n, k; cbn; try reflexivity; destruct (Nat.eqb k n); reflexivity.
  - destruct n as [|n], k as [|k]; cbn; auto.
Qed.

Lemma length_set_nth {A} (l : list A) : forall n x, length (set_nth l n x) = length l.
Proof. induction l as [|h t IH]; intros [|n] x; cbn; auto. Qed.

Lemma Forall2_of_nth {A B} (R : A -> B -> Prop) : forall l l',
  length l = length l' ->
  (forall n x y, nth_error l n = Some x -> nth_error l' n = Some y -> R x y) ->
  Forall2 R l l'.
Proof.
  induction l as [|x l IH]; intros [|y l'] Hlen H; cbn in Hlen; try discriminate; constructor.
  - apply (H 0); reflexivity.
  - apply IH; [lia|]. intros n a b Ha Hb. apply (H (S n)); auto.
Qed.

Lemma Forall2_nth_l {A B} (R : A -> B -> Prop) l l' :
  Forall2 R l l' -> forall n x, nth_error l n = Some x -> exists y, nth_error l' n = Some y /\ R x y.
Proof.
  induction 1 as [|a b l l' Hab _ IH]; intros [|n] x Hn; cbn in *; try discriminate.
  - inversion Hn; subst. eauto.
  - eauto.
Qed.

Lemma Forall2_nth_r {A B} (R : A -> B -> Prop) l l' :
  Forall2 R l l' -> forall n y, nth_error l' n = Some y -> exists x, nth_error l n = Some x /\ R x y.
Proof.
  induction 1 as [|a b l l' Hab _ IH]; intros [|n] y Hn; cbn in *; try discriminate.
  - inversion Hn; subst. eauto.
  - eauto.
Qed.

Lemma Forall2_length' {A B} (R : A -> B -> Prop) l l' : Forall2 R l l' -> length l = length l'.
Proof. induction 1; cbn; auto. Qed.

Lemma in_combine_seq {A} (l : list A) : forall s i x,
  In (i, x) (combine (seq s (length l)) l) <-> s <= i /\ nth_error l (i - s) = Some x.
Proof.
  induction l as [|y l IH]; intros s i x; cbn [length seq combine In].
  - split; [tauto|]. intros [_ H]. destruct (i - s); discriminate H.
  - rewrite IH. split.
    + intros [H|[H1 H2]].
      * inversion H; subst. rewrite Nat.sub_diag. cbn. auto.
      * split; [lia|]. replace (i - s) with (S (i - S s)) by lia. exact H2.
    + intros [H1 H2]. destruct (Nat.eq_dec i s) as [->|Hne].
      * rewrite Nat.sub_diag in H2. cbn in H2. inversion H2. auto.
      * right. split; [lia|]. replace (i - s) with (S (i - S s)) in H2 by lia. exact H2.
Qed.

Lemma in_indexed {A} (l : list A) i x : In (i, x) (indexed l) <-> nth_error l i = Some x.
Proof.
  unfold indexed. rewrite in_combine_seq. rewrite Nat.sub_0_r. split; [tauto|]. intros H. split; [lia|auto].
Qed.

Lemma first_err_none {A} (f : A -> option err) l :
  first_err f l = None <-> forall x, In x l -> f x = None.
Proof.
  induction l as [|y l IH]; cbn [first_err In].
  - split; [tauto|auto].
  - destruct (f y) eqn:Hy.
    + split; [discriminate|]. intros H. rewrite <- Hy. apply H. auto.
    + rewrite IH. split.
      * intros H x [<-|Hx]; auto.
      * intros H x Hx. apply H. auto.
Qed.

Lemma first_err_some {A} (f : A -> option err) l e :
  first_err f l = Some e -> exists x, In x l /\ f x = Some e.
Proof.
  induction l as [|y l IH]; cbn [first_err In]; [discriminate|].
  destruct (f y) eqn:Hy.
  - intros H. inversion H; subst. eauto.
  - intros H. destruct (IH H) as (x & Hx & Hf). eauto.
Qed.

Lemma existsb_eqb_In m l : existsb (Nat.eqb m) l = true <-> In m l.
Proof.
  rewrite existsb_exists. split.
  - intros (x & Hx & He). apply Nat.eqb_eq in He. now subst.
  - intros H. exists m. split; auto. apply Nat.eqb_refl.
Qed.

(* before *)
Lemma before_app a b l x : before a b l -> before a b (l ++ [x]).
Proof.
  intros (i & j & Hij & Hi & Hj). exists i, j. split; auto.
  split; rewrite nth_error_app1; auto; apply nth_error_Some; congruence.
Qed.

Lemma before_last a l x : In a l -> before a x (l ++ [x]).
Proof.
  intros H. apply In_nth_error in H. destruct H as (i & Hi).
  assert (i < length l) by (apply nth_error_Some; congruence).
  exists i, (length l). split; auto. split.
  - rewrite nth_error_app1; auto.
  - rewrite nth_error_app2; auto. rewrite Nat.sub_diag. reflexivity.
Qed.

Lemma before_trans a b c l : NoDup l -> before a b l -> before b c l -> before a c l.
Proof.
  intros Hnd (i & j & Hij & Hi & Hj) (j' & k & Hjk & Hj' & Hk).
  assert (j = j').
  { rewrite NoDup_nth_error in Hnd. apply Hnd; [apply nth_error_Some|]; congruence. }
  subst. exists i, k. split; [lia|auto].
Qed.

Lemma before_irrefl a l : NoDup l -> ~ before a a l.
Proof.
  intros Hnd (i & j & Hij & Hi & Hj).
  assert (i = j).
  { rewrite NoDup_nth_error in Hnd. apply Hnd; [apply nth_error_Some|]; congruence. }
  lia.
Qed.

(* ---------------------------------------------------------------------- *)
(* module_inputs: get / put                                                *)

Lemma get_put_spec mi m p v a b t :
  get (put mi m p v) a b = Some t -> (a = m /\ b = p /\ t = v) \/ get mi a b = Some t.
Proof.
  unfold put. destruct (nth_error mi m) as [r|] eqn:Hm; [|auto].
  unfold get. rewrite nth_error_set_nth.
  destruct (Nat.eqb a m) eqn:Ea; [|auto].
  apply Nat.eqb_eq in Ea. subst a. rewrite Hm. rewrite nth_error_set_nth.
  destruct (Nat.eqb b p) eqn:Eb; [|auto].
  apply Nat.eqb_eq in Eb. subst b. destruct (nth_error r p); [|discriminate].
  intros H. inversion H. auto.
Qed.

Lemma get_put_cases mi m p v a b :
  get (put mi m p v) a b = Some v \/ get (put mi m p v) a b = get mi a b.
Proof.
  unfold put. destruct (nth_error mi m) as [r|] eqn:Hm; [|auto].
  unfold get. rewrite nth_error_set_nth.
  destruct (Nat.eqb a m) eqn:Ea; [|auto].
  apply Nat.eqb_eq in Ea. subst a. rewrite Hm. rewrite nth_error_set_nth.
  destruct (Nat.eqb b p) eqn:Eb; [|auto].
  apply Nat.eqb_eq in Eb. subst b. destruct (nth_error r p); auto.
Qed.

Lemma get_put_mono mi m p v a b : get mi a b <> None -> get (put mi m p v) a b <> None.
Proof.
  intros H. destruct (get_put_cases mi m p v a b) as [E|E]; rewrite E; [discriminate|auto].
Qed.

Lemma get_put_none mi m p v a b : get (put mi m p v) a b = None -> get mi a b = None.
Proof.
  intros H. destruct (get mi a b) eqn:E; auto.
  exfalso. apply (get_put_mono mi m p v a b); [congruence|auto].
Qed.

Lemma get_nth mi m p r : nth_error mi m = Some r -> get mi m p = match nth_error r p with Some o => o | None => None end.
Proof. unfold get. now intros ->. Qed.

Lemma get_init mods m p : get (init_inputs mods) m p = None.
Proof.
  unfold get, init_inputs. rewrite nth_error_map.
  destruct (nth_error mods m); cbn; auto.
  destruct (nth_error (repeat None (length (m_in m0))) p) as [o|] eqn:E; auto.
  apply nth_error_In in E. now apply repeat_spec in E.
Qed.

(* ---------------------------------------------------------------------- *)
(* coercions                                                               *)

Lemma coerce_input_typed v p t : coerce_input v p = inr t -> typed t p.
Proof.
  unfold coerce_input, typed. destruct v as [x|t'|cd ci x].
  - intros H. inversion H. cbn. auto.
  - destruct (dt_eqb (tv_dt t') (fst p)) eqn:Ht; cbn [negb]; [|discriminate].
    destruct (il_ltb (tv_il t') (snd p)) eqn:Hi; [discriminate|].
    intros H. inversion H; subst. apply dt_eqb_eq in Ht. apply il_ltb_ge in Hi. auto.
  - intros H. inversion H. cbn. auto.
Qed.

Lemma coerce_input_err v p e : coerce_input v p = inl e -> e = EInType \/ e = EInInteg.
Proof.
  unfold coerce_input. destruct v as [x|t'|cd ci x]; [discriminate| |discriminate].
  destruct (negb _); [intros H; inversion H; auto|].
  destruct (il_ltb _ _); intros H; inversion H; auto.
Qed.

Lemma coerce_output_exact v p t : coerce_output v p = inr t -> exact t p.
Proof.
  unfold coerce_output, exact. destruct v as [x|t'|cd ci x].
  - intros H. inversion H. cbn. auto.
  - destruct (dt_eqb (tv_dt t') (fst p)) eqn:Ht; cbn [negb]; [|discriminate].
    destruct (il_eqb (tv_il t') (snd p)) eqn:Hi; cbn [negb]; [|discriminate].
    intros H. inversion H; subst. apply dt_eqb_eq in Ht. apply il_eqb_eq in Hi. auto.
  - intros H. inversion H. cbn. auto.
Qed.

Lemma coerce_output_err v p e : coerce_output v p = inl e -> e = EOutType \/ e = EOutInteg.
Proof.
  unfold coerce_output. destruct v as [x|t'|cd ci x]; [discriminate| |discriminate].
  destruct (negb _); [intros H; inversion H; auto|].
  destruct (negb _); intros H; inversion H; auto.
Qed.

Lemma coerce_output_mislabel t p : ~ exact t p -> exists e, coerce_output (Lab t) p = inl e.
Proof.
  unfold coerce_output, exact. intros H.
  destruct (dt_eqb (tv_dt t) (fst p)) eqn:Ht; cbn [negb]; [|eauto].
  destruct (il_eqb (tv_il t) (snd p)) eqn:Hi; cbn [negb]; [|eauto].
  exfalso. apply H. apply dt_eqb_eq in Ht. apply il_eqb_eq in Hi. auto.
Qed.

(* _coerce_output judges a TypedValue by its label and the declared port alone: accepted exactly
   when the label is the declared one, and then handed on as it is (never relabelled) *)
Lemma labelled_output_iff_exact t p :
  (exact t p -> coerce_output (Lab t) p = inr t) /\
  (~ exact t p -> coerce_output (Lab t) p = inl EOutType \/ coerce_output (Lab t) p = inl EOutInteg) /\
  (forall t', coerce_output (Lab t) p = inr t' -> t' = t /\ exact t p).
Proof.
  split; [|split].
  - intros [H1 H2]. unfold coerce_output.
    apply dt_eqb_eq in H1. apply il_eqb_eq in H2. rewrite H1, H2. reflexivity.
  - intros H. destruct (coerce_output_mislabel t p H) as (e & He). rewrite He.
    destruct (coerce_output_err _ _ _ He) as [->| ->]; auto.
  - intros t' H. pose proof (coerce_output_exact _ _ _ H) as Hx. unfold coerce_output in H.
    destruct (negb (dt_eqb (tv_dt t) (fst p))); [discriminate|].
    destruct (negb (il_eqb (tv_il t) (snd p))); [discriminate|]. inversion H; subst t'. auto.
Qed.

Lemma coerce_outputs_exact kv ports : forall j ts,
  coerce_outputs kv j ports = inr ts -> Forall2 exact ts ports.
Proof.
  induction ports as [|p ps IH]; intros j ts; cbn [coerce_outputs].
  - intros H. inversion H. constructor.
  - destruct (lookup j kv) as [v|]; [|discriminate].
    destruct (coerce_output v p) as [e|t] eqn:Hc; [discriminate|].
    destruct (coerce_outputs kv (S j) ps) as [e|ts'] eqn:Hr; [discriminate|].
    intros H. inversion H; subst. constructor; eauto. eapply coerce_output_exact; eauto.
Qed.

Lemma coerce_outputs_err kv ports : forall j e,
  coerce_outputs kv j ports = inl e ->
  (e = EOutType \/ e = EOutInteg) \/ (e = EKeyError /\ exists i, i < length ports /\ lookup (j + i) kv = None).
Proof.
  induction ports as [|p ps IH]; intros j e; cbn [coerce_outputs]; [discriminate|].
  destruct (lookup j kv) as [v|] eqn:Hl.
  2:{ intros H. inversion H. right. split; auto. exists 0. cbn. rewrite Nat.add_0_r. split; [lia|auto]. }
  destruct (coerce_output v p) as [e'|t] eqn:Hc.
  { intros H. inversion H; subst. left. eapply coerce_output_err; eauto. }
  destruct (coerce_outputs kv (S j) ps) as [e'|ts'] eqn:Hr; [|discriminate].
  intros H. inversion H; subst. destruct (IH _ _ Hr) as [H'|(H1 & i & Hi & Hl')]; auto.
  right. split; auto. exists (S i). cbn. split; [lia|]. now rewrite Nat.add_succ_r.
Qed.

Lemma coerce_outputs_mislabel kv ports : forall j i p t,
  nth_error ports i = Some p -> lookup (j + i) kv = Some (Lab t) -> ~ exact t p ->
  exists e, coerce_outputs kv j ports = inl e.
Proof.
  induction ports as [|q ps IH]; intros j i p t Hn Hl Hx; [destruct i; discriminate|].
  cbn [coerce_outputs]. destruct i as [|i]; cbn in Hn.
  - inversion Hn; subst. rewrite Nat.add_0_r in Hl. rewrite Hl.
    destruct (coerce_output_mislabel _ _ Hx) as (e & He). rewrite He. eauto.
  - destruct (lookup j kv) as [v|]; [|eauto].
    destruct (coerce_output v q); [eauto|].
    rewrite Nat.add_succ_r in Hl. destruct (IH (S j) i p t Hn Hl Hx) as (e & He).
    rewrite He. eauto.
Qed.

Lemma keys_ok_lookup kv n : keys_ok kv n = true -> forall j, j < n -> lookup j kv <> None.
Proof.
  unfold keys_ok. intros H j Hj. apply andb_prop in H. destruct H as [_ H].
  rewrite forallb_forall in H. specialize (H j). rewrite in_seq in H.
  destruct (lookup j kv); [discriminate|]. cbn in H. assert (false = true) by (apply H; lia). discriminate.
Qed.

Lemma call_outputs_exact h md r outs : call_outputs h md r = inr outs -> Forall2 exact outs (m_out md).
Proof.
  unfold call_outputs. destruct (h r); [discriminate|].
  destruct (keys_ok _ _); [|discriminate]. apply coerce_outputs_exact.
Qed.

Lemma call_outputs_err h md r e : call_outputs h md r = inl e ->
  (e = EHandlerRaised /\ h r = HRaise) \/ output_rejection e.
Proof.
  unfold call_outputs, output_rejection. destruct (h r) as [|kv]; [intros H; inversion H; auto|].
  destruct (keys_ok kv (length (m_out md))) eqn:Hk; [|intros H; inversion H; auto].
  intros H. apply coerce_outputs_err in H. destruct H as [[H|H]|(_ & i & Hi & Hl)]; auto.
  exfalso. cbn in Hl. exact (keys_ok_lookup _ _ Hk i Hi Hl).
Qed.

Lemma call_outputs_mislabel h md r kv j p t :
  h r = HRet kv -> nth_error (m_out md) j = Some p -> lookup j kv = Some (Lab t) -> ~ exact t p ->
  exists e, call_outputs h md r = inl e /\ output_rejection e.
Proof.
  intros Hh Hn Hl Hx.
  destruct (call_outputs h md r) as [e|outs] eqn:Hc.
  - exists e. split; auto. apply call_outputs_err in Hc. destruct Hc as [[_ H]|H]; auto. congruence.
  - exfalso. unfold call_outputs in Hc. rewrite Hh in Hc.
    destruct (keys_ok _ _); [|discriminate].
    destruct (coerce_outputs_mislabel kv (m_out md) 0 j p t Hn Hl Hx) as (e & He). congruence.
Qed.

(* ---------------------------------------------------------------------- *)
(* the executor                                                            *)

Section Exec.
Variable mods : list module.
Variable wires : list wire.
Variable handlers : nat -> option handler.
Variable enforce : bool.
(* every wire of the diagram went through connect *)
Hypothesis Hacc : Forall (flows_ok mods) wires.

Definition shape (mi : minputs) : Prop :=
  length mi = length mods /\
  forall m r md, nth_error mi m = Some r -> nth_error mods m = Some md -> length r = length (m_in md).

Definition typed_mi (mi : minputs) : Prop :=
  forall m p t, get mi m p = Some t -> exists pt, in_port mods m p = Some pt /\ typed t pt.

Lemma put_shape mi m p v : shape mi -> shape (put mi m p v).
Proof.
  intros [Hl Hr]. unfold put. destruct (nth_error mi m) as [r|] eqn:Hm; [|split; auto].
  split.
  - now rewrite length_set_nth.
  - intros a r' md. rewrite nth_error_set_nth. destruct (Nat.eqb a m) eqn:Ea.
    + apply Nat.eqb_eq in Ea. subst a. rewrite Hm. intros H Hmd. inversion H; subst.
      rewrite length_set_nth. eauto.
    + eauto.
Qed.

Lemma put_typed mi m p v pt :
  typed_mi mi -> in_port mods m p = Some pt -> typed v pt -> typed_mi (put mi m p v).
Proof.
  intros H Hp Hv a b t Hg. apply get_put_spec in Hg. destruct Hg as [(-> & -> & ->)|Hg]; eauto.
Qed.

Lemma init_shape : shape (init_inputs mods).
Proof.
  unfold init_inputs. split.
  - apply map_length.
  - intros m r md. rewrite nth_error_map. intros H Hmd. rewrite Hmd in H. cbn in H.
    inversion H. apply repeat_length.
Qed.

Lemma init_typed : typed_mi (init_inputs mods).
Proof. intros m p t H. rewrite get_init in H. discriminate. Qed.

Definition ext_err (e : err) : Prop :=
  e = EUnknownModule \/ e = EUnknownPort \/ e = EInType \/ e = EInInteg.

Lemma ext_ports_spec m md : nth_error mods m = Some md -> forall ps mi,
  shape mi -> typed_mi mi ->
  match ext_ports m md mi ps with
  | inr mi' => shape mi' /\ typed_mi mi' /\
               (forall a b, get mi' a b <> None -> get mi a b <> None \/ (a = m /\ exists v, In (b, v) ps))
  | inl e => ext_err e
  end.
Proof.
  intros Hmd. induction ps as [|[p v] rest IH]; intros mi Hs Ht; cbn [ext_ports].
  - split; [auto|split; [auto|intros a b H; left; exact H]].
  - destruct (nth_error (m_in md) p) as [pt|] eqn:Hp; [|unfold ext_err; auto].
    destruct (coerce_input v pt) as [e|t] eqn:Hc.
    { apply coerce_input_err in Hc. unfold ext_err. tauto. }
    specialize (IH (put mi m p t) (put_shape _ _ _ _ Hs)).
    assert (Ht' : typed_mi (put mi m p t)).
    { apply (put_typed mi m p t pt Ht).
      - unfold in_port. rewrite Hmd. exact Hp.
      - eapply coerce_input_typed; eauto. }
    specialize (IH Ht'). destruct (ext_ports m md (put mi m p t) rest) as [e|mi']; auto.
    destruct IH as (H1 & H2 & H3). split; [auto|split; [auto|]].
    intros a b Hg. destruct (H3 a b Hg) as [H|(-> & v' & Hv')].
    + destruct (get mi a b) eqn:E; [left; discriminate|].
      destruct (get (put mi m p t) a b) eqn:E'; [|congruence].
      apply get_put_spec in E'. destruct E' as [(-> & -> & _)|E']; [|congruence].
      right. split; auto. exists v. now left.
    + right. split; auto. exists v'. now right.
Qed.

Lemma ext_mods_spec : forall ext mi,
  shape mi -> typed_mi mi ->
  match ext_mods mods mi ext with
  | inr mi' => shape mi' /\ typed_mi mi' /\
               (forall a b, get mi' a b <> None ->
                  get mi a b <> None \/ (exists ps v, In (a, ps) ext /\ In (b, v) ps))
  | inl e => ext_err e
  end.
Proof.
  induction ext as [|[m ps] rest IH]; intros mi Hs Ht; cbn [ext_mods].
  - split; [auto|split; [auto|intros a b H; left; exact H]].
  - destruct (nth_error mods m) as [md|] eqn:Hmd; [|unfold ext_err; auto].
    pose proof (ext_ports_spec m md Hmd ps mi Hs Ht) as H.
    destruct (ext_ports m md mi ps) as [e|mi']; auto.
    destruct H as (H1 & H2 & H3). specialize (IH mi' H1 H2).
    destruct (ext_mods mods mi' rest) as [e|mi'']; auto.
    destruct IH as (H4 & H5 & H6). split; [auto|split; [auto|]].
    intros a b Hg. destruct (H6 a b Hg) as [H|(ps' & v & Hin & Hv)].
    + destruct (H3 a b H) as [H'|(-> & v & Hv)]; auto.
      right. exists ps, v. split; auto. now left.
    + right. exists ps', v. split; auto. now right.
Qed.

(* the row a ready module runs with *)
Lemma row_of_ready mi m md :
  shape mi -> typed_mi mi -> nth_error mods m = Some md ->
  (forall p, p < length (m_in md) -> get mi m p <> None) -> row_ok (nth m mi []) (m_in md).
Proof.
  intros [Hl Hr] Ht Hmd Hall.
  assert (Hm : m < length mi) by (rewrite Hl; apply nth_error_Some; congruence).
  pose proof (nth_error_nth' mi [] Hm) as Hn. set (r := nth m mi []) in *.
  apply Forall2_of_nth; [eauto|].
  intros n x y Hx Hy.
  assert (Hg : get mi m n = x) by (rewrite (get_nth _ _ _ _ Hn), Hx; reflexivity).
  assert (n < length (m_in md)) by (apply nth_error_Some; congruence).
  destruct x as [t|]; [|exfalso; eapply Hall; eauto].
  exists t. split; auto. destruct (Ht _ _ _ Hg) as (pt & Hp & Hty).
  unfold in_port in Hp. rewrite Hmd, Hy in Hp. inversion Hp; subst. auto.
Qed.

Lemma is_ready_spec mi m md :
  is_ready mi m md = true <-> forall p, p < length (m_in md) -> get mi m p <> None.
Proof.
  unfold is_ready. rewrite forallb_forall. split.
  - intros H p Hp. specialize (H p). rewrite in_seq in H.
    destruct (get mi m p); [discriminate|]. cbn in H. assert (false = true) by (apply H; lia). discriminate.
  - intros H p Hp. apply in_seq in Hp. destruct (get mi m p) eqn:E; auto. exfalso. apply (H p); [lia|auto].
Qed.

(* what is known about one handler invocation; [eo] is the error the execution ended with, if any *)
Definition call_ok (eo : option err) (c : call) : Prop :=
  exists md h, nth_error mods (fst c) = Some md /\ row_ok (snd c) (m_in md) /\
               handlers (fst c) = Some h /\
               ((exists outs, call_outputs h md (snd c) = inr outs) \/
                (exists e, eo = Some e /\ call_outputs h md (snd c) = inl e)).

Definition run_ok (x : run) : Prop :=
  exists md, nth_error mods (fst (fst x)) = Some md /\ row_ok (snd (fst x)) (m_in md) /\
             match handlers (fst (fst x)) with
             | Some h => call_outputs h md (snd (fst x)) = inr (snd x)
             | None => snd x = []
             end.

Lemma call_ok_weaken e c : call_ok None c -> call_ok (Some e) c.
Proof.
  intros (md & h & H1 & H2 & H3 & [H4|(e' & H4 & _)]); [|discriminate].
  exists md, h. auto.
Qed.

Record Inv0 (st : state) : Prop := {
  i_shape : shape (s_mi st);
  i_typed : typed_mi (s_mi st);
  i_nodup : NoDup (s_order st);
  i_range : forall m, In m (s_order st) -> m < length mods;
  i_done : forall m md p, In m (s_order st) -> nth_error mods m = Some md ->
             p < length (m_in md) -> get (s_mi st) m p <> None;
  i_runs_order : map (fun x : run => fst (fst x)) (s_runs st) = s_order st;
  i_runs : Forall run_ok (s_runs st);
  i_calls_order : map fst (s_calls st) = filter (has_handler handlers) (s_order st);
  i_calls : Forall (call_ok None) (s_calls st) }.

Definition wire_inv (st : state) : Prop :=
  forall w, In w wires -> In (w_sm w) (s_order st) -> In (w_dm w) (s_order st) ->
            before (w_sm w) (w_dm w) (s_order st).

Definition Inv (st : state) : Prop := Inv0 st /\ wire_inv st.

(* what is known when execute raises [e] after the handler invocations [calls] *)
Definition ErrInv (e : err) (calls : list call) : Prop :=
  Forall (call_ok (Some e)) calls /\ NoDup (map fst calls) /\
  (e = EHandlerRaised -> exists c h, In c calls /\ handlers (fst c) = Some h /\ h (snd c) = HRaise) /\
  dead_err e = false.

Lemma Inv0_ErrInv st e : Inv0 st -> e <> EHandlerRaised -> dead_err e = false -> ErrInv e (s_calls st).
Proof.
  intros I H1 H2. split; [|split; [|split]]; auto.
  - eapply Forall_impl; [|apply (i_calls _ I)]. intros c. apply call_ok_weaken.
  - rewrite (i_calls_order _ I). apply NoDup_filter. apply (i_nodup _ I).
  - intros ->. contradiction.
Qed.

Lemma wire_ports w : In w wires ->
  exists ms md s d, nth_error mods (w_sm w) = Some ms /\ nth_error (m_out ms) (w_sp w) = Some s /\
                    nth_error mods (w_dm w) = Some md /\ nth_error (m_in md) (w_dp w) = Some d /\
                    fst s = fst d /\ il_rank (snd d) <= il_rank (snd s).
Proof.
  intros Hw. rewrite Forall_forall in Hacc. destruct (Hacc w Hw) as (s & d & Hs & Hd & H1 & H2).
  unfold out_port in Hs. unfold in_port in Hd.
  destruct (nth_error mods (w_sm w)) as [ms|]; [|discriminate].
  destruct (nth_error mods (w_dm w)) as [md|]; [|discriminate].
  exists ms, md, s, d. repeat split; auto.
Qed.

Lemma deliver_spec outs st w md :
  Inv0 st -> In w wires -> nth_error mods (w_sm w) = Some md ->
  (Forall2 exact outs (m_out md) \/ outs = []) ->
  match deliver mods enforce outs st w with
  | Ok st' => Inv0 st' /\ s_order st' = s_order st /\ s_runs st' = s_runs st /\
              s_calls st' = s_calls st /\ get (s_mi st) (w_dm w) (w_dp w) = None /\
              (forall a b, get (s_mi st') a b = None -> get (s_mi st) a b = None)
  | Err e c => c = s_calls st /\ e <> EHandlerRaised /\ dead_err e = false
  end.
Proof.
  intros I Hw Hmd Houts. unfold deliver.
  destruct (nth_error outs (w_sp w)) as [v|] eqn:Hv.
  2:{ split; [reflexivity|split; [discriminate|reflexivity]]. }
  destruct (wire_ports w Hw) as (ms & mdd & s & d & Hms & Hs & Hmdd & Hd & Hty & Hil).
  rewrite Hmd in Hms. inversion Hms; subst ms. clear Hms.
  assert (Hip : in_port mods (w_dm w) (w_dp w) = Some d) by (unfold in_port; now rewrite Hmdd).
  rewrite Hip.
  assert (Hvt : typed v d).
  { destruct Houts as [Hex| ->]; [|destruct (w_sp w); discriminate].
    destruct (Forall2_nth_l _ _ _ Hex _ _ Hv) as (y & Hy & [Hy1 Hy2]).
    rewrite Hs in Hy. inversion Hy; subst y. split; [congruence|]. rewrite Hy2. exact Hil. }
  (* the per-wire runtime checks cannot fire: the value carries the source port's label *)
  assert (E1 : dt_eqb (tv_dt v) (fst d) = true) by (apply dt_eqb_eq; apply Hvt).
  assert (E2 : il_ltb (tv_il v) (snd d) = false) by (apply il_ltb_ge; apply Hvt).
  rewrite E1, E2. cbn [negb]. rewrite !andb_false_r.
  destruct (get (s_mi st) (w_dm w) (w_dp w)) eqn:Hg; [split; [reflexivity|split; [discriminate|reflexivity]]|].
  split; [|repeat split; auto].
  - destruct I. constructor; cbn [set_mi s_mi s_order s_runs s_calls]; auto.
    + now apply put_shape.
    + eapply put_typed; eauto.
    + intros. apply get_put_mono. eauto.
  - cbn. intros a b. apply get_put_none.
Qed.

Lemma deliver_all_spec outs md m :
  nth_error mods m = Some md -> (Forall2 exact outs (m_out md) \/ outs = []) ->
  forall ws st, (forall w, In w ws -> In w wires /\ w_sm w = m) -> Inv0 st ->
  match deliver_all mods enforce outs ws st with
  | Ok st' => Inv0 st' /\ s_order st' = s_order st /\ s_runs st' = s_runs st /\
              s_calls st' = s_calls st /\
              (forall w, In w ws -> get (s_mi st) (w_dm w) (w_dp w) = None) /\
              (forall a b, get (s_mi st') a b = None -> get (s_mi st) a b = None)
  | Err e c => c = s_calls st /\ e <> EHandlerRaised /\ dead_err e = false
  end.
Proof.
  intros Hmd Houts. induction ws as [|w rest IH]; intros st Hws I; cbn [deliver_all].
  - split; [exact I|]. do 3 (split; [reflexivity|]). split; [intros w []|auto].
  - destruct (Hws w (or_introl eq_refl)) as [Hw Hsm].
    assert (Hmd' : nth_error mods (w_sm w) = Some md) by now rewrite Hsm.
    pose proof (deliver_spec outs st w md I Hw Hmd' Houts) as H.
    destruct (deliver mods enforce outs st w) as [st1|e c]; auto.
    destruct H as (I1 & Ho & Hr & Hc & Hg & Hmono).
    specialize (IH st1 (fun w' H' => Hws w' (or_intror H')) I1).
    destruct (deliver_all mods enforce outs rest st1) as [st2|e c].
    + destruct IH as (I2 & Ho2 & Hr2 & Hc2 & Hg2 & Hmono2).
      split; [exact I2|]. do 3 (split; [congruence|]). split.
      * intros w' [<-|Hin]; auto.
      * intros a b Hn. apply Hmono. apply Hmono2. exact Hn.
    + destruct IH as (-> & H1 & H2). split; [auto|split; auto].
Qed.

Lemma outgoing_In m w : In w (outgoing wires m) -> In w wires /\ w_sm w = m.
Proof. unfold outgoing. rewrite filter_In. intros [H1 H2]. apply Nat.eqb_eq in H2. auto. Qed.

Lemma outgoing_In' w : In w wires -> In w (outgoing wires (w_sm w)).
Proof. unfold outgoing. rewrite filter_In. intros H. split; auto. apply Nat.eqb_refl. Qed.

(* record + mark executed + deliver: all outgoing wires of m found their destination slot
   empty, so no destination had already run *)
Lemma finish_spec m md st st1 outs :
  Inv st -> Inv0 st1 -> s_order st1 = s_order st ++ [m] -> ~ In m (s_order st) ->
  nth_error mods m = Some md -> (Forall2 exact outs (m_out md) \/ outs = []) ->
  match deliver_all mods enforce outs (outgoing wires m) st1 with
  | Ok st' => Inv st' /\ s_order st' = s_order st ++ [m]
  | Err e c => c = s_calls st1 /\ e <> EHandlerRaised /\ dead_err e = false
  end.
Proof.
  intros [I W] I1 Ho Hnm Hmd Houts.
  pose proof (deliver_all_spec outs md m Hmd Houts (outgoing wires m) st1 (outgoing_In m) I1) as H.
  destruct (deliver_all mods enforce outs (outgoing wires m) st1) as [st2|e c]; auto.
  destruct H as (I2 & Ho2 & _ & _ & Hg & _).
  split; [|congruence]. split; auto.
  intros w Hw Hs Hd. rewrite Ho2, Ho in *.
  apply in_app_iff in Hs. apply in_app_iff in Hd.
  destruct Hs as [Hs|[Hs|[]]].
  - destruct Hd as [Hd|[Hd|[]]].
    + apply before_app. apply W; auto.
    + rewrite <- Hd. apply before_last. auto.
  - exfalso.
    assert (Hin : In w (outgoing wires m)) by (rewrite Hs; apply outgoing_In'; auto).
    specialize (Hg w Hin).
    destruct (wire_ports w Hw) as (_ & mdd & _ & d & _ & _ & Hmdd & Hdp & _).
    apply (i_done _ I1 (w_dm w) mdd (w_dp w)); auto.
    + rewrite Ho. apply in_app_iff. destruct Hd as [Hd|[Hd|[]]]; [left; auto|right; left; auto].
    + apply nth_error_Some. congruence.
Qed.

Lemma run_module_spec m md st :
  Inv st -> nth_error mods m = Some md -> ~ In m (s_order st) -> is_ready (s_mi st) m md = true ->
  match run_module mods wires handlers enforce m md st with
  | Ok st' => Inv st' /\ s_order st' = s_order st ++ [m]
  | Err e c => ErrInv e c
  end.
Proof.
  intros II Hmd Hnm Hr. pose proof II as [I W].
  pose proof (proj1 (is_ready_spec _ _ _) Hr) as Hr'. clear Hr. rename Hr' into Hr.
  pose proof (row_of_ready _ _ _ (i_shape _ I) (i_typed _ I) Hmd Hr) as Hrow.
  unfold run_module. cbv zeta. set (r := nth m (s_mi st) []) in *.
  assert (Hbase : forall outs calls,
     map fst calls = filter (has_handler handlers) (s_order st ++ [m]) ->
     Forall (call_ok None) calls -> run_ok (m, r, outs) ->
     Inv0 (mkSt (s_mi st) (s_order st ++ [m]) (s_runs st ++ [(m, r, outs)]) calls)).
  { intros outs calls Hco Hca Hrun. destruct I. constructor; cbn [s_mi s_order s_runs s_calls]; auto.
    - apply NoDup_snoc; auto.
    - intros a Ha. apply in_app_iff in Ha. destruct Ha as [Ha|[<-|[]]]; auto.
      apply nth_error_Some. congruence.
    - intros a mda p Ha Hmda Hp. apply in_app_iff in Ha. destruct Ha as [Ha|[<-|[]]]; eauto.
      rewrite Hmd in Hmda. inversion Hmda; subst. auto.
    - rewrite map_app. cbn. congruence.
    - apply Forall_app. split; auto. }
  destruct (handlers m) as [h|] eqn:Hh.
  - destruct (call_outputs h md r) as [e|outs] eqn:Hc.
    + split; [|split; [|split]].
      * apply Forall_app. split.
        { eapply Forall_impl; [|apply (i_calls _ I)]. intros c; apply call_ok_weaken. }
        constructor; [|constructor]. exists md, h. cbn [fst snd].
        split; [auto|split; [auto|split; [auto|]]]. right. exists e. auto.
      * unfold call in *. rewrite map_app. change (map fst [(m, r)]) with [m]. apply NoDup_snoc.
        { rewrite (i_calls_order _ I). apply NoDup_filter, (i_nodup _ I). }
        rewrite (i_calls_order _ I). rewrite filter_In. tauto.
      * intros ->. apply call_outputs_err in Hc. destruct Hc as [[_ Hc]|Hc].
        -- exists (m, r), h. rewrite in_app_iff. cbn. auto.
        -- destruct Hc as [Hc|[Hc|Hc]]; discriminate.
      * apply call_outputs_err in Hc. destruct Hc as [[He _]|[He|[He|He]]]; rewrite He; reflexivity.
    + assert (I1 : Inv0 (mkSt (s_mi st) (s_order st ++ [m]) (s_runs st ++ [(m, r, outs)])
                              (s_calls st ++ [(m, r)]))).
      { apply Hbase.
        - unfold call in *. rewrite map_app, filter_app, (i_calls_order _ I). change (map fst [(m, r)]) with [m].
          cbn [filter]. replace (has_handler handlers m) with true by (unfold has_handler; now rewrite Hh).
          reflexivity.
        - apply Forall_app; split; [apply (i_calls _ I)|]. constructor; [|constructor].
          exists md, h. cbn [fst snd]. split; [auto|split; [auto|split; [auto|]]]. left. eauto.
        - exists md. cbn [fst snd]. rewrite Hh. auto. }
      pose proof (finish_spec m md st _ outs II I1 eq_refl Hnm Hmd
                              (or_introl (call_outputs_exact _ _ _ _ Hc))) as H.
      match goal with |- match ?X with _ => _ end => destruct X as [st2|e c] end; auto.
      destruct H as (-> & H1 & H2). apply (Inv0_ErrInv _ e I1); auto.
  - assert (I1 : Inv0 (mkSt (s_mi st) (s_order st ++ [m]) (s_runs st ++ [(m, r, [])]) (s_calls st))).
    { apply Hbase.
      - rewrite filter_app, (i_calls_order _ I). cbn [filter].
        replace (has_handler handlers m) with false by (unfold has_handler; now rewrite Hh).
        now rewrite app_nil_r.
      - apply (i_calls _ I).
      - exists md. cbn [fst snd]. rewrite Hh. auto. }
    pose proof (finish_spec m md st _ [] II I1 eq_refl Hnm Hmd (or_intror eq_refl)) as H.
    match goal with |- match ?X with _ => _ end => destruct X as [st2|e c] end; auto.
    destruct H as (-> & H1 & H2). apply (Inv0_ErrInv _ e I1); auto.
Qed.

Lemma pass_spec ms :
  (forall m md, In (m, md) ms -> nth_error mods m = Some md) -> forall st b, Inv st ->
  match pass mods wires handlers enforce ms st b with
  | Ok (st', b') => Inv st' /\ length (s_order st) <= length (s_order st') /\
                    (b' = true -> b = true \/ length (s_order st) < length (s_order st'))
  | Err e c => ErrInv e c
  end.
Proof.
  induction ms as [|[m md] rest IH]; intros Hms st b I; cbn [pass].
  - split; auto.
  - assert (Hrest : forall m' md', In (m', md') rest -> nth_error mods m' = Some md')
      by (intros; apply Hms; now right).
    destruct (existsb (Nat.eqb m) (s_order st)) eqn:Hex.
    { apply IH; auto. }
    destruct (is_ready (s_mi st) m md) eqn:Hr.
    2:{ apply IH; auto. }
    assert (Hnm : ~ In m (s_order st)).
    { intros Hin. apply existsb_eqb_In in Hin. congruence. }
    pose proof (run_module_spec m md st I (Hms m md (or_introl eq_refl)) Hnm Hr) as H.
    destruct (run_module mods wires handlers enforce m md st) as [st1|e c]; auto.
    destruct H as [I1 Ho]. specialize (IH Hrest st1 true I1).
    destruct (pass mods wires handlers enforce rest st1 true) as [[st2 b2]|e c]; auto.
    destruct IH as (I2 & Hle & _). rewrite Ho, app_length in Hle. cbn in Hle.
    split; auto. split; [lia|]. intros _. right. lia.
Qed.

Lemma loop_spec : forall fuel st, Inv st -> length mods < fuel + length (s_order st) ->
  match loop mods wires handlers enforce fuel st with
  | (Report order runs, calls) =>
      exists st', Inv st' /\ order = s_order st' /\ runs = s_runs st' /\ calls = s_calls st' /\
                  length mods <= length order
  | (Raised e, calls) => ErrInv e calls
  | (OutOfFuel, _) => False
  end.
Proof.
  induction fuel as [|f IH]; intros st I Hf; cbn [loop];
    destruct (Nat.ltb (length (s_order st)) (length mods)) eqn:Hlt.
  - apply Nat.ltb_lt in Hlt. lia.
  - apply Nat.ltb_ge in Hlt. exists st. auto.
  - apply Nat.ltb_lt in Hlt.
    pose proof (pass_spec (indexed mods) (fun m md H => proj1 (in_indexed mods m md) H) st false I) as H.
    destruct (pass mods wires handlers enforce (indexed mods) st false) as [[st1 b1]|e c]; auto.
    destruct H as (I1 & Hle & Hb). destruct b1.
    + destruct (Hb eq_refl) as [Hb'|Hb']; [discriminate|]. apply IH; auto. lia.
    + destruct I1 as [I1 _]. apply (Inv0_ErrInv _ _ I1); [discriminate|reflexivity].
  - apply Nat.ltb_ge in Hlt. exists st. auto.
Qed.

(* ---- pre-flight ---- *)
Lemma preflight_none mi : preflight mods wires handlers mi = None ->
  multi_src wires = false /\
  forall m md, nth_error mods m = Some md ->
    (m_out md <> [] -> handlers m <> None) /\
    (forall p, p < length (m_in md) -> n_incoming wires m p = 0 -> get mi m p <> None).
Proof.
  unfold preflight. destruct (multi_src wires); [discriminate|]. intros H. split; auto.
  rewrite first_err_none in H. intros m md Hmd.
  specialize (H (m, md) (proj2 (in_indexed mods m md) Hmd)). unfold preflight_module in H.
  destruct (negb (Nat.eqb (length (m_out md)) 0) && negb (is_some (handlers m))) eqn:Hc; [discriminate|].
  split.
  - intros Hout Hh. rewrite Hh in Hc. destruct (m_out md); [congruence|]. discriminate Hc.
  - intros p Hp Hn Hg. rewrite first_err_none in H. specialize (H p).
    rewrite in_seq in H. rewrite Hn, Hg in H. cbn in H.
    assert (Some EMissingSrc = None) by (apply H; lia). discriminate.
Qed.

Definition preflight_err (e : err) : Prop := e = EMultiSrc \/ e = ENoHandler \/ e = EMissingSrc.

Lemma preflight_some mi e : preflight mods wires handlers mi = Some e -> preflight_err e.
Proof.
  unfold preflight, preflight_err. destruct (multi_src wires); [intros H; inversion H; auto|].
  intros H. apply first_err_some in H. destruct H as ([m md] & _ & H). unfold preflight_module in H.
  destruct (_ && _); [inversion H; auto|].
  apply first_err_some in H. destruct H as (p & _ & H).
  destruct (_ && _); inversion H; auto.
Qed.

Lemma execute_spec ext :
  match execute mods wires handlers enforce ext with
  | (Report order runs, calls) =>
      exists st, Inv st /\ order = s_order st /\ runs = s_runs st /\ calls = s_calls st /\
                 length mods <= length order
  | (Raised e, calls) => ErrInv e calls
  | (OutOfFuel, _) => False
  end.
Proof.
  unfold execute.
  pose proof (ext_mods_spec ext (init_inputs mods) init_shape init_typed) as He.
  assert (Hnil : forall e, e <> EHandlerRaised -> dead_err e = false -> ErrInv e []).
  { intros e H1 H2. split; [constructor|split; [constructor|split; [intros E; contradiction|auto]]]. }
  destruct (ext_mods mods (init_inputs mods) ext) as [e|mi].
  { unfold ext_err in He. destruct He as [He|[He|[He|He]]]; rewrite He; apply Hnil; (discriminate || reflexivity). }
  destruct He as (Hs & Ht & _).
  destruct (preflight mods wires handlers mi) as [e|] eqn:Hp.
  { apply preflight_some in Hp. unfold preflight_err in Hp.
    destruct Hp as [Hp|[Hp|Hp]]; rewrite Hp; apply Hnil; (discriminate || reflexivity). }
  apply loop_spec; [|cbn; lia].
  split.
  - constructor; cbn; auto; try constructor; intros; contradiction.
  - intros w _ [].
Qed.

(* what execute does before the scheduling loop *)
Lemma execute_early ext :
  match ext_mods mods (init_inputs mods) ext with
  | inl e => execute mods wires handlers enforce ext = (Raised e, []) /\ ext_err e
  | inr mi =>
      match preflight mods wires handlers mi with
      | Some e => execute mods wires handlers enforce ext = (Raised e, []) /\ preflight_err e
      | None => True
      end
  end.
Proof.
  unfold execute.
  pose proof (ext_mods_spec ext (init_inputs mods) init_shape init_typed) as He.
  destruct (ext_mods mods (init_inputs mods) ext) as [e|mi]; auto.
  destruct (preflight mods wires handlers mi) as [e|] eqn:Hp; auto.
  split; auto. eapply preflight_some; eauto.
Qed.

End Exec.

(* ---------------------------------------------------------------------- *)
(* unschedulable diagrams: the notions used in Property.v                  *)

(* two different wires of the diagram end in the same input port *)
Definition duplicate_source (wires : list wire) : Prop :=
  exists l1 w1 l2 w2 l3, wires = l1 ++ w1 :: l2 ++ w2 :: l3 /\ w_dm w1 = w_dm w2 /\ w_dp w1 = w_dp w2.

(* a declared input port that no wire and no external input feeds *)
Definition missing_source (mods : list module) (wires : list wire)
           (ext : list (nat * list (nat * oval))) : Prop :=
  exists m md p, nth_error mods m = Some md /\ p < length (m_in md) /\
                 (forall w, In w wires -> ~ (w_dm w = m /\ w_dp w = p)) /\
                 (forall ps v, In (m, ps) ext -> ~ In (p, v) ps).

(* a module that declares outputs and has no registered handler *)
Definition missing_handler (mods : list module) (handlers : nat -> option handler) : Prop :=
  exists m md, nth_error mods m = Some md /\ m_out md <> [] /\ handlers m = None.

Definition cyclic (wires : list wire) : Prop := exists m, path wires m m.

(* some invoked handler raised *)
Definition handler_raised (handlers : nat -> option handler) (calls : list call) : Prop :=
  exists c h, In c calls /\ handlers (fst c) = Some h /\ h (snd c) = HRaise.

Lemma dup_multi_src wires : duplicate_source wires -> multi_src wires = true.
Proof.
  intros (l1 & w1 & l2 & w2 & l3 & -> & Hm & Hp).
  unfold multi_src. apply existsb_exists. exists w1. split.
  { apply in_app_iff. right. left. auto. }
  apply Nat.ltb_lt. unfold n_incoming.
  assert (H1 : dst_is (w_dm w1) (w_dp w1) w1 = true) by (unfold dst_is; now rewrite !Nat.eqb_refl).
  assert (H2 : dst_is (w_dm w1) (w_dp w1) w2 = true)
    by (unfold dst_is; rewrite Hm, Hp; now rewrite !Nat.eqb_refl).
  rewrite filter_app. cbn [filter]. rewrite H1. rewrite filter_app. cbn [filter]. rewrite H2.
  rewrite app_length. cbn [length]. rewrite app_length. cbn [length]. lia.
Qed.

Lemma n_incoming_0 wires m p :
  (forall w, In w wires -> ~ (w_dm w = m /\ w_dp w = p)) -> n_incoming wires m p = 0.
Proof.
  unfold n_incoming. induction wires as [|w ws IH]; intros H; cbn [filter]; auto.
  destruct (dst_is m p w) eqn:E.
  - exfalso. apply (H w); [now left|]. unfold dst_is in E. apply andb_prop in E.
    destruct E as [E1 E2]. apply Nat.eqb_eq in E1. apply Nat.eqb_eq in E2. auto.
  - apply IH. intros w' Hw'. apply H. now right.
Qed.

Lemma wiring_error_early e : ext_err e \/ preflight_err e -> wiring_error e = true.
Proof.
  unfold ext_err, preflight_err. intros [[H|[H|[H|H]]]|[H|[H|H]]]; rewrite H; reflexivity.
Qed.

Lemma unschedulable_early mods wires handlers enforce ext :
  duplicate_source wires \/ missing_source mods wires ext \/ missing_handler mods handlers ->
  exists e, execute mods wires handlers enforce ext = (Raised e, []) /\ wiring_error e = true.
Proof.
  intros Hun. pose proof (execute_early mods wires handlers enforce ext) as H.
  pose proof (ext_mods_spec mods handlers ext (init_inputs mods) (init_shape mods) (init_typed mods)) as He.
  destruct (ext_mods mods (init_inputs mods) ext) as [e|mi].
  { destruct H as [H1 H2]. exists e. split; auto. apply wiring_error_early. auto. }
  destruct (preflight mods wires handlers mi) as [e|] eqn:Hp.
  { destruct H as [H1 H2]. exists e. split; auto. apply wiring_error_early. auto. }
  exfalso. apply preflight_none in Hp. destruct Hp as [Hms Hmod]. destruct He as (_ & _ & Hext).
  destruct Hun as [Hd|[(m & md & p & Hmd & Hp' & Hnw & Hne)|(m & md & Hmd & Hout & Hh)]].
  - apply dup_multi_src in Hd. congruence.
  - destruct (Hmod m md Hmd) as [_ Hsrc].
    apply (Hsrc p Hp' (n_incoming_0 _ _ _ Hnw)).
    destruct (get mi m p) eqn:Hg; auto. exfalso.
    destruct (Hext m p) as [H'|(ps & v & H1 & H2)]; [congruence| |].
    + rewrite get_init in H'. congruence.
    + eapply Hne; eauto.
  - destruct (Hmod m md Hmd) as [Hh' _]. apply Hh'; auto.
Qed.

Lemma path_before wires order :
  NoDup order -> (forall w, In w wires -> before (w_sm w) (w_dm w) order) ->
  forall a b, path wires a b -> before a b order.
Proof.
  intros Hnd Hw a b Hp. induction Hp as [w Hin|w c Hin _ IH]; auto.
  eapply before_trans; eauto.
Qed.

Lemma err_classify mods handlers e calls :
  ErrInv mods handlers e calls ->
  wiring_error e = true \/ (e = EHandlerRaised /\ handler_raised handlers calls).
Proof.
  intros (_ & _ & Hr & Hk). destruct e; try (left; reflexivity).
  - right. split; auto. apply Hr. reflexivity.
  - discriminate Hk.
Qed.

Lemma wire_mods_lt mods w : flows_ok mods w -> w_sm w < length mods /\ w_dm w < length mods.
Proof.
  intros (s & d & Hs & Hd & _). unfold out_port in Hs. unfold in_port in Hd.
  split; apply nth_error_Some.
  - destruct (nth_error mods (w_sm w)); congruence.
  - destruct (nth_error mods (w_dm w)); congruence.
Qed.

(* ---------------------------------------------------------------------- *)
(* handler invocations are in topological order in EVERY execution (also one that raises) *)

(* the input port (m, p) is given a value from outside in this execution *)
Definition ext_feeds (ext : extin) (m p : nat) : Prop :=
  exists ps v, In (m, ps) ext /\ In (p, v) ps.

Lemma le1_unique {A} (l : list A) a b : length l <= 1 -> In a l -> In b l -> a = b.
Proof.
  destruct l as [|x [|y l]]; cbn; intros H Ha Hb; try lia; try contradiction.
  destruct Ha as [<-|[]], Hb as [<-|[]]. reflexivity.
Qed.

(* without fan-in, the wire into an input port is unique *)
Lemma single_source wires w w' :
  multi_src wires = false -> In w wires -> In w' wires ->
  w_dm w = w_dm w' -> w_dp w = w_dp w' -> w = w'.
Proof.
  intros Hms Hw Hw' Hm Hp. unfold multi_src in Hms.
  assert (Hn : Nat.ltb 1 (n_incoming wires (w_dm w) (w_dp w)) = false).
  { destruct (Nat.ltb 1 (n_incoming wires (w_dm w) (w_dp w))) eqn:E; auto.
    assert (existsb (fun w0 => Nat.ltb 1 (n_incoming wires (w_dm w0) (w_dp w0))) wires = true)
      by (apply existsb_exists; eauto).
    congruence. }
  apply Nat.ltb_ge in Hn. unfold n_incoming in Hn.
  apply (le1_unique _ w w' Hn); apply filter_In; split; auto; unfold dst_is.
  - now rewrite !Nat.eqb_refl.
  - rewrite Hm, Hp. now rewrite !Nat.eqb_refl.
Qed.

Section Topo.
Variable mods : list module.
Variable wires : list wire.
Variable handlers : nat -> option handler.
Variable enforce : bool.
Variable fed : nat -> nat -> Prop.              (* the input ports fed from outside *)
Hypothesis Hacc : Forall (flows_ok mods) wires.
Hypothesis Hms : multi_src wires = false.

(* the module at the source of wire [w] has been invoked, or [w]'s destination is also fed from outside *)
Definition src_called (calls : list call) (w : wire) : Prop :=
  In (w_sm w) (map fst calls) \/ fed (w_dm w) (w_dp w).

(* at every invocation, the sources of all wires into the invoked module had been invoked *)
Definition ctopo (calls : list call) : Prop :=
  forall pre c post, calls = pre ++ c :: post ->
    forall w, In w wires -> w_dm w = fst c -> src_called pre w.

Definition K (st : state) : Prop :=
  ctopo (s_calls st) /\
  forall w, In w wires -> get (s_mi st) (w_dm w) (w_dp w) <> None -> src_called (s_calls st) w.

Lemma ctopo_nil : ctopo [].
Proof. intros pre c post H. destruct pre; discriminate H. Qed.

Lemma ctopo_snoc calls c :
  ctopo calls -> (forall w, In w wires -> w_dm w = fst c -> src_called calls w) -> ctopo (calls ++ [c]).
Proof.
  intros Hc Hnew pre c' post E.
  destruct (exists_last (l := c' :: post)) as (l' & x & El); [discriminate|].
  rewrite El in E. rewrite app_assoc in E. apply app_inj_tail in E. destruct E as [E1 E2]. subst x.
  destruct post as [|y post].
  - destruct l' as [|z l']; [|destruct l'; discriminate El]. cbn in El. inversion El; subst c'.
    rewrite app_nil_r in E1. subst pre. exact Hnew.
  - destruct l' as [|z l']; [destruct post; discriminate El|].
    cbn in El. inversion El; subst z. apply (Hc pre c' l'). exact E1.
Qed.

Lemma src_called_mono calls c w : src_called calls w -> src_called (calls ++ [c]) w.
Proof.
  intros [H|H]; [left|right; auto]. rewrite map_app. apply in_app_iff. auto.
Qed.

Lemma deliver_K outs st w :
  In w wires -> In (w_sm w) (map fst (s_calls st)) -> K st ->
  match deliver mods enforce outs st w with
  | Ok st' => K st' /\ s_calls st' = s_calls st
  | Err e c => c = s_calls st
  end.
Proof.
  intros Hw Hsm [Hc Hk]. unfold deliver.
  destruct (nth_error outs (w_sp w)); [|reflexivity].
  destruct (in_port mods (w_dm w) (w_dp w)); [|reflexivity].
  destruct (enforce && negb (dt_eqb (tv_dt t) (fst p))); [reflexivity|].
  destruct (enforce && il_ltb (tv_il t) (snd p)); [reflexivity|].
  destruct (get (s_mi st) (w_dm w) (w_dp w)) eqn:Hg; [reflexivity|].
  split; [|reflexivity]. split; [exact Hc|]. cbn [set_mi s_mi s_calls].
  intros w' Hw' Hg'.
  destruct (get (put (s_mi st) (w_dm w) (w_dp w) t) (w_dm w') (w_dp w')) as [t'|] eqn:E; [|congruence].
  apply get_put_spec in E. destruct E as [(E1 & E2 & _)|E].
  - assert (w' = w) by (apply (single_source wires); auto). subst w'. left. exact Hsm.
  - apply Hk; auto. congruence.
Qed.

Lemma deliver_all_K outs m : forall ws st,
  (forall w, In w ws -> In w wires /\ w_sm w = m) -> In m (map fst (s_calls st)) -> K st ->
  match deliver_all mods enforce outs ws st with
  | Ok st' => K st' /\ s_calls st' = s_calls st
  | Err e c => c = s_calls st
  end.
Proof.
  induction ws as [|w rest IH]; intros st Hws Hm Hk; cbn [deliver_all]; [auto|].
  destruct (Hws w (or_introl eq_refl)) as [Hw Hsm].
  pose proof (deliver_K outs st w Hw) as H. rewrite Hsm in H. specialize (H Hm Hk).
  destruct (deliver mods enforce outs st w) as [st1|e c]; [|exact H].
  destruct H as [Hk1 Hc1].
  specialize (IH st1 (fun w' H' => Hws w' (or_intror H'))). rewrite Hc1 in IH. specialize (IH Hm Hk1).
  destruct (deliver_all mods enforce outs rest st1) as [st2|e c].
  - destruct IH as [Hk2 Hc2]. split; auto.
  - exact IH.
Qed.

(* a module without a handler has no outputs to deliver: any outgoing wire raises *)
Lemma deliver_all_no_outputs : forall ws st,
  match deliver_all mods enforce [] ws st with
  | Ok st' => st' = st
  | Err e c => c = s_calls st
  end.
Proof.
  intros [|w rest] st; cbn [deliver_all]; [reflexivity|].
  unfold deliver. destruct (w_sp w); reflexivity.
Qed.

Lemma run_module_K m md st :
  K st -> nth_error mods m = Some md -> is_ready (s_mi st) m md = true ->
  match run_module mods wires handlers enforce m md st with
  | Ok st' => K st'
  | Err e c => ctopo c
  end.
Proof.
  intros [Hc Hk] Hmd Hr.
  pose proof (proj1 (is_ready_spec _ _ _) Hr) as Hr'.
  assert (Hsrc : forall w, In w wires -> w_dm w = m -> src_called (s_calls st) w).
  { intros w Hw Hm. apply Hk; auto.
    destruct (wire_ports mods wires Hacc w Hw) as (_ & mdd & _ & d & _ & _ & Hmdd & Hdp & _).
    rewrite Hm in *. rewrite Hmd in Hmdd. inversion Hmdd; subst mdd.
    apply Hr'. apply nth_error_Some. congruence. }
  unfold run_module. cbv zeta. set (r := nth m (s_mi st) []).
  destruct (handlers m) as [h|].
  - assert (Hc' : ctopo (s_calls st ++ [(m, r)])) by (apply ctopo_snoc; auto).
    destruct (call_outputs h md r) as [e|outs]; [exact Hc'|].
    set (st1 := mkSt (s_mi st) (s_order st ++ [m]) (s_runs st ++ [(m, r, outs)]) (s_calls st ++ [(m, r)])).
    assert (K1 : K st1).
    { split; [exact Hc'|]. cbn [st1 s_mi s_calls]. intros w Hw Hg. apply src_called_mono. auto. }
    pose proof (deliver_all_K outs m (outgoing wires m) st1 (outgoing_In wires m)) as H.
    assert (Hin : In m (map fst (s_calls st1))).
    { cbn [st1 s_calls]. unfold call in *. rewrite map_app. apply in_app_iff. right. cbn. auto. }
    specialize (H Hin K1).
    destruct (deliver_all mods enforce outs (outgoing wires m) st1) as [st2|e c].
    + apply H.
    + rewrite H. exact Hc'.
  - set (st1 := mkSt (s_mi st) (s_order st ++ [m]) (s_runs st ++ [(m, r, [])]) (s_calls st)).
    pose proof (deliver_all_no_outputs (outgoing wires m) st1) as H.
    destruct (deliver_all mods enforce [] (outgoing wires m) st1) as [st2|e c].
    + subst st2. split; [exact Hc|exact Hk].
    + rewrite H. exact Hc.
Qed.

Lemma pass_K ms :
  (forall m md, In (m, md) ms -> nth_error mods m = Some md) -> forall st b, K st ->
  match pass mods wires handlers enforce ms st b with
  | Ok (st', _) => K st'
  | Err e c => ctopo c
  end.
Proof.
  induction ms as [|[m md] rest IH]; intros Hms' st b Hk; cbn [pass]; [exact Hk|].
  assert (Hrest : forall m' md', In (m', md') rest -> nth_error mods m' = Some md')
    by (intros; apply Hms'; now right).
  destruct (existsb (Nat.eqb m) (s_order st)); [apply IH; auto|].
  destruct (is_ready (s_mi st) m md) eqn:Hr; [|apply IH; auto].
  pose proof (run_module_K m md st Hk (Hms' m md (or_introl eq_refl)) Hr) as H.
  destruct (run_module mods wires handlers enforce m md st) as [st1|e c]; [|exact H].
  apply IH; auto.
Qed.

Lemma loop_K : forall fuel st, K st -> ctopo (snd (loop mods wires handlers enforce fuel st)).
Proof.
  induction fuel as [|f IH]; intros st Hk; cbn [loop];
    destruct (Nat.ltb (length (s_order st)) (length mods)); cbn [snd]; try apply Hk.
  pose proof (pass_K (indexed mods) (fun m md H => proj1 (in_indexed mods m md) H) st false Hk) as H.
  destruct (pass mods wires handlers enforce (indexed mods) st false) as [[st1 b1]|e c]; [|exact H].
  destruct b1; [apply IH; exact H|apply H].
Qed.

End Topo.

Lemma execute_topological mods wires handlers enforce ext :
  Forall (flows_ok mods) wires ->
  ctopo wires (ext_feeds ext) (snd (execute mods wires handlers enforce ext)).
Proof.
  intros Hacc. unfold execute.
  pose proof (ext_mods_spec mods handlers ext (init_inputs mods) (init_shape mods) (init_typed mods)) as He.
  destruct (ext_mods mods (init_inputs mods) ext) as [e|mi]; [apply ctopo_nil|].
  destruct (preflight mods wires handlers mi) as [e|] eqn:Hp; [apply ctopo_nil|].
  apply preflight_none in Hp. destruct Hp as [Hms _]. destruct He as (_ & _ & Hext).
  apply loop_K; auto. split; [apply ctopo_nil|]. cbn [s_mi s_calls].
  intros w Hw Hg. right. destruct (Hext _ _ Hg) as [H|(ps & v & H1 & H2)].
  - rewrite get_init in H. congruence.
  - exists ps, v. auto.
Qed.

(* ---------------------------------------------------------------------- *)
(* the statements of Property.v                                            *)

Section Final.
Variable mods : list module.
Variable attempts : list wire.
Variable handlers : nat -> option handler.
Variable enforce : bool.
Variable ext : list (nat * list (nat * oval)).
Let wires := build mods attempts.
Let Hacc : Forall (flows_ok mods) wires := build_accepted mods attempts.

Lemma report_facts order runs calls :
  execute mods wires handlers enforce ext = (Report order runs, calls) ->
  NoDup order /\ Permutation order (seq 0 (length mods)) /\
  (forall w, In w wires -> before (w_sm w) (w_dm w) order) /\
  map (fun x : run => fst (fst x)) runs = order /\
  map fst calls = filter (has_handler handlers) order.
Proof.
  intros E. pose proof (execute_spec mods wires handlers enforce Hacc ext) as H. rewrite E in H.
  destruct H as (st & [I W] & -> & -> & -> & Hlen).
  assert (Hperm : Permutation (s_order st) (seq 0 (length mods))).
  { apply NoDup_Permutation_bis.
    - apply (i_nodup _ _ _ I).
    - now rewrite seq_length.
    - intros m Hm. apply in_seq. pose proof (i_range _ _ _ I m Hm). lia. }
  split; [apply (i_nodup _ _ _ I)|]. split; [exact Hperm|]. split; [|split].
  - intros w Hw. rewrite Forall_forall in Hacc. destruct (wire_mods_lt mods w (Hacc w Hw)) as [H1 H2].
    apply W; auto; apply (Permutation_in _ (Permutation_sym Hperm)); apply in_seq; lia.
  - apply (i_runs_order _ _ _ I).
  - apply (i_calls_order _ _ _ I).
Qed.

Lemma each_module_once_proof order runs calls :
  execute mods wires handlers enforce ext = (Report order runs, calls) ->
  Permutation order (seq 0 (length mods)) /\
  (forall w, In w wires -> before (w_sm w) (w_dm w) order) /\
  map (fun x : run => fst (fst x)) runs = order /\
  map fst calls = filter (has_handler handlers) order.
Proof. intros E. apply report_facts in E. tauto. Qed.

Lemma delivered_values_typed_proof out calls :
  execute mods wires handlers enforce ext = (out, calls) ->
  (forall m r, In (m, r) calls -> exists md, nth_error mods m = Some md /\ row_ok r (m_in md)) /\
  (forall order runs, out = Report order runs -> forall m r outs, In (m, r, outs) runs ->
     exists md, nth_error mods m = Some md /\ row_ok r (m_in md) /\
                (handlers m <> None -> Forall2 exact outs (m_out md))).
Proof.
  intros E. pose proof (execute_spec mods wires handlers enforce Hacc ext) as H. rewrite E in H.
  assert (Hcalls : forall eo, Forall (call_ok mods handlers eo) calls ->
            forall m r, In (m, r) calls -> exists md, nth_error mods m = Some md /\ row_ok r (m_in md)).
  { intros eo HF m r Hin. rewrite Forall_forall in HF.
    destruct (HF _ Hin) as (md & h & H1 & H2 & _). exists md. auto. }
  destruct out as [order runs|e|].
  - destruct H as (st & [I W] & -> & -> & -> & Hlen). split.
    + apply (Hcalls None). apply (i_calls _ _ _ I).
    + intros order runs Heq m r outs Hin. inversion Heq; subst.
      pose proof (i_runs _ _ _ I) as HF. rewrite Forall_forall in HF.
      destruct (HF _ Hin) as (md & H1 & H2 & H3). cbn [fst snd] in *.
      exists md. split; [auto|split; [auto|]]. intros Hh.
      destruct (handlers m) as [h|]; [|congruence]. eapply call_outputs_exact; eauto.
  - destruct H as (HF & _). split; [eapply Hcalls; eauto|]. intros; discriminate.
  - contradiction.
Qed.

Lemma mislabelled_output_rejected_proof out calls m r md h kv j p t :
  execute mods wires handlers enforce ext = (out, calls) ->
  In (m, r) calls -> nth_error mods m = Some md -> handlers m = Some h -> h r = HRet kv ->
  nth_error (m_out md) j = Some p -> lookup j kv = Some (Lab t) -> ~ exact t p ->
  exists e, out = Raised e /\ output_rejection e /\ wiring_error e = true.
Proof.
  intros E Hin Hmd Hh Hr Hj Hl Hx.
  pose proof (execute_spec mods wires handlers enforce Hacc ext) as H. rewrite E in H.
  destruct (call_outputs_mislabel h md r kv j p t Hr Hj Hl Hx) as (e' & He' & Hrej).
  assert (Hc : forall eo, Forall (call_ok mods handlers eo) calls -> eo = Some e').
  { intros eo HF. rewrite Forall_forall in HF.
    destruct (HF _ Hin) as (md' & h' & H1 & _ & H3 & H4). cbn [fst snd] in *.
    rewrite Hmd in H1. inversion H1; subst md'. rewrite Hh in H3. inversion H3; subst h'.
    destruct H4 as [(outs & H4)|(e & -> & H4)]; congruence. }
  destruct out as [order runs|e|].
  - destruct H as (st & [I W] & _ & _ & -> & _). specialize (Hc None (i_calls _ _ _ I)). discriminate.
  - destruct H as (HF & _). specialize (Hc _ HF). inversion Hc; subst e'.
    exists e. split; [auto|split; [auto|]]. destruct Hrej as [->|[->| ->]]; reflexivity.
  - contradiction.
Qed.

(* a relay: an invoked handler hands back, for its declared output port [j] (declared [p]), the value [t]
   it received on its input port [q] (declared [pin]).  That value is admissible on [q] (it may be
   labelled above [pin]); having been let in through [q] counts for nothing at the output: unless its
   label is exactly [p] execute raises -- in particular when [p] is the very port type of [q] and the
   value is labelled above it -- and a report is possible only if the value's label is exactly [p],
   hence only from an input port of the same data type and of at most the integrity of [p] *)
Lemma forwarded_value_proof out calls m r md h kv j p q pin t :
  execute mods wires handlers enforce ext = (out, calls) ->
  In (m, r) calls -> nth_error mods m = Some md -> handlers m = Some h -> h r = HRet kv ->
  nth_error (m_out md) j = Some p -> lookup j kv = Some (Lab t) ->
  nth_error r q = Some (Some t) -> nth_error (m_in md) q = Some pin ->
  typed t pin /\
  (~ exact t p \/ (p = pin /\ tv_il t <> snd pin) ->
     exists e, out = Raised e /\ output_rejection e /\ wiring_error e = true) /\
  (forall order runs, out = Report order runs ->
     exact t p /\ fst pin = fst p /\ il_rank (snd pin) <= il_rank (snd p)).
Proof.
  intros E Hin Hmd Hh Hr Hj Hl Hq Hpin.
  assert (Ht : typed t pin).
  { destruct (delivered_values_typed_proof _ _ E) as [Hc _].
    destruct (Hc _ _ Hin) as (md' & Hmd' & Hrow). rewrite Hmd in Hmd'. inversion Hmd'; subst md'.
    destruct (Forall2_nth_l _ _ _ Hrow _ _ Hq) as (y & Hy & (t' & Ht' & Hty)).
    rewrite Hpin in Hy. inversion Hy; subst y. inversion Ht'; subst t'. exact Hty. }
  assert (Hrej : ~ exact t p -> exists e, out = Raised e /\ output_rejection e /\ wiring_error e = true).
  { intros Hx. eapply mislabelled_output_rejected_proof; eauto. }
  split; [exact Ht|]. split.
  - intros [Hx|[-> Hne]]; [auto|]. apply Hrej. intros [_ Hil]. auto.
  - intros order runs ->.
    assert (Hx : exact t p).
    { destruct (labelled_output_iff_exact t p) as (_ & Hbad & _).
      destruct (dt_eqb (tv_dt t) (fst p)) eqn:Hd.
      - destruct (il_eqb (tv_il t) (snd p)) eqn:Hi.
        + apply dt_eqb_eq in Hd. apply il_eqb_eq in Hi. split; auto.
        + exfalso. destruct Hrej as (e & He & _); [|discriminate].
          intros [_ Hil]. apply il_eqb_eq in Hil. congruence.
      - exfalso. destruct Hrej as (e & He & _); [|discriminate].
        intros [Hdt _]. apply dt_eqb_eq in Hdt. congruence. }
    split; [exact Hx|]. destruct Hx as [Hx1 Hx2]. destruct Ht as [Ht1 Ht2].
    split; [congruence|]. rewrite <- Hx2. exact Ht2.
Qed.

(* no handler is ever invoked twice, whatever the outcome *)
Lemma calls_nodup_proof out calls :
  execute mods wires handlers enforce ext = (out, calls) -> NoDup (map fst calls).
Proof.
  intros E. pose proof (execute_spec mods wires handlers enforce Hacc ext) as H. rewrite E in H.
  destruct out as [order runs|e|].
  - destruct H as (st & [I W] & _ & _ & -> & _). unfold call in *.
    rewrite (i_calls_order _ _ _ I). apply NoDup_filter. apply (i_nodup _ _ _ I).
  - destruct H as (_ & H & _). exact H.
  - contradiction.
Qed.

(* on a diagram assembled through connect the per-wire runtime checks never fire and no
   wire names a missing port: _coerce_output and connect already guarantee what they test *)
Lemma runtime_wire_checks_dead_proof out calls e :
  execute mods wires handlers enforce ext = (out, calls) -> out = Raised e -> dead_err e = false.
Proof.
  intros E ->. pose proof (execute_spec mods wires handlers enforce Hacc ext) as H. rewrite E in H.
  apply H.
Qed.

Lemma unschedulable_raises_proof :
  let res := execute mods wires handlers enforce ext in
  (* the `while` loop terminates within its fuel *)
  fst res <> OutOfFuel /\
  (* duplicate / missing sources and missing handlers are refused before any handler runs *)
  (duplicate_source wires \/ missing_source mods wires ext \/ missing_handler mods handlers ->
     exists e, res = (Raised e, []) /\ wiring_error e = true) /\
  (* a cyclic diagram never produces a report *)
  (cyclic wires ->
     exists e, fst res = Raised e /\
               (wiring_error e = true \/ (e = EHandlerRaised /\ handler_raised handlers (snd res)))) /\
  (* whatever is raised is a WiringError, unless a handler itself raised *)
  (forall e, fst res = Raised e ->
     wiring_error e = true \/ (e = EHandlerRaised /\ handler_raised handlers (snd res))) /\
  (* no module ever runs with a missing (or ill-typed) input, and none runs twice *)
  (forall c, In c (snd res) -> exists md, nth_error mods (fst c) = Some md /\ row_ok (snd c) (m_in md)) /\
  NoDup (map fst (snd res)).
Proof.
  cbv zeta.
  pose proof (execute_spec mods wires handlers enforce Hacc ext) as H.
  destruct (execute mods wires handlers enforce ext) as [out calls] eqn:E. cbn [fst snd].
  assert (Hcls : forall e, out = Raised e ->
            wiring_error e = true \/ (e = EHandlerRaised /\ handler_raised handlers calls)).
  { intros e ->. eapply err_classify; eauto. }
  split; [|split; [|split; [|split; [|split]]]].
  - destruct out; [discriminate|discriminate|contradiction].
  - intros Hun. rewrite <- E. apply unschedulable_early. exact Hun.
  - intros (m & Hp). destruct out as [order runs|e|]; [|eauto|contradiction].
    exfalso. destruct (report_facts _ _ _ E) as (Hnd & _ & Hw & _).
    apply (before_irrefl m order Hnd). eapply path_before; eauto.
  - exact Hcls.
  - intros [m r] Hin. destruct (delivered_values_typed_proof _ _ E) as [Hc _]. cbn [fst snd]. eauto.
  - eapply calls_nodup_proof; eauto.
Qed.

End Final.

(* ---------------------------------------------------------------------- *)
(* an input port with a wire that is also given a value from outside has two sources: no report *)

Lemma get_put_same (mi : minputs) m p v (r : row) :
  nth_error mi m = Some r -> p < length r -> get (put mi m p v) m p = Some v.
Proof.
  intros Hm0 Hp. unfold put. destruct (nth_error mi m) as [r'|] eqn:Hm; [|discriminate].
  inversion Hm0; subst r'. unfold get. rewrite nth_error_set_nth, Nat.eqb_refl, Hm.
  rewrite nth_error_set_nth, Nat.eqb_refl.
  destruct (nth_error r p) eqn:E; [reflexivity|]. apply nth_error_None in E. lia.
Qed.

Lemma ext_ports_stored mods m md : nth_error mods m = Some md -> forall ps mi mi',
  shape mods mi -> ext_ports m md mi ps = inr mi' ->
  shape mods mi' /\ (forall a b, get mi a b <> None -> get mi' a b <> None) /\
  (forall p v, In (p, v) ps -> get mi' m p <> None).
Proof.
  intros Hmd. induction ps as [|[p v] rest IH]; intros mi mi' Hs; cbn [ext_ports].
  - intros H. inversion H; subst. split; [auto|split; [auto|intros p v []]].
  - destruct (nth_error (m_in md) p) as [pt|] eqn:Hp; [|discriminate].
    destruct (coerce_input v pt) as [e|t]; [discriminate|]. intros H.
    destruct (IH _ _ (put_shape mods mi m p t Hs) H) as (H1 & H2 & H3).
    split; [exact H1|]. split.
    + intros a b Hg. apply H2. apply get_put_mono. exact Hg.
    + intros p' v' [E|Hin]; [|eauto]. inversion E; subst p' v'. apply H2.
      destruct Hs as [Hl Hr].
      assert (Hm : m < length mi) by (rewrite Hl; apply nth_error_Some; congruence).
      destruct (nth_error mi m) as [r|] eqn:Er; [|apply nth_error_None in Er; lia].
      rewrite (get_put_same mi m p t r Er); [discriminate|].
      rewrite (Hr m r md Er Hmd). apply nth_error_Some. congruence.
Qed.

Lemma ext_mods_stored mods : forall ext mi mi',
  shape mods mi -> ext_mods mods mi ext = inr mi' ->
  (forall a b, get mi a b <> None -> get mi' a b <> None) /\
  (forall m ps p v, In (m, ps) ext -> In (p, v) ps -> get mi' m p <> None).
Proof.
  induction ext as [|[m ps] rest IH]; intros mi mi' Hs; cbn [ext_mods].
  - intros H. inversion H; subst. split; [auto|intros m ps p v []].
  - destruct (nth_error mods m) as [md|] eqn:Hmd; [|discriminate].
    destruct (ext_ports m md mi ps) as [e|mi1] eqn:E1; [discriminate|]. intros H.
    destruct (ext_ports_stored mods m md Hmd ps mi mi1 Hs E1) as (S1 & M1 & P1).
    destruct (IH _ _ S1 H) as (M2 & P2). split.
    + intros a b Hg. apply M2, M1, Hg.
    + intros m' ps' p v [E|Hin] Hp; [|eauto]. inversion E; subst m' ps'. apply M2. eauto.
Qed.

Section TwoSources.
Variable mods : list module.
Variable wires : list wire.
Variable handlers : nat -> option handler.
Variable enforce : bool.
Variable mi0 : minputs.                (* module_inputs after the external inputs were stored *)

(* slots never become empty again; every wire out of a module that ran found its destination
   slot empty, so that slot was empty from the start *)
Definition J (st : state) : Prop :=
  (forall a b, get mi0 a b <> None -> get (s_mi st) a b <> None) /\
  (forall w, In w wires -> In (w_sm w) (s_order st) -> get mi0 (w_dm w) (w_dp w) = None).

Definition J1 (st : state) : Prop := forall a b, get mi0 a b <> None -> get (s_mi st) a b <> None.

Lemma deliver_all_J outs : forall ws st, J1 st ->
  match deliver_all mods enforce outs ws st with
  | Ok st' => J1 st' /\ s_order st' = s_order st /\
              (forall w, In w ws -> get mi0 (w_dm w) (w_dp w) = None)
  | Err _ _ => True
  end.
Proof.
  induction ws as [|w rest IH]; intros st Hj; cbn [deliver_all].
  - split; [exact Hj|split; [reflexivity|intros w []]].
  - unfold deliver at 1.
    destruct (nth_error outs (w_sp w)) as [v|]; [|exact I].
    destruct (in_port mods (w_dm w) (w_dp w)) as [d|]; [|exact I].
    destruct (enforce && negb (dt_eqb (tv_dt v) (fst d))); [exact I|].
    destruct (enforce && il_ltb (tv_il v) (snd d)); [exact I|].
    destruct (get (s_mi st) (w_dm w) (w_dp w)) eqn:Hg; [exact I|].
    assert (Hj' : J1 (set_mi st (put (s_mi st) (w_dm w) (w_dp w) v))).
    { intros a b H. cbn [set_mi s_mi]. apply get_put_mono. apply Hj, H. }
    specialize (IH _ Hj').
    destruct (deliver_all mods enforce outs rest _) as [st2|e c]; [|exact I].
    destruct IH as (H1 & H2 & H3). split; [exact H1|]. split; [exact H2|].
    intros w' [<-|Hin]; [|auto].
    destruct (get mi0 (w_dm w) (w_dp w)) eqn:E; [|reflexivity].
    exfalso. apply (Hj (w_dm w) (w_dp w)); congruence.
Qed.

Lemma run_module_J m md st : J st ->
  match run_module mods wires handlers enforce m md st with
  | Ok st' => J st'
  | Err _ _ => True
  end.
Proof.
  intros [Hj1 Hj2]. unfold run_module. cbv zeta.
  assert (Hfin : forall outs calls,
    match deliver_all mods enforce outs (outgoing wires m)
            (mkSt (s_mi st) (s_order st ++ [m]) (s_runs st ++ [(m, nth m (s_mi st) [], outs)]) calls) with
    | Ok st' => J st'
    | Err _ _ => True
    end).
  { intros outs calls.
    pose proof (deliver_all_J outs (outgoing wires m)
                  (mkSt (s_mi st) (s_order st ++ [m]) (s_runs st ++ [(m, nth m (s_mi st) [], outs)]) calls) Hj1) as H.
    destruct (deliver_all mods enforce outs (outgoing wires m) _) as [st2|e c]; [|exact I].
    destruct H as (H1 & H2 & H3). split; [exact H1|].
    intros w Hw Hin. rewrite H2 in Hin. cbn [s_order] in Hin. apply in_app_iff in Hin.
    destruct Hin as [Hin|[Hin|[]]]; [auto|]. apply H3. rewrite Hin. apply outgoing_In'. exact Hw. }
  destruct (handlers m) as [h|]; [|apply Hfin].
  destruct (call_outputs h md (nth m (s_mi st) [])); [exact I|apply Hfin].
Qed.

Lemma pass_J : forall ms st b, J st ->
  match pass mods wires handlers enforce ms st b with
  | Ok (st', _) => J st'
  | Err _ _ => True
  end.
Proof.
  induction ms as [|[m md] rest IH]; intros st b Hj; cbn [pass]; [exact Hj|].
  destruct (existsb (Nat.eqb m) (s_order st)); [apply IH; auto|].
  destruct (is_ready (s_mi st) m md); [|apply IH; auto].
  pose proof (run_module_J m md st Hj) as H.
  destruct (run_module mods wires handlers enforce m md st) as [st1|e c]; [|exact I].
  apply IH. exact H.
Qed.

Lemma loop_J : forall fuel st, J st ->
  match fst (loop mods wires handlers enforce fuel st) with
  | Report order _ => forall w, In w wires -> In (w_sm w) order -> get mi0 (w_dm w) (w_dp w) = None
  | _ => True
  end.
Proof.
  induction fuel as [|f IH]; intros st Hj; cbn [loop];
    destruct (Nat.ltb (length (s_order st)) (length mods)); cbn [fst]; try exact I; try apply Hj.
  pose proof (pass_J (indexed mods) st false Hj) as H.
  destruct (pass mods wires handlers enforce (indexed mods) st false) as [[st1 b1]|e c]; [|exact I].
  destruct b1; [apply IH; exact H|exact I].
Qed.

End TwoSources.

Lemma two_sources_no_report mods attempts handlers enforce ext w :
  In w (build mods attempts) -> ext_feeds ext (w_dm w) (w_dp w) ->
  exists e, fst (execute mods (build mods attempts) handlers enforce ext) = Raised e /\
            (wiring_error e = true \/
             (e = EHandlerRaised /\
              handler_raised handlers (snd (execute mods (build mods attempts) handlers enforce ext)))).
Proof.
  intros Hw (ps & v & He1 & He2).
  pose proof (unschedulable_raises_proof mods attempts handlers enforce ext) as U. cbv zeta in U.
  destruct U as (U1 & _ & _ & U4 & _).
  destruct (execute mods (build mods attempts) handlers enforce ext) as [out calls] eqn:E. cbn [fst snd] in *.
  destruct out as [order runs|e|]; [|eauto|contradiction].
  exfalso.
  destruct (each_module_once_proof mods attempts handlers enforce ext _ _ _ E) as (Hperm & _).
  unfold execute in E.
  destruct (ext_mods mods (init_inputs mods) ext) as [e|mi] eqn:Em; [discriminate|].
  destruct (ext_mods_stored mods ext _ _ (init_shape mods) Em) as (_ & Hst).
  destruct (preflight mods (build mods attempts) handlers mi); [discriminate|].
  pose proof (loop_J mods (build mods attempts) handlers enforce mi (S (length mods)) (mkSt mi [] [] [])) as L.
  rewrite E in L. cbn [fst] in L.
  assert (J0 : J (build mods attempts) mi (mkSt mi [] [] [])).
  { split; [intros a b H; exact H|intros w' _ []]. }
  specialize (L J0 w Hw).
  apply (Hst _ _ _ _ He1 He2). apply L.
  apply (Permutation_in _ (Permutation_sym Hperm)). apply in_seq.
  pose proof (build_accepted mods attempts) as Hacc. rewrite Forall_forall in Hacc.
  destruct (wire_mods_lt mods w (Hacc w Hw)). lia.
Qed.

(* ---------------------------------------------------------------------- *)
(* one executor over time                                                  *)

(* the current executor's _handlers after the operations [ops] (a register_module for an unknown
   module raises and changes nothing; execute changes nothing; a new executor has none) *)
Fixpoint handlers_after (mods : list module) (hs : nat -> option handler) (ops : list xop)
  : nat -> option handler :=
  match ops with
  | [] => hs
  | XReg m h :: rest =>
      handlers_after mods (match register mods hs m h with Some hs' => hs' | None => hs end) rest
  | XExec _ _ :: rest => handlers_after mods hs rest
  | XNew :: rest => handlers_after mods (fun _ => None) rest
  end.

(* everything the property says about ONE execution of the diagram [wires] with the handler table
   [handlers], the external inputs [ext] and the flag [enforce] that ended with [res] *)
Definition execution_ok (mods : list module) (wires : list wire) (handlers : nat -> option handler)
           (ext : extin) (res : outcome * list call) : Prop :=
  (* it terminated *)
  fst res <> OutOfFuel /\
  (* every handler invocation saw a complete, typed input row; none was invoked twice; each
     was invoked after the handlers of all modules wired into it *)
  (forall c, In c (snd res) -> exists md, nth_error mods (fst c) = Some md /\ row_ok (snd c) (m_in md)) /\
  NoDup (map fst (snd res)) /\
  ctopo wires (ext_feeds ext) (snd res) /\
  (* mislabelled handler outputs are rejected *)
  (forall m r md h kv j p t,
     In (m, r) (snd res) -> nth_error mods m = Some md -> handlers m = Some h -> h r = HRet kv ->
     nth_error (m_out md) j = Some p -> lookup j kv = Some (Lab t) -> ~ exact t p ->
     exists e, fst res = Raised e /\ output_rejection e /\ wiring_error e = true) /\
  (* unschedulable diagrams raise *)
  (duplicate_source wires \/ missing_source mods wires ext \/ missing_handler mods handlers ->
     exists e, res = (Raised e, []) /\ wiring_error e = true) /\
  (cyclic wires -> exists e, fst res = Raised e) /\
  (forall w, In w wires -> ext_feeds ext (w_dm w) (w_dp w) -> exists e, fst res = Raised e) /\
  (forall e, fst res = Raised e ->
     wiring_error e = true \/ (e = EHandlerRaised /\ handler_raised handlers (snd res))) /\
  (* a report: every module once, in topological order, typed rows, exactly labelled outputs *)
  (forall order runs, fst res = Report order runs ->
     Permutation order (seq 0 (length mods)) /\
     (forall w, In w wires -> before (w_sm w) (w_dm w) order) /\
     map (fun x : run => fst (fst x)) runs = order /\
     map fst (snd res) = filter (has_handler handlers) order /\
     (forall m r outs, In (m, r, outs) runs ->
        exists md, nth_error mods m = Some md /\ row_ok r (m_in md) /\
                   (handlers m <> None -> Forall2 exact outs (m_out md)))).

Lemma execution_ok_proof mods attempts handlers enforce ext :
  execution_ok mods (build mods attempts) handlers ext
               (execute mods (build mods attempts) handlers enforce ext).
Proof.
  pose proof (unschedulable_raises_proof mods attempts handlers enforce ext) as U. cbv zeta in U.
  destruct (execute mods (build mods attempts) handlers enforce ext) as [out calls] eqn:E.
  cbn [fst snd] in *. destruct U as (U1 & U2 & U3 & U4 & U5 & U6).
  unfold execution_ok. cbn [fst snd].
  split; [exact U1|]. split; [exact U5|]. split; [exact U6|]. split.
  { pose proof (execute_topological mods (build mods attempts) handlers enforce ext
                                    (build_accepted mods attempts)) as T.
    rewrite E in T. exact T. }
  split.
  { intros m r md h kv j p t. apply (mislabelled_output_rejected_proof mods attempts handlers enforce ext out calls). exact E. }
  split; [exact U2|]. split.
  { intros Hc. destruct (U3 Hc) as (e & He & _). eauto. }
  split.
  { intros w Hw Hf. destruct (two_sources_no_report mods attempts handlers enforce ext w Hw Hf) as (e & He & _).
    rewrite E in He. eauto. }
  split; [exact U4|].
  intros order runs ->.
  destruct (each_module_once_proof mods attempts handlers enforce ext _ _ _ E) as (P1 & P2 & P3 & P4).
  split; [exact P1|]. split; [exact P2|]. split; [exact P3|]. split; [exact P4|].
  destruct (delivered_values_typed_proof mods attempts handlers enforce ext _ _ E) as [_ D].
  intros m r outs Hin. eapply D; eauto.
Qed.

(* an execution event of a history is the execution of a fresh executor that holds the handlers
   registered so far: nothing else of the history matters *)
Lemma history_exec mods wires : forall ops hs0 hs ext enforce res,
  In (EvExec hs ext enforce res) (run_ops mods wires hs0 ops) ->
  (exists pre post, ops = pre ++ XExec ext enforce :: post /\ hs = handlers_after mods hs0 pre) /\
  res = execute mods wires hs enforce ext.
Proof.
  induction ops as [|[m h|ext' enforce'|] rest IH]; intros hs0 hs ext enforce res Hin; cbn [run_ops] in Hin.
  - destruct Hin.
  - destruct (register mods hs0 m h) as [hs'|] eqn:Hr; destruct Hin as [Hin|Hin]; try discriminate Hin;
      destruct (IH _ _ _ _ _ Hin) as ((pre & post & -> & ->) & Hres); (split; [|exact Hres]);
      exists (XReg m h :: pre), post; cbn [handlers_after app]; rewrite Hr; auto.
  - destruct Hin as [Hin|Hin].
    + inversion Hin; subst. split; [|reflexivity]. exists [], rest. auto.
    + destruct (IH _ _ _ _ _ Hin) as ((pre & post & -> & ->) & Hres). split; [|exact Hres].
      exists (XExec ext' enforce' :: pre), post. auto.
  - destruct Hin as [Hin|Hin]; [discriminate Hin|].
    destruct (IH _ _ _ _ _ Hin) as ((pre & post & -> & ->) & Hres). split; [|exact Hres].
    exists (XNew :: pre), post. auto.
Qed.

Lemma every_execution_of_an_executor_proof mods attempts hs0 ops hs ext enforce res :
  In (EvExec hs ext enforce res) (run_ops mods (build mods attempts) hs0 ops) ->
  (exists pre post, ops = pre ++ XExec ext enforce :: post /\ hs = handlers_after mods hs0 pre) /\
  res = execute mods (build mods attempts) hs enforce ext /\
  execution_ok mods (build mods attempts) hs ext res.
Proof.
  intros Hin. destruct (history_exec _ _ _ _ _ _ _ _ Hin) as [H1 H2].
  split; [exact H1|]. split; [exact H2|]. rewrite H2. apply execution_ok_proof.
Qed.

(* every operation of a history yields exactly one event: executions are neither skipped nor repeated *)
Lemma history_length mods wires : forall ops hs0, length (run_ops mods wires hs0 ops) = length ops.
Proof.
  induction ops as [|[m h|e f|] rest IH]; intros hs0; cbn [run_ops length]; auto.
  destruct (register mods hs0 m h); cbn [length]; auto.
Qed.

Lemma calls_topological_proof mods attempts handlers enforce ext out calls :
  execute mods (build mods attempts) handlers enforce ext = (out, calls) ->
  forall pre c post, calls = pre ++ c :: post ->
  forall w, In w (build mods attempts) -> w_dm w = fst c ->
    In (w_sm w) (map fst pre) \/ ext_feeds ext (w_dm w) (w_dp w).
Proof.
  intros E. pose proof (execute_topological mods (build mods attempts) handlers enforce ext
                                            (build_accepted mods attempts)) as T.
  rewrite E in T. exact T.
Qed.
