(* C16 — model of operon_ai/core/wagent.py (PortType, ModuleSpec, WiringDiagram.connect,
   required_capabilities) and operon_ai/core/wiring_runtime.py (DiagramExecutor.execute,
   _coerce_input, _coerce_output).  Executable definitions only (no proofs).

   Modules are identified by their position in the diagram's module list (Python: insertion
   order of the `modules` dict, names are unique because add_module rejects duplicates);
   a module's input / output ports are identified by their position in its `inputs` /
   `outputs` dict.  A payload is an integer.  A handler is an oracle: a total function from
   the module's current input row to either "raises" or the items of the dict it returns
   (keys are output-port indices, an index beyond the declared ports is an unknown key; each
   value is a raw Python value or an explicitly labelled TypedValue, possibly mislabelled).

   Every Python `raise` is an explicit constructor of [err]; the `while` loop of the
   executor is run with fuel and fuel exhaustion is the explicit outcome [OutOfFuel]. *)
From Coq Require Import ZArith List Bool Arith.
Import ListNotations.

(* ---------------------------------------------------------------------- *)
(* types.py enums                                                          *)

Inductive dtype := DText | DJson | DImage | DToolCall | DError | DStop | DApproval.
Inductive integ := Untrusted | Validated | Trusted.           (* IntEnum 0 < 1 < 2 *)
Inductive cap := CReadFs | CWriteFs | CNet | CExecCode | CMoney | CEmailSend.

Definition dt_code (d : dtype) : nat :=
  match d with DText => 0 | DJson => 1 | DImage => 2 | DToolCall => 3
             | DError => 4 | DStop => 5 | DApproval => 6 end.
Definition il_rank (i : integ) : nat :=
  match i with Untrusted => 0 | Validated => 1 | Trusted => 2 end.
Definition cap_code (c : cap) : nat :=
  match c with CReadFs => 0 | CWriteFs => 1 | CNet => 2 | CExecCode => 3
             | CMoney => 4 | CEmailSend => 5 end.
Definition all_caps := [CReadFs; CWriteFs; CNet; CExecCode; CMoney; CEmailSend].

Definition dt_eqb (a b : dtype) : bool := Nat.eqb (dt_code a) (dt_code b).
Definition il_eqb (a b : integ) : bool := Nat.eqb (il_rank a) (il_rank b).
Definition il_ltb (a b : integ) : bool := Nat.ltb (il_rank a) (il_rank b).
Definition il_leb (a b : integ) : bool := Nat.leb (il_rank a) (il_rank b).
Definition cap_eqb (a b : cap) : bool := Nat.eqb (cap_code a) (cap_code b).

(* ---------------------------------------------------------------------- *)
(* wagent.py                                                               *)

Definition ptype := (dtype * integ)%type.                     (* PortType *)

Record module := mkModule {                                   (* ModuleSpec *)
  m_in : list ptype; m_out : list ptype; m_caps : list cap }.

Definition wire := (nat * nat * nat * nat)%type.   (* src module, src port, dst module, dst port *)
Definition w_sm (w : wire) : nat := let '(a, _, _, _) := w in a.
Definition w_sp (w : wire) : nat := let '(_, b, _, _) := w in b.
Definition w_dm (w : wire) : nat := let '(_, _, c, _) := w in c.
Definition w_dp (w : wire) : nat := let '(_, _, _, d) := w in d.

Definition out_port (mods : list module) (m p : nat) : option ptype :=
  match nth_error mods m with Some md => nth_error (m_out md) p | None => None end.
Definition in_port (mods : list module) (m p : nat) : option ptype :=
  match nth_error mods m with Some md => nth_error (m_in md) p | None => None end.

(* PortType.can_flow_to *)
Definition can_flow (s d : ptype) : bool :=
  dt_eqb (fst s) (fst d) && negb (il_ltb (snd s) (snd d)).

(* the WiringErrors of connect(), in the order the code raises them *)
Inductive cerr := CUnknownOut | CUnknownIn | CTypeMismatch | CIntegrity.

Definition connect_check (mods : list module) (w : wire) : option cerr :=
  match out_port mods (w_sm w) (w_sp w) with
  | None => Some CUnknownOut
  | Some s =>
      match in_port mods (w_dm w) (w_dp w) with
      | None => Some CUnknownIn
      | Some d =>
          if negb (dt_eqb (fst s) (fst d)) then Some CTypeMismatch
          else if il_ltb (snd s) (snd d) then Some CIntegrity
          else None
      end
  end.

(* WiringDiagram.connect: the new wire list, or the WiringError (diagram unchanged) *)
Definition connect (mods : list module) (ws : list wire) (w : wire) : list wire + cerr :=
  match connect_check mods w with
  | None => inl (ws ++ [w])
  | Some e => inr e
  end.

(* a diagram built by attempting the given connects in order, ignoring the failures *)
Fixpoint build_from (mods : list module) (ws : list wire) (attempts : list wire) : list wire :=
  match attempts with
  | [] => ws
  | w :: rest =>
      match connect mods ws w with
      | inl ws' => build_from mods ws' rest
      | inr _ => build_from mods ws rest
      end
  end.
Definition build (mods : list module) (attempts : list wire) : list wire :=
  build_from mods [] attempts.

(* WiringDiagram.required_capabilities: `required |= module.capabilities` per module *)
Definition cap_mem (c : cap) (l : list cap) : bool := existsb (cap_eqb c) l.
Definition cap_union (acc l : list cap) : list cap :=
  fold_left (fun a c => if cap_mem c a then a else a ++ [c]) l acc.
Definition required_caps (mods : list module) : list cap :=
  fold_left (fun acc md => cap_union acc (m_caps md)) mods [].

(* ModuleSpec objects are shared: a frozen dataclass whose `capabilities` field is an ordinary (mutable)
   Python set, and several WiringDiagrams may hold the very same ModuleSpec.  The world of the
   capability queries is therefore: the capabilities set of each ModuleSpec object (by index in [mods]),
   the diagrams as lists of ModuleSpec indices (insertion order of their `modules` dicts), and the set
   the caller was handed by the last query, which he may edit (`missing = d.required_capabilities();
   missing -= granted`).  required_capabilities() builds `required = set()` afresh and only READS each
   module's set (`required |= module.capabilities`): a query changes no ModuleSpec, and the set it hands
   out is the caller's own. *)
Definition diagram_mods (mods : list module) (d : list nat) : list module :=
  flat_map (fun i => match nth_error mods i with Some md => [md] | None => [] end) d.

Inductive capop :=
  | QCaps (d : nat)            (* diagrams[d].required_capabilities(); the caller keeps the returned set *)
  | QClear                     (* the caller empties the set he was handed last *)
  | QAdd (c : cap).            (* the caller adds a capability to the set he was handed last *)

Record cworld := mkCW {
  cw_caps : list (list cap);   (* ModuleSpec.capabilities of each ModuleSpec object, as it is NOW *)
  cw_held : list cap }.        (* the set the caller holds *)

(* required_capabilities() of a diagram over the module sets as they are now *)
Definition caps_of (cs : list (list cap)) (d : list nat) : list cap :=
  fold_left (fun acc i => cap_union acc (nth i cs [])) d [].

Definition cap_step (diagrams : list (list nat)) (w : cworld) (o : capop) : cworld * option (nat * list cap) :=
  match o with
  | QCaps d => let a := caps_of (cw_caps w) (nth d diagrams []) in (mkCW (cw_caps w) a, Some (d, a))
  | QClear => (mkCW (cw_caps w) [], None)
  | QAdd c => (mkCW (cw_caps w) (cap_union (cw_held w) [c]), None)
  end.

(* the answers of the queries of a history (diagram index, answer), and the world it leaves behind *)
Fixpoint cap_run (diagrams : list (list nat)) (w : cworld) (ops : list capop)
  : list (nat * list cap) * cworld :=
  match ops with
  | [] => ([], w)
  | o :: rest =>
      let r := cap_run diagrams (fst (cap_step diagrams w o)) rest in
      (match snd (cap_step diagrams w o) with Some a => a :: fst r | None => fst r end, snd r)
  end.

(* ---------------------------------------------------------------------- *)
(* wiring_runtime.py                                                       *)

Record tval := mkTV { tv_dt : dtype; tv_il : integ; tv_val : Z }.      (* TypedValue *)
(* what a handler returns for a port / what is given as an external input: a raw Python value,
   a TypedValue, or a raw value that is not a TypedValue but says something about its own label
   (an ApprovalToken with its `integrity` field, any object or dict with `data_type` /
   `integrity` / `value` attributes or keys, a list holding a TypedValue): [d], [i] are the data
   type and the integrity it claims, if any.  The executor looks at TypedValues only. *)
Inductive oval := Raw (v : Z) | Lab (t : tval)
                | RawClaim (d : option dtype) (i : option integ) (v : Z).

Inductive err :=
  (* WiringError, by message *)
  | EUnknownModule      (* Unknown module in external inputs *)
  | EUnknownPort        (* Unknown input port (external inputs) *)
  | EInType             (* Input type mismatch *)
  | EInInteg            (* Input integrity violation *)
  | EMultiSrc           (* Multiple sources for input port *)
  | ENoHandler          (* No handler registered for module *)
  | EMissingSrc         (* Missing input source *)
  | EPortsMismatch      (* Output ports mismatch *)
  | EOutType            (* Output type mismatch *)
  | EOutInteg           (* Output integrity mismatch *)
  | EMissingOutput      (* Missing output ... for wire *)
  | ETypeMismatch       (* Type mismatch (per-wire runtime check) *)
  | EIntegViol          (* Integrity violation (per-wire runtime check) *)
  | EMultiVal           (* Multiple values for input *)
  | ECannotResolve      (* Cannot resolve wiring; missing inputs *)
  (* not WiringError *)
  | EHandlerRaised      (* the handler's own exception propagates *)
  | EKeyError.          (* a wire that names a port that does not exist (never for connect-built wires) *)

Definition wiring_error (e : err) : bool :=
  match e with EHandlerRaised | EKeyError => false | _ => true end.

Definition row := list (option tval).          (* module_inputs[m], by input-port index *)
Definition minputs := list row.                (* module_inputs, by module index *)

Inductive hres := HRaise | HRet (items : list (nat * oval)).
Definition handler := row -> hres.

Definition call := (nat * row)%type.                   (* handler invocation: module, its inputs *)
Definition run := (nat * row * list tval)%type.        (* report.modules[m]: inputs, outputs *)

Definition get (mi : minputs) (m p : nat) : option tval :=
  match nth_error mi m with
  | Some r => match nth_error r p with Some o => o | None => None end
  | None => None
  end.

Fixpoint set_nth {A : Type} (l : list A) (n : nat) (x : A) : list A :=
  match l, n with
  | [], _ => []
  | _ :: t, O => x :: t
  | h :: t, S k => h :: set_nth t k x
  end.

Definition put (mi : minputs) (m p : nat) (v : tval) : minputs :=
  match nth_error mi m with
  | Some r => set_nth mi m (set_nth r p (Some v))
  | None => mi
  end.

Definition is_some {A : Type} (o : option A) : bool :=
  match o with Some _ => true | None => false end.

(* _coerce_output: a TypedValue must carry exactly the declared label *)
Definition coerce_output (v : oval) (p : ptype) : err + tval :=
  match v with
  | Raw x => inr (mkTV (fst p) (snd p) x)
  | Lab t =>
      if negb (dt_eqb (tv_dt t) (fst p)) then inl EOutType
      else if negb (il_eqb (tv_il t) (snd p)) then inl EOutInteg
      else inr t
  | RawClaim _ _ x => inr (mkTV (fst p) (snd p) x)      (* not a TypedValue: the port's label *)
  end.

(* _coerce_input: a TypedValue must have the type and at least the integrity *)
Definition coerce_input (v : oval) (p : ptype) : err + tval :=
  match v with
  | Raw x => inr (mkTV (fst p) (snd p) x)
  | Lab t =>
      if negb (dt_eqb (tv_dt t) (fst p)) then inl EInType
      else if il_ltb (tv_il t) (snd p) then inl EInInteg
      else inr t
  | RawClaim _ _ x => inr (mkTV (fst p) (snd p) x)
  end.

Fixpoint lookup (k : nat) (kv : list (nat * oval)) : option oval :=
  match kv with
  | [] => None
  | (k', v) :: rest => if Nat.eqb k k' then Some v else lookup k rest
  end.

(* set(raw_outputs.keys()) == set(spec.outputs.keys()) *)
Definition keys_ok (kv : list (nat * oval)) (nout : nat) : bool :=
  forallb (fun kx => Nat.ltb (fst kx) nout) kv &&
  forallb (fun j => is_some (lookup j kv)) (seq 0 nout).

(* for port_name, port_type in spec.outputs.items(): outputs[port_name] = _coerce_output(...) *)
Fixpoint coerce_outputs (kv : list (nat * oval)) (j : nat) (ports : list ptype) : err + list tval :=
  match ports with
  | [] => inr []
  | p :: ps =>
      match lookup j kv with
      | None => inl EKeyError
      | Some v =>
          match coerce_output v p with
          | inl e => inl e
          | inr t =>
              match coerce_outputs kv (S j) ps with
              | inl e => inl e
              | inr ts => inr (t :: ts)
              end
          end
      end
  end.

(* handler(inputs) followed by the key check and the per-port coercion *)
Definition call_outputs (h : handler) (md : module) (r : row) : err + list tval :=
  match h r with
  | HRaise => inl EHandlerRaised
  | HRet kv =>
      if keys_ok kv (length (m_out md)) then coerce_outputs kv 0 (m_out md)
      else inl EPortsMismatch
  end.

Record state := mkSt {
  s_mi : minputs;              (* module_inputs *)
  s_order : list nat;          (* report.execution_order (= executed, as a list) *)
  s_runs : list run;           (* report.modules, in execution order *)
  s_calls : list call }.       (* every handler invocation so far *)

(* a step either goes on, or raises; the handler invocations made so far survive a raise *)
Inductive res (A : Type) := Ok (a : A) | Err (e : err) (calls : list call).
Arguments Ok {A} a.
Arguments Err {A} e calls.

Inductive outcome :=
  | Report (order : list nat) (runs : list run)
  | Raised (e : err)
  | OutOfFuel.

Definition indexed {A : Type} (l : list A) : list (nat * A) := combine (seq 0 (length l)) l.

Fixpoint first_err {A : Type} (f : A -> option err) (l : list A) : option err :=
  match l with
  | [] => None
  | x :: rest => match f x with Some e => Some e | None => first_err f rest end
  end.

Definition init_inputs (mods : list module) : minputs :=
  map (fun md => repeat None (length (m_in md))) mods.

Section Exec.
Variable mods : list module.
Variable wires : list wire.
Variable handlers : nat -> option handler.     (* executor._handlers *)
Variable enforce : bool.                       (* enforce_static_checks *)

(* ---- external inputs ---- *)
Fixpoint ext_ports (m : nat) (md : module) (mi : minputs) (ps : list (nat * oval)) : err + minputs :=
  match ps with
  | [] => inr mi
  | (p, v) :: rest =>
      match nth_error (m_in md) p with
      | None => inl EUnknownPort
      | Some pt =>
          match coerce_input v pt with
          | inl e => inl e
          | inr t => ext_ports m md (put mi m p t) rest
          end
      end
  end.

Fixpoint ext_mods (mi : minputs) (ext : list (nat * list (nat * oval))) : err + minputs :=
  match ext with
  | [] => inr mi
  | (m, ps) :: rest =>
      match nth_error mods m with
      | None => inl EUnknownModule
      | Some md =>
          match ext_ports m md mi ps with
          | inl e => inl e
          | inr mi' => ext_mods mi' rest
          end
      end
  end.

(* ---- pre-flight ---- *)
Definition dst_is (m p : nat) (w : wire) : bool := Nat.eqb (w_dm w) m && Nat.eqb (w_dp w) p.
Definition n_incoming (m p : nat) : nat := length (filter (dst_is m p) wires).
Definition multi_src : bool :=
  existsb (fun w => Nat.ltb 1 (n_incoming (w_dm w) (w_dp w))) wires.

Definition preflight_module (mi : minputs) (x : nat * module) : option err :=
  let '(m, md) := x in
  if negb (Nat.eqb (length (m_out md)) 0) && negb (is_some (handlers m)) then Some ENoHandler
  else first_err (fun p => if Nat.eqb (n_incoming m p) 0 && negb (is_some (get mi m p))
                           then Some EMissingSrc else None)
                 (seq 0 (length (m_in md))).

Definition preflight (mi : minputs) : option err :=
  if multi_src then Some EMultiSrc else first_err (preflight_module mi) (indexed mods).

(* ---- one module ---- *)
Definition set_mi (st : state) (mi : minputs) : state :=
  mkSt mi (s_order st) (s_runs st) (s_calls st).

(* the body of `for wire in outgoing[module_name]` *)
Definition deliver (outs : list tval) (st : state) (w : wire) : res state :=
  match nth_error outs (w_sp w) with
  | None => Err EMissingOutput (s_calls st)
  | Some v =>
      match in_port mods (w_dm w) (w_dp w) with
      | None => Err EKeyError (s_calls st)
      | Some d =>
          if enforce && negb (dt_eqb (tv_dt v) (fst d)) then Err ETypeMismatch (s_calls st)
          else if enforce && il_ltb (tv_il v) (snd d) then Err EIntegViol (s_calls st)
          else match get (s_mi st) (w_dm w) (w_dp w) with
               | Some _ => Err EMultiVal (s_calls st)
               | None => Ok (set_mi st (put (s_mi st) (w_dm w) (w_dp w) v))
               end
      end
  end.

Fixpoint deliver_all (outs : list tval) (ws : list wire) (st : state) : res state :=
  match ws with
  | [] => Ok st
  | w :: rest =>
      match deliver outs st w with
      | Ok st' => deliver_all outs rest st'
      | Err e c => Err e c
      end
  end.

Definition outgoing (m : nat) : list wire := filter (fun w => Nat.eqb (w_sm w) m) wires.

(* handler call, output coercion, record in the report, mark executed, deliver *)
Definition run_module (m : nat) (md : module) (st : state) : res state :=
  let r := nth m (s_mi st) [] in
  let finish (outs : list tval) (calls : list call) :=
    deliver_all outs (outgoing m)
                (mkSt (s_mi st) (s_order st ++ [m]) (s_runs st ++ [(m, r, outs)]) calls) in
  match handlers m with
  | None => finish [] (s_calls st)
  | Some h =>
      let calls := s_calls st ++ [(m, r)] in
      match call_outputs h md r with
      | inl e => Err e calls
      | inr outs => finish outs calls
      end
  end.

Definition is_ready (mi : minputs) (m : nat) (md : module) : bool :=
  forallb (fun p => is_some (get mi m p)) (seq 0 (length (m_in md))).

(* one `for module_name, spec in self.diagram.modules.items()` sweep *)
Fixpoint pass (ms : list (nat * module)) (st : state) (progressed : bool) : res (state * bool) :=
  match ms with
  | [] => Ok (st, progressed)
  | (m, md) :: rest =>
      if existsb (Nat.eqb m) (s_order st) then pass rest st progressed
      else if is_ready (s_mi st) m md then
        match run_module m md st with
        | Ok st' => pass rest st' true
        | Err e c => Err e c
        end
      else pass rest st progressed
  end.

(* while len(executed) < len(self.diagram.modules) *)
Fixpoint loop (fuel : nat) (st : state) : outcome * list call :=
  if Nat.ltb (length (s_order st)) (length mods) then
    match fuel with
    | O => (OutOfFuel, s_calls st)
    | S f =>
        match pass (indexed mods) st false with
        | Err e c => (Raised e, c)
        | Ok (st', false) => (Raised ECannotResolve, s_calls st')
        | Ok (st', true) => loop f st'
        end
    end
  else (Report (s_order st) (s_runs st), s_calls st).

Definition execute (ext : list (nat * list (nat * oval))) : outcome * list call :=
  match ext_mods (init_inputs mods) ext with
  | inl e => (Raised e, [])
  | inr mi =>
      match preflight mi with
      | Some e => (Raised e, [])
      | None => loop (S (length mods)) (mkSt mi [] [] [])
      end
  end.

End Exec.

(* ---------------------------------------------------------------------- *)
(* DiagramExecutors over one diagram, over time: register_module and execute in any order, and
   DiagramExecutor(diagram) for another executor (used from then on).  The only state of an
   executor is `_handlers` (a fresh dict per executor); `module_inputs`, `executed`, the report are
   locals of execute(), so an execution neither reads nor leaves anything behind, and nothing is
   shared between executors or kept with the diagram. *)

Definition extin := list (nat * list (nat * oval)).           (* external_inputs *)

Inductive xop :=
  | XReg (m : nat) (h : handler)                  (* register_module(name, handler) *)
  | XExec (ext : extin) (enforce : bool)          (* execute(ext, enforce_static_checks) *)
  | XNew.                                         (* DiagramExecutor(diagram): no handlers yet *)

(* what an operation did: register_module returned (true) or raised WiringError "Unknown
   module" (false); execute ran with the handler table [hs] and ended with [res] *)
Inductive xev :=
  | EvReg (ok : bool)
  | EvNew
  | EvExec (hs : nat -> option handler) (ext : extin) (enforce : bool) (res : outcome * list call).

Definition register (mods : list module) (hs : nat -> option handler) (m : nat) (h : handler)
  : option (nat -> option handler) :=
  match nth_error mods m with
  | Some _ => Some (fun k => if Nat.eqb k m then Some h else hs k)
  | None => None
  end.

Fixpoint run_ops (mods : list module) (wires : list wire) (hs : nat -> option handler)
         (ops : list xop) : list xev :=
  match ops with
  | [] => []
  | XReg m h :: rest =>
      match register mods hs m h with
      | Some hs' => EvReg true :: run_ops mods wires hs' rest
      | None => EvReg false :: run_ops mods wires hs rest
      end
  | XExec ext enforce :: rest =>
      EvExec hs ext enforce (execute mods wires hs enforce ext) :: run_ops mods wires hs rest
  | XNew :: rest => EvNew :: run_ops mods wires (fun _ => None) rest
  end.

(* ---------------------------------------------------------------------- *)
(* The caller's own external_inputs mapping OBJECTS.  A caller may build a mapping {module: {port:
   value}} once and pass the very same object to execute() again and again -- on one executor or on
   several -- and may rewrite it himself in between.  [store]: the contents of the caller's mapping
   objects, by index.  execute() only READS the mapping it is given: `module_inputs` is a fresh dict of
   fresh dicts, every external value is put into it port by port (`module_inputs[m][p] =
   _coerce_input(...)`), and wire deliveries go into `module_inputs` -- never into the caller's dicts.
   So a call by reference ([CExecRef k]) is the execution of the contents the mapping has at that time
   and leaves the store as it is; only the caller's own assignments ([CAssign]) change it.  After every
   call by reference the caller looks at his mapping ([CEvStore]: what he finds there). *)
Definition store := list extin.
Definition st_get (st : store) (k : nat) : extin := nth k st [].
Definition st_set (st : store) (k : nat) (e : extin) : store := set_nth st k e.

Inductive cop :=
  | COp (o : xop)                          (* as before: a mapping built for this one call *)
  | CExecRef (k : nat) (enforce : bool)    (* execute(E_k, enforce) with the caller's k-th mapping object *)
  | CAssign (k : nat) (ext : extin).       (* the caller himself rewrites his k-th mapping object *)

Inductive cev :=
  | CEv (e : xev)
  | CEvStore (k : nat) (contents : extin).

Fixpoint run_cops (mods : list module) (wires : list wire) (hs : nat -> option handler) (st : store)
         (ops : list cop) : list cev :=
  match ops with
  | [] => []
  | COp (XReg m h) :: rest =>
      match register mods hs m h with
      | Some hs' => CEv (EvReg true) :: run_cops mods wires hs' st rest
      | None => CEv (EvReg false) :: run_cops mods wires hs st rest
      end
  | COp (XExec ext enforce) :: rest =>
      CEv (EvExec hs ext enforce (execute mods wires hs enforce ext)) :: run_cops mods wires hs st rest
  | COp XNew :: rest => CEv EvNew :: run_cops mods wires (fun _ => None) st rest
  | CExecRef k enforce :: rest =>
      CEv (EvExec hs (st_get st k) enforce (execute mods wires hs enforce (st_get st k)))
      :: CEvStore k (st_get st k) :: run_cops mods wires hs st rest
  | CAssign k ext :: rest => run_cops mods wires hs (st_set st k ext) rest
  end.

(* what the caller's mapping objects hold after a history: his own assignments, nothing else *)
Fixpoint store_after (st : store) (ops : list cop) : store :=
  match ops with
  | [] => st
  | CAssign k ext :: rest => store_after (st_set st k ext) rest
  | _ :: rest => store_after st rest
  end.

(* the same history with every call by reference replaced by a call with a mapping built for the
   occasion that holds what the caller last put into the object *)
Fixpoint resolve (st : store) (ops : list cop) : list xop :=
  match ops with
  | [] => []
  | COp o :: rest => o :: resolve st rest
  | CExecRef k enforce :: rest => XExec (st_get st k) enforce :: resolve st rest
  | CAssign k ext :: rest => resolve (st_set st k ext) rest
  end.

Definition xevs (l : list cev) : list xev :=
  flat_map (fun e => match e with CEv x => [x] | CEvStore _ _ => [] end) l.

(* ---------------------------------------------------------------------- *)
(* scripted handlers and canonical observations for the correspondence     *)

(* what a scripted handler puts under a key of the dict it returns:
   - [SV v]: a value built afresh in this invocation (its payload depends on the delivered payloads);
   - [SFwd p]: the very TypedValue the module received on its input port [p], handed back untouched --
     a relay (router, logger, gate).  Its label is whatever label that value carries, which may be
     strictly above the input port's (an over-labelled external input, a downgrading wire).  The raw
     value 0 when the module has no such input port;
   - [SConst t]: a TypedValue built once, before anything ran, and returned as it is wherever a script
     names it: one object under several keys, by several modules, in several executions (the harness
     also hands the same object in as an external input).
   A TypedValue is a frozen dataclass and the executor never asks which object it is looking at
   (`is`, `id()`): the model has no object identities, a forwarded or shared object is the [Lab] of
   its contents. *)
Inductive sval := SV (v : oval) | SFwd (p : nat) | SConst (t : tval).
Inductive hscript := HSNone | HSRaise | HSRet (items : list (nat * sval)).

(* sum over the present inputs of (port index + 1) * payload: makes every output
   payload depend on which value reached which port *)
Fixpoint row_sum (k : Z) (r : row) : Z :=
  match r with
  | [] => 0%Z
  | o :: t => ((match o with Some v => k * tv_val v | None => 0 end) + row_sum (k + 1) t)%Z
  end.

Definition add_payload (s : Z) (v : oval) : oval :=
  match v with
  | Raw x => Raw (x + s)
  | Lab t => Lab (mkTV (tv_dt t) (tv_il t) (tv_val t + s))
  | RawClaim d i x => RawClaim d i (x + s)
  end.

Definition interp_sval (r : row) (s : sval) : oval :=
  match s with
  | SV v => add_payload (row_sum 1 r) v
  | SFwd p => match nth_error r p with Some (Some t) => Lab t | _ => Raw 0 end
  | SConst t => Lab t
  end.

Definition interp_h (s : hscript) : option handler :=
  match s with
  | HSNone => None
  | HSRaise => Some (fun _ => HRaise)
  | HSRet items =>
      Some (fun r => HRet (map (fun kx => (fst kx, interp_sval r (snd kx))) items))
  end.

Definition cmodule := (list ptype * list ptype * list cap * hscript)%type.
Definition cm_module (c : cmodule) : module := let '(i, o, k, _) := c in mkModule i o k.
Definition cm_script (c : cmodule) : hscript := let '(_, _, _, h) := c in h.

(* modules, attempted connects, wires appended to `diagram.wires` directly (NOT through connect: such a
   diagram is outside the property, these cases only tie [deliver]'s per-wire runtime checks to the code;
   [] in every case the property speaks about), external inputs, enforce_static_checks of the first
   execution; then further register_module / execute calls on the same executor *)
Inductive sop := SReg (m : nat) (s : hscript) | SExec (ext : extin) (enforce : bool) | SNew
                 | SExecRef (k : nat) (enforce : bool)      (* execute() with the caller's k-th mapping object *)
                 | SAssign (k : nat) (ext : extin).         (* the caller rewrites that object himself *)
Definition cops_of (l : list sop) : list cop :=
  flat_map (fun o => match o with
                     | SReg m s => match interp_h s with Some h => [COp (XReg m h)] | None => [] end
                     | SExec e f => [COp (XExec e f)]
                     | SNew => [COp XNew]
                     | SExecRef k f => [CExecRef k f]
                     | SAssign k e => [CAssign k e]
                     end) l.

(* the rest of the world of a case: the caller's mapping objects (initial contents), further diagrams over
   the same ModuleSpec objects (lists of module indices; diagram 0 is the case's own diagram, these are
   diagrams 1, 2, ...), and the capability queries / edits made after the connects *)
Definition world := (store * list (list nat) * list capop)%type.

Definition case :=
  (list cmodule * list wire * list wire * extin * bool * list sop * world)%type.

Definition zn (n : nat) : Z := Z.of_nat n.

(* observed: the exception class only (accepted / WiringError; report / WiringError / the
   handler's exception / KeyError), not the message *)
Definition cerr_code (r : option cerr) : Z :=
  match r with None => 0 | Some _ => 1 end%Z.

Definition err_code (e : err) : Z :=
  match e with
  | EHandlerRaised => 20
  | EKeyError => 30
  | _ => 1
  end%Z.

Definition tv_obs (t : tval) : list Z := [zn (dt_code (tv_dt t)); zn (il_rank (tv_il t)); tv_val t].
Definition row_obs (r : row) : list Z :=
  flat_map (fun o => match o with Some t => 1%Z :: tv_obs t | None => [0; 0; 0; 0]%Z end) r.

Definition caps_obs (l : list cap) : list Z :=
  map (fun c => zn (cap_code c)) (filter (fun c => cap_mem c l) all_caps).

(* one execution: exception class, number of handler invocations, each invocation's input row,
   and for a report the execution order and every module's recorded inputs and outputs *)
Definition exec_obs (res : outcome * list call) : list (list Z) :=
  let '(out, calls) := res in
  [ [ match out with Report _ _ => 0%Z | Raised e => err_code e | OutOfFuel => (-1)%Z end ];
    [ zn (length calls) ] ]
  ++ map (fun cl : call => zn (fst cl) :: row_obs (snd cl)) calls
  ++ match out with
     | Report order runs =>
         map zn order ::
         map (fun r : run => let '(m, ins, outs) := r in
                zn m :: zn (length ins) :: row_obs ins ++ flat_map tv_obs outs) runs
     | _ => []
     end.

Definition ev_obs (e : xev) : list (list Z) :=
  match e with
  | EvReg ok => [ [ (-5)%Z; if ok then 0%Z else 1%Z ] ]
  | EvNew => [ [ (-7)%Z ] ]
  | EvExec _ _ _ res => [ (-6)%Z ] :: exec_obs res
  end.

(* what the caller finds in a mapping object: per module entry its index and number of ports, per port its
   index and the value (a TypedValue with its label and payload, anything else as its payload) *)
Definition oval_obs (v : oval) : list Z :=
  match v with
  | Raw x => [0; 0; 0; x]%Z
  | Lab t => 1%Z :: tv_obs t
  | RawClaim _ _ x => [0; 0; 0; x]%Z
  end.
Definition ext_obs (e : extin) : list Z :=
  flat_map (fun mp : nat * list (nat * oval) =>
              zn (fst mp) :: zn (length (snd mp)) ::
              flat_map (fun pv : nat * oval => zn (fst pv) :: oval_obs (snd pv)) (snd mp)) e.

Definition cev_obs (e : cev) : list (list Z) :=
  match e with
  | CEv x => ev_obs x
  | CEvStore k c => [ (-8)%Z :: zn k :: ext_obs c ]
  end.

Definition run_case (c : case) : list (list Z) :=
  let '(cms, attempts, forced, ext, enforce, ops, (shared, diagrams, capops)) := c in
  let mods := map cm_module cms in
  let hs := fun m => match nth_error cms m with Some cm => interp_h (cm_script cm) | None => None end in
  let wires := build mods attempts ++ forced in
  let cr := cap_run (seq 0 (length mods) :: diagrams) (mkCW (map m_caps mods) (required_caps mods)) capops in
  [ map (fun w => cerr_code (connect_check mods w)) attempts;
    caps_obs (required_caps mods) ]
  ++ map (fun da : nat * list cap => (-9)%Z :: zn (fst da) :: caps_obs (snd da)) (fst cr)
  ++ map (fun mc : nat * list cap => (-10)%Z :: zn (fst mc) :: caps_obs (snd mc)) (indexed (cw_caps (snd cr)))
  ++ flat_map cev_obs (run_cops mods wires hs shared (COp (XExec ext enforce) :: cops_of ops)).
