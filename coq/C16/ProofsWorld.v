(* C16 -- lemmas about state that outlives one call: the caller's own external_inputs mapping objects
   passed to execute() again and again ([run_cops]), and ModuleSpec objects shared between several
   diagrams whose required_capabilities() are asked in any order, the caller editing the sets he is
   handed ([cap_run]). *)
From Coq Require Import ZArith List Bool Arith Lia.
From Verif Require Import C16.Model C16.Proofs.
Import ListNotations.
Local Open Scope nat_scope.

(* ---------------------------------------------------------------------- *)
(* the caller's mapping objects                                             *)

(* refinement: the executor events of a history with calls by reference are those of the history in
   which every such call is given a mapping built for the occasion *)
Lemma run_cops_refines mods wires : forall ops hs st,
  xevs (run_cops mods wires hs st ops) = run_ops mods wires hs (resolve st ops).
Proof.
  induction ops as [|[[m h|ext enforce|]|k enforce|k ext] rest IH]; intros hs st;
    cbn [run_cops resolve run_ops xevs flat_map app].
  - reflexivity.
  - destruct (register mods hs m h) as [hs'|]; cbn [flat_map app]; f_equal; apply IH.
  - f_equal. apply IH.
  - f_equal. apply IH.
  - f_equal. apply IH.
  - apply IH.
Qed.

Lemma in_xevs e l : In (CEv e) l -> In e (xevs l).
Proof.
  intros H. unfold xevs. apply in_flat_map. exists (CEv e). split; [exact H|left; reflexivity].
Qed.

(* every execution of such a history *)
Lemma reused_mapping_executions mods attempts hs0 st0 ops hs ext enforce res :
  In (CEv (EvExec hs ext enforce res)) (run_cops mods (build mods attempts) hs0 st0 ops) ->
  (exists pre post, resolve st0 ops = pre ++ XExec ext enforce :: post /\ hs = handlers_after mods hs0 pre) /\
  res = execute mods (build mods attempts) hs enforce ext /\
  execution_ok mods (build mods attempts) hs ext res.
Proof.
  intros Hin. apply in_xevs in Hin. rewrite run_cops_refines in Hin.
  exact (every_execution_of_an_executor_proof _ _ _ _ _ _ _ _ Hin).
Qed.

(* every call by reference IS an execution of the contents the caller last put into that object, with the
   handlers registered by then; and afterwards the caller finds exactly those contents in it *)
Lemma reused_mapping_calls mods wires : forall pre hs0 st0 k enforce post,
  let hs := handlers_after mods hs0 (resolve st0 pre) in
  let ext := st_get (store_after st0 pre) k in
  In (CEv (EvExec hs ext enforce (execute mods wires hs enforce ext)))
     (run_cops mods wires hs0 st0 (pre ++ CExecRef k enforce :: post)) /\
  In (CEvStore k ext) (run_cops mods wires hs0 st0 (pre ++ CExecRef k enforce :: post)).
Proof.
  induction pre as [|[[m h|ext' enforce'|]|k' enforce'|k' ext'] rest IH]; intros hs0 st0 k enforce post;
    cbn [app run_cops resolve store_after handlers_after].
  - split; [left; reflexivity|right; left; reflexivity].
  - destruct (register mods hs0 m h) as [hs'|].
    + destruct (IH hs' st0 k enforce post) as [H1 H2]. split; right; assumption.
    + destruct (IH hs0 st0 k enforce post) as [H1 H2]. split; right; assumption.
  - destruct (IH hs0 st0 k enforce post) as [H1 H2]. split; right; assumption.
  - destruct (IH (fun _ => None) st0 k enforce post) as [H1 H2]. split; right; assumption.
  - destruct (IH hs0 st0 k enforce post) as [H1 H2]. split; right; right; assumption.
  - apply IH.
Qed.

(* whatever the caller finds in a mapping object after a call by reference is what he put there himself *)
Lemma reused_mapping_untouched mods wires : forall ops hs0 st0 k c,
  In (CEvStore k c) (run_cops mods wires hs0 st0 ops) ->
  exists pre enforce post, ops = pre ++ CExecRef k enforce :: post /\ c = st_get (store_after st0 pre) k.
Proof.
  induction ops as [|[[m h|ext' enforce'|]|k' enforce'|k' ext'] rest IH]; intros hs0 st0 k c Hin;
    cbn [run_cops] in Hin.
  - destruct Hin.
  - destruct (register mods hs0 m h) as [hs'|]; (destruct Hin as [Hin|Hin]; [discriminate Hin|]);
      destruct (IH _ _ _ _ Hin) as (pre & e & post & -> & ->);
      exists (COp (XReg m h) :: pre), e, post; split; reflexivity.
  - destruct Hin as [Hin|Hin]; [discriminate Hin|].
    destruct (IH _ _ _ _ Hin) as (pre & e & post & -> & ->).
    exists (COp (XExec ext' enforce') :: pre), e, post; split; reflexivity.
  - destruct Hin as [Hin|Hin]; [discriminate Hin|].
    destruct (IH _ _ _ _ Hin) as (pre & e & post & -> & ->).
    exists (COp XNew :: pre), e, post; split; reflexivity.
  - destruct Hin as [Hin|[Hin|Hin]]; [discriminate Hin| |].
    + inversion Hin; subst. exists [], enforce', rest. split; reflexivity.
    + destruct (IH _ _ _ _ Hin) as (pre & e & post & -> & ->).
      exists (CExecRef k' enforce' :: pre), e, post; split; reflexivity.
  - destruct (IH _ _ _ _ Hin) as (pre & e & post & -> & ->).
    exists (CAssign k' ext' :: pre), e, post; split; reflexivity.
Qed.

Lemma reused_mapping_proof mods attempts hs0 st0 ops :
  let wires := build mods attempts in
  (forall hs ext enforce res,
     In (CEv (EvExec hs ext enforce res)) (run_cops mods wires hs0 st0 ops) ->
     (exists pre post, resolve st0 ops = pre ++ XExec ext enforce :: post /\ hs = handlers_after mods hs0 pre) /\
     res = execute mods wires hs enforce ext /\
     execution_ok mods wires hs ext res) /\
  (forall pre k enforce post, ops = pre ++ CExecRef k enforce :: post ->
     let hs := handlers_after mods hs0 (resolve st0 pre) in
     let ext := st_get (store_after st0 pre) k in
     In (CEv (EvExec hs ext enforce (execute mods wires hs enforce ext))) (run_cops mods wires hs0 st0 ops) /\
     In (CEvStore k ext) (run_cops mods wires hs0 st0 ops)) /\
  (forall k c, In (CEvStore k c) (run_cops mods wires hs0 st0 ops) ->
     exists pre enforce post, ops = pre ++ CExecRef k enforce :: post /\ c = st_get (store_after st0 pre) k).
Proof.
  intros wires. split; [|split].
  - intros hs ext enforce res Hin. exact (reused_mapping_executions _ _ _ _ _ _ _ _ _ Hin).
  - intros pre k enforce post ->. apply reused_mapping_calls.
  - intros k c Hin. exact (reused_mapping_untouched _ _ _ _ _ _ _ Hin).
Qed.

(* ---------------------------------------------------------------------- *)
(* ModuleSpec objects shared between diagrams                               *)

Lemma caps_of_required mods : forall d acc,
  fold_left (fun a i => cap_union a (nth i (map m_caps mods) [])) d acc =
  fold_left (fun a md => cap_union a (m_caps md)) (diagram_mods mods d) acc.
Proof.
  induction d as [|i d IH]; intros acc; cbn [fold_left diagram_mods flat_map]; [reflexivity|].
  fold (diagram_mods mods d). rewrite fold_left_app.
  destruct (nth_error mods i) as [md|] eqn:Hn.
  - cbn [fold_left]. rewrite <- IH. f_equal. f_equal.
    change [] with (m_caps (mkModule [] [] [])). rewrite map_nth.
    apply nth_error_nth with (d := mkModule [] [] []) in Hn. rewrite Hn. reflexivity.
  - cbn [fold_left]. rewrite <- IH. f_equal.
    apply nth_error_None in Hn. rewrite nth_overflow; [reflexivity|]. rewrite map_length. exact Hn.
Qed.

Lemma caps_of_is_required mods d :
  caps_of (map m_caps mods) d = required_caps (diagram_mods mods d).
Proof. unfold caps_of, required_caps. apply caps_of_required. Qed.

(* a query changes no ModuleSpec; neither does an edit of the set the caller holds *)
Lemma cap_step_caps diagrams w o : cw_caps (fst (cap_step diagrams w o)) = cw_caps w.
Proof. destruct o; reflexivity. Qed.

Lemma cap_run_caps diagrams : forall ops w, cw_caps (snd (cap_run diagrams w ops)) = cw_caps w.
Proof.
  induction ops as [|o rest IH]; intros w; cbn [cap_run snd]; [reflexivity|].
  rewrite IH. apply cap_step_caps.
Qed.

Lemma cap_run_answers diagrams : forall ops w d a,
  In (d, a) (fst (cap_run diagrams w ops)) -> a = caps_of (cw_caps w) (nth d diagrams []).
Proof.
  induction ops as [|o rest IH]; intros w d a Hin; cbn [cap_run fst] in Hin; [destruct Hin|].
  destruct o as [d'| |c]; cbn [cap_step snd fst] in Hin.
  - destruct Hin as [Hin|Hin].
    + inversion Hin; subst. reflexivity.
    + apply IH in Hin. exact Hin.
  - apply IH in Hin. exact Hin.
  - apply IH in Hin. exact Hin.
Qed.

Lemma capabilities_every_query_proof mods diagrams held ops :
  let r := cap_run diagrams (mkCW (map m_caps mods) held) ops in
  (forall d a, In (d, a) (fst r) ->
     (forall c, In c a <-> exists md, In md (diagram_mods mods (nth d diagrams [])) /\ In c (m_caps md)) /\
     NoDup a) /\
  cw_caps (snd r) = map m_caps mods /\
  length (fst r) = length (filter (fun o => match o with QCaps _ => true | _ => false end) ops).
Proof.
  intros r. split; [|split].
  - intros d a Hin. apply cap_run_answers in Hin. cbn [cw_caps] in Hin.
    rewrite caps_of_is_required in Hin. subst a. apply capabilities_union_full.
  - unfold r. rewrite cap_run_caps. reflexivity.
  - unfold r. generalize (mkCW (map m_caps mods) held).
    induction ops as [|o rest IH]; intros w; cbn [cap_run fst filter length]; [reflexivity|].
    destruct o; cbn [cap_step snd fst length]; rewrite IH; reflexivity.
Qed.
