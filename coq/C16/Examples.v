(* C16 — non-vacuity: concrete diagrams that meet the hypotheses of each theorem of
   Property.v (by computation).  The unchanged code satisfies C16, so there is no
   [..._legacy_refuted] lemma here. *)
From Coq Require Import ZArith List Bool.
From Verif Require Import C16.Model C16.Proofs C16.ProofsWorld.
Import ListNotations.
Open Scope Z_scope.

(* m0: sink with one (Text, Validated) input; m1: source with a (Text, Trusted) output and a
   (Json, Untrusted) output; m2: (Json, Untrusted) -> (Text, Validated) transformer.
   Index order is not a topological order: m1 must run first, m0 last. *)
Definition src := mkModule [] [(DText, Trusted); (DJson, Untrusted)] [CNet].
Definition mid := mkModule [(DJson, Untrusted)] [(DText, Validated)] [CNet; CExecCode].
Definition snk := mkModule [(DText, Validated)] [] [CWriteFs].
Definition snk2 := mkModule [(DText, Validated); (DText, Untrusted)] [] [CWriteFs].

Definition good_h : hscript := HSRet [(0%nat, SV (Raw 1)); (1%nat, SV (Lab (mkTV DJson Untrusted 2)))].
Definition hs (l : list hscript) (m : nat) : option handler :=
  match nth_error l m with Some s => interp_h s | None => None end.

(* ---- connect ---- *)
Example ex_connect_accepts :
  flows_ok [snk; src; mid] (1, 1, 2, 0)%nat /\
  connect [snk; src; mid] [] (1, 1, 2, 0)%nat = inl [(1, 1, 2, 0)%nat].
Proof. split; [|reflexivity]. exists (DJson, Untrusted), (DJson, Untrusted). cbn. auto. Qed.

(* Validated output into a Trusted input is refused; so is Text into Json *)
Example ex_connect_refuses :
  connect [mkModule [(DText, Trusted)] [] []; mid] [] (1, 0, 0, 0)%nat = inr CIntegrity /\
  connect [snk; src; mid] [] (1, 0, 2, 0)%nat = inr CTypeMismatch /\
  connect [snk; src; mid] [] (1, 5, 2, 0)%nat = inr CUnknownOut.
Proof. repeat split. Qed.

(* ---- a successful execution needing two sweeps: order m1, m2, m0 ---- *)
Definition ok_mods := [snk; src; mid].
Definition ok_attempts : list wire := [(2, 0, 0, 0); (1, 1, 2, 0); (1, 0, 2, 0)]%nat.   (* the last is refused *)
Definition ok_hs := hs [HSNone; good_h; HSRet [(0%nat, SV (Raw 10))]].

Example ex_build : build ok_mods ok_attempts = [(2, 0, 0, 0); (1, 1, 2, 0)]%nat.
Proof. reflexivity. Qed.

Example ex_success :
  exists runs calls,
    execute ok_mods (build ok_mods ok_attempts) ok_hs true [] = (Report [1; 2; 0]%nat runs, calls) /\
    map fst calls = [1; 2]%nat /\
    In (0%nat, [Some (mkTV DText Validated 12)], []) runs.
Proof. eexists. eexists. split; [vm_compute; reflexivity|]. split; [reflexivity|]. cbn. auto. Qed.

(* an external input labelled above the port's integrity is accepted as it is *)
Example ex_external_higher :
  fst (execute [snk] [] (hs [HSNone]) true [(0%nat, [(0%nat, Lab (mkTV DText Trusted 5))])])
  = Report [0%nat] [(0%nat, [Some (mkTV DText Trusted 5)], [])].
Proof. reflexivity. Qed.

(* ---- mislabelled output: the hypotheses of c16_mislabelled_output_rejected hold ---- *)
Definition bad_h : hscript := HSRet [(0%nat, SV (Lab (mkTV DText Validated 1))); (1%nat, SV (Raw 2))].

Example ex_mislabelled :
  let handlers := hs [HSNone; bad_h; HSRet [(0%nat, SV (Raw 10))]] in
  exists h,
    execute ok_mods (build ok_mods ok_attempts) handlers true [] = (Raised EOutInteg, [(1%nat, [])]) /\
    handlers 1%nat = Some h /\ h [] = HRet [(0%nat, Lab (mkTV DText Validated 1)); (1%nat, Raw 2)] /\
    nth_error (m_out src) 0 = Some (DText, Trusted) /\
    ~ exact (mkTV DText Validated 1) (DText, Trusted).
Proof.
  eexists. split; [vm_compute; reflexivity|]. split; [reflexivity|]. split; [reflexivity|].
  split; [reflexivity|]. intros [_ H]. discriminate H.
Qed.

(* too-high integrity on an output is rejected as well (exact match is required) *)
Example ex_mislabelled_high :
  fst (execute [mkModule [] [(DText, Untrusted)] []] [] (hs [HSRet [(0%nat, SV (Lab (mkTV DText Trusted 1)))]]) true [])
  = Raised EOutInteg.
Proof. reflexivity. Qed.

(* ---- unschedulable diagrams ---- *)
(* cycle m0 -> m1 -> m0 *)
Definition a := mkModule [(DText, Untrusted)] [(DText, Untrusted)] [].
Definition cyc_attempts : list wire := [(0, 0, 1, 0); (1, 0, 0, 0)]%nat.

Example ex_cycle :
  cyclic (build [a; a] cyc_attempts) /\
  execute [a; a] (build [a; a] cyc_attempts) (hs [HSRet [(0%nat, SV (Raw 1))]; HSRet [(0%nat, SV (Raw 1))]]) true []
  = (Raised ECannotResolve, []).
Proof.
  split; [|reflexivity]. exists 0%nat.
  apply (path_step _ (0, 0, 1, 0)%nat); [cbn; auto|].
  apply (path_one _ (1, 0, 0, 0)%nat). cbn. auto.
Qed.

(* self-loop *)
Example ex_self_loop :
  cyclic (build [a] [(0, 0, 0, 0)%nat]) /\
  fst (execute [a] (build [a] [(0, 0, 0, 0)%nat]) (hs [HSRet [(0%nat, SV (Raw 1))]]) true []) = Raised ECannotResolve.
Proof. split; [|reflexivity]. exists 0%nat. apply (path_one _ (0, 0, 0, 0)%nat). cbn. auto. Qed.

(* a cycle whose back edge is also fed from outside: the module runs, the delivery raises *)
Example ex_cycle_external :
  execute [a] (build [a] [(0, 0, 0, 0)%nat]) (hs [HSRet [(0%nat, SV (Raw 1))]]) true [(0%nat, [(0%nat, Raw 4)])]
  = (Raised EMultiVal, [(0%nat, [Some (mkTV DText Untrusted 4)])]).
Proof. reflexivity. Qed.

(* fan-in: two accepted wires into one input port *)
Definition two_src := [mkModule [] [(DText, Trusted)] []; mkModule [] [(DText, Validated)] []; snk].
Example ex_duplicate_source :
  duplicate_source (build two_src [(0, 0, 2, 0); (1, 0, 2, 0)]%nat) /\
  execute two_src (build two_src [(0, 0, 2, 0); (1, 0, 2, 0)]%nat)
          (hs [HSRet [(0%nat, SV (Raw 1))]; HSRet [(0%nat, SV (Raw 1))]]) true [] = (Raised EMultiSrc, []).
Proof.
  split; [|reflexivity]. exists [], (0, 0, 2, 0)%nat, [], (1, 0, 2, 0)%nat, []. repeat split.
Qed.

Example ex_missing_source :
  missing_source [snk2] [] [(0%nat, [(0%nat, Raw 1)])] /\
  execute [snk2] [] (hs []) true [(0%nat, [(0%nat, Raw 1)])] = (Raised EMissingSrc, []).
Proof.
  split; [|reflexivity]. exists 0%nat, snk2, 1%nat.
  split; [reflexivity|]. split; [cbn; auto|]. split.
  - intros w [].
  - intros ps v [H|[]] Hin. inversion H; subst. destruct Hin as [Hin|[]]. discriminate Hin.
Qed.

Example ex_missing_handler :
  missing_handler ok_mods (hs [HSNone; HSNone; HSRet [(0%nat, SV (Raw 10))]]) /\
  execute ok_mods (build ok_mods ok_attempts) (hs [HSNone; HSNone; HSRet [(0%nat, SV (Raw 10))]]) true []
  = (Raised ENoHandler, []).
Proof. split; [|reflexivity]. exists 1%nat, src. repeat split. discriminate. Qed.

(* a handler's own exception is the only non-WiringError outcome *)
Example ex_handler_raises :
  let handlers := hs [HSNone; HSRaise; HSRet [(0%nat, SV (Raw 10))]] in
  execute ok_mods (build ok_mods ok_attempts) handlers true [] = (Raised EHandlerRaised, [(1%nat, [])]) /\
  handler_raised handlers [(1%nat, [])].
Proof.
  split; [reflexivity|]. exists (1%nat, []). eexists. split; [cbn; auto|]. split; reflexivity.
Qed.

(* ---- capabilities ---- *)
Example ex_caps : required_caps ok_mods = [CWriteFs; CNet; CExecCode].
Proof. reflexivity. Qed.

(* ---- raw values that claim a label of their own (ApprovalToken(integrity=UNTRUSTED), look-alikes) ---- *)
(* as an external input on an (Approval, Trusted) port and as a handler output on such a port:
   not a TypedValue, so it is given exactly the port's label *)
Definition gate := mkModule [(DApproval, Trusted)] [(DApproval, Trusted)] [CMoney].
Example ex_raw_claim :
  fst (execute [gate] [] (hs [HSRet [(0%nat, SV (RawClaim (Some DText) (Some Validated) 7))]]) true
               [(0%nat, [(0%nat, RawClaim None (Some Untrusted) 5)])])
  = Report [0%nat] [(0%nat, [Some (mkTV DApproval Trusted 5)], [mkTV DApproval Trusted 12])].
Proof. reflexivity. Qed.

(* ---- relays: a handler that hands back the value it received ---- *)
(* src (Text, Trusted) --downgrading wire--> relay.in (Text, Validated); relay.out is declared (Text, Validated)
   too and wired into a (Text, Untrusted) sink.  The forwarded value is labelled Trusted: rejected, although
   it entered through a port of the very type of the output port.  The hypotheses of
   c16_forwarded_value_judged_by_its_label hold, with p = pin and the label above the port's. *)
Definition r_src := mkModule [] [(DText, Trusted)] [].
Definition relay (pi po : ptype) := mkModule [pi] [po] [].
Definition r_snk := mkModule [(DText, Untrusted)] [] [].
Definition relay_mods := [r_src; relay (DText, Validated) (DText, Validated); r_snk].
Definition relay_attempts : list wire := [(0, 0, 1, 0); (1, 0, 2, 0)]%nat.
Definition relay_hs := hs [HSRet [(0%nat, SV (Raw 7))]; HSRet [(0%nat, SFwd 0)]; HSNone].

Example ex_relay_over_labelled :
  let t := mkTV DText Trusted 7 in
  exists h,
    build relay_mods relay_attempts = relay_attempts /\
    execute relay_mods (build relay_mods relay_attempts) relay_hs true []
      = (Raised EOutInteg, [(0%nat, []); (1%nat, [Some t])]) /\
    relay_hs 1%nat = Some h /\ h [Some t] = HRet [(0%nat, Lab t)] /\
    nth_error (m_out (relay (DText, Validated) (DText, Validated))) 0 = Some (DText, Validated) /\
    nth_error (m_in (relay (DText, Validated) (DText, Validated))) 0 = Some (DText, Validated) /\
    typed t (DText, Validated) /\ tv_il t <> Validated.
Proof.
  eexists. split; [reflexivity|]. split; [vm_compute; reflexivity|]. split; [reflexivity|].
  split; [reflexivity|]. split; [reflexivity|]. split; [reflexivity|]. split; [|discriminate].
  split; [reflexivity|]. cbn. auto.
Qed.

(* the same with an over-labelled external input: (Json, Trusted) given to a (Json, Untrusted) port and
   handed back on a (Json, Untrusted) port *)
Example ex_relay_external :
  fst (execute [relay (DJson, Untrusted) (DJson, Untrusted)] [] (hs [HSRet [(0%nat, SFwd 0)]]) true
               [(0%nat, [(0%nat, Lab (mkTV DJson Trusted 1))])]) = Raised EOutInteg.
Proof. reflexivity. Qed.

(* a relay whose output port is declared at the value's own label reports: from a (Text, Validated) input to a
   (Text, Trusted) output -- same data type, input integrity <= output integrity *)
Example ex_relay_exact :
  fst (execute [r_src; relay (DText, Validated) (DText, Trusted); r_snk]
               (build [r_src; relay (DText, Validated) (DText, Trusted); r_snk] relay_attempts) relay_hs true [])
  = Report [0; 1; 2]%nat
           [(0%nat, [], [mkTV DText Trusted 7]);
            (1%nat, [Some (mkTV DText Trusted 7)], [mkTV DText Trusted 7]);
            (2%nat, [Some (mkTV DText Trusted 7)], [])].
Proof. reflexivity. Qed.

(* one value under two keys and returned by two modules ([SConst]): judged port by port, by its label alone *)
Example ex_shared_value :
  let v := mkTV DText Validated 3 in
  let two := mkModule [] [(DText, Validated); (DText, Validated)] [] in
  let low := mkModule [] [(DText, Untrusted)] [] in
  fst (execute [two] [] (hs [HSRet [(0%nat, SConst v); (1%nat, SConst v)]]) true [])
    = Report [0%nat] [(0%nat, [], [v; v])] /\
  execute [two; low] [] (hs [HSRet [(0%nat, SConst v); (1%nat, SConst v)]; HSRet [(0%nat, SConst v)]]) true []
    = (Raised EOutInteg, [(0%nat, []); (1%nat, [])]).
Proof. split; reflexivity. Qed.

(* ---- invocation order in an execution that raises: m1, then m2 (whose output is mislabelled) ---- *)
Example ex_topological_in_failing_run :
  let handlers := hs [HSNone; good_h; HSRet [(0%nat, SV (Lab (mkTV DText Untrusted 10)))]] in
  exists r1 r2,
    execute ok_mods (build ok_mods ok_attempts) handlers true [] = (Raised EOutInteg, [(1%nat, r1); (2%nat, r2)]) /\
    In (1, 1, 2, 0)%nat (build ok_mods ok_attempts).
Proof. eexists. eexists. split; [vm_compute; reflexivity|]. cbn. auto. Qed.

(* ---- one executor over time ---- *)
(* execute fails (mislabelled output of m1, after nothing was delivered), the handler is replaced,
   execute succeeds in the order m1, m2, m0 exactly as a fresh executor would; then an execution
   with a handler that raises; a new executor over the same diagram has no handler for m1 *)
Definition h_of (s : hscript) : handler :=
  match interp_h s with Some h => h | None => fun _ => HRaise end.
Definition hist_ops : list xop :=
  [XExec [] true; XReg 1%nat (h_of good_h); XReg 7%nat (h_of good_h); XExec [] false;
   XReg 2%nat (h_of HSRaise); XExec [] true; XNew; XExec [] true].
Example ex_history :
  let hs0 := hs [HSNone; bad_h; HSRet [(0%nat, SV (Raw 10))]] in
  map (fun e => match e with
                | EvReg ok => (if ok then 100 else 101, [])
                | EvNew => (102, [])
                | EvExec _ _ _ (Report order _, calls) => (0, map fst calls)
                | EvExec _ _ _ (Raised e, calls) => (err_code e, map fst calls)
                | EvExec _ _ _ (OutOfFuel, calls) => (-1, map fst calls)
                end) (run_ops ok_mods (build ok_mods ok_attempts) hs0 hist_ops)
  = [(1, [1%nat]); (100, []); (101, []); (0, [1; 2]%nat); (100, []); (20, [1; 2]%nat); (102, []); (1, [])].
Proof. vm_compute. reflexivity. Qed.

(* external inputs differ between executions: what an earlier execution was given does not count later *)
Example ex_history_external :
  map (fun e => match e with
                | EvExec _ _ _ (Report order _, _) => 0
                | EvExec _ _ _ (Raised e, _) => match e with EMissingSrc => 7 | EInInteg => 4 | _ => 1 end
                | _ => -1
                end)
      (run_ops [snk2] [] (hs [])
               [XExec [(0%nat, [(0%nat, Raw 1); (1%nat, Lab (mkTV DText Validated 2))])] true;
                XExec [(0%nat, [(1%nat, Raw 3); (0%nat, Lab (mkTV DText Untrusted 2))])] true;   (* fails after port 1 was stored *)
                XExec [(0%nat, [(0%nat, Raw 1)])] true;                                          (* port 1 has no source now *)
                XExec [] true])
  = [0; 4; 7; 7].
Proof. vm_compute. reflexivity. Qed.

(* ---- a wired input port that is also given a value from outside: m0 starts at once, the wire's delivery raises ---- *)
Example ex_wire_and_external :
  In (2, 0, 0, 0)%nat (build ok_mods ok_attempts) /\
  ext_feeds [(0%nat, [(0%nat, Raw 3)])] 0 0 /\
  fst (execute ok_mods (build ok_mods ok_attempts) ok_hs true [(0%nat, [(0%nat, Raw 3)])]) = Raised EMultiVal.
Proof.
  split; [cbn; auto|]. split; [|reflexivity]. exists [(0%nat, Raw 3)], (Raw 3). cbn. auto.
Qed.

(* ---- the caller's own mapping object, passed to execute() three times (the third on another executor) and
   rewritten by the caller in between: consumer declared before its producer, an explicitly labelled external
   value on its second port.  Every run is the same run (producer first, then the consumer), and the caller
   finds in his mapping what he put there: no delivered value. ---- *)
Definition re_mods := [mkModule [(DJson, Validated); (DJson, Validated)] [] []; mkModule [] [(DJson, Validated)] [CNet]].
Definition re_hs := hs [HSRet []; HSRet [(0%nat, SV (Raw 5))]].
Definition re_ext : extin := [(0%nat, [(1%nat, Lab (mkTV DJson Validated 9))])].
Definition re_ops : list cop :=
  [CExecRef 0 true; CExecRef 0 true; COp XNew; COp (XReg 1%nat (h_of (HSRet [(0%nat, SV (Raw 5))])));
   COp (XReg 0%nat (h_of (HSRet []))); CExecRef 0 true; CAssign 0 []; CExecRef 0 true].
Example ex_reused_mapping :
  build re_mods [(1, 0, 0, 0)%nat] = [(1, 0, 0, 0)%nat] /\
  map (fun e => match e with
                | CEv (EvExec _ _ _ (Report order _, calls)) => (0, order ++ map fst calls, [])
                | CEv (EvExec _ _ _ (Raised e, calls)) => (err_code e, map fst calls, [])
                | CEvStore k c => (8, [k], c)
                | _ => (-1, [], [])
                end) (run_cops re_mods (build re_mods [(1, 0, 0, 0)%nat]) re_hs [re_ext] re_ops)
  = [(0, [1; 0; 1; 0]%nat, []); (8, [0%nat], re_ext); (0, [1; 0; 1; 0]%nat, []); (8, [0%nat], re_ext);
     (-1, [], []); (-1, [], []); (-1, [], []); (0, [1; 0; 1; 0]%nat, []); (8, [0%nat], re_ext);
     (1, [], []); (8, [0%nat], [])] /\
  resolve [re_ext] re_ops = [XExec re_ext true; XExec re_ext true; XNew; XReg 1%nat (h_of (HSRet [(0%nat, SV (Raw 5))]));
                             XReg 0%nat (h_of (HSRet [])); XExec re_ext true; XExec [] true].
Proof. split; [reflexivity|]. split; [vm_compute; reflexivity|reflexivity]. Qed.

(* ---- one ModuleSpec (src, {NET}) in two diagrams: the big one is asked first, then the small one, then the
   caller empties / extends the set he was handed and asks again ---- *)
Example ex_shared_module_capabilities :
  let r := cap_run [[1; 0; 2]%nat; [1%nat]; []] (mkCW (map m_caps ok_mods) []) [QCaps 0; QCaps 1; QClear; QCaps 0; QAdd CMoney; QCaps 1; QCaps 2] in
  fst r = [(0%nat, [CNet; CWriteFs; CExecCode]); (1%nat, [CNet]); (0%nat, [CNet; CWriteFs; CExecCode]); (1%nat, [CNet]); (2%nat, [])] /\
  cw_caps (snd r) = [[CWriteFs]; [CNet]; [CNet; CExecCode]] /\
  cw_held (snd r) = [].
Proof. vm_compute. auto. Qed.
