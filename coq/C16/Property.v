(* C16 — property theorems only.  Each is closed by [exact] of a lemma from Proofs.v and
   followed by Print Assumptions.  The notions used in the statements ([flows_ok], [typed],
   [exact], [row_ok], [before], [path], [cyclic], [duplicate_source], [missing_source],
   [missing_handler], [handler_raised], [output_rejection], [has_handler], [ext_feeds],
   [handlers_after], [execution_ok]) are defined, with comments, in Proofs.v; [execute], [build], [connect], [required_caps] are the model of
   DiagramExecutor.execute, of a diagram assembled through WiringDiagram.connect, of connect
   and of required_capabilities (Model.v).

   All statements are for every list of modules, every list of attempted connections
   (the diagram holds the accepted ones: [build mods attempts]), every handler oracle
   (raising, wrong key sets, raw / labelled / mislabelled values), every assignment of
   external inputs and both values of enforce_static_checks.  Raw handler results and raw
   external inputs include values that claim a label of their own without being a TypedValue
   ([RawClaim]: an ApprovalToken's integrity field, look-alike objects, dicts): the statements
   hold for all of them, they take the port's label like any other raw value.  A handler is any
   function of its input row, so handlers that hand back a value they received (relays) or one
   value under several keys / in several executions are among them; the model has no object
   identities (the executor never asks for one), such a value is the [Lab] of its contents. *)
From Coq Require Import ZArith List Bool Permutation.
From Verif Require Import C16.Model C16.Proofs C16.ProofsWorld.
Import ListNotations.

(* A connection is accepted exactly when both ports exist, the data types are equal and the
   source integrity is at least the destination's; an accepted connection appends exactly
   that wire, a refused one raises WiringError. *)
Theorem c16_connect_iff :
  forall mods ws w,
    (flows_ok mods w -> connect mods ws w = inl (ws ++ [w])) /\
    (~ flows_ok mods w -> exists e, connect mods ws w = inr e) /\
    (forall ws', connect mods ws w = inl ws' -> ws' = ws ++ [w] /\ flows_ok mods w).
Proof. exact connect_iff_proof. Qed.
Print Assumptions c16_connect_iff.

(* In every execution (also one that raises later) the input row every handler is invoked
   with, and in a successful execution the input row recorded for every module, has one
   filled slot per declared input port and every value in it has the port's data type and
   at least the port's integrity; recorded handler outputs carry exactly the declared label. *)
Theorem c16_delivered_values_typed :
  forall mods attempts handlers enforce ext out calls,
    execute mods (build mods attempts) handlers enforce ext = (out, calls) ->
    (forall m r, In (m, r) calls ->
       exists md, nth_error mods m = Some md /\ row_ok r (m_in md)) /\
    (forall order runs, out = Report order runs ->
       forall m r outs, In (m, r, outs) runs ->
         exists md, nth_error mods m = Some md /\ row_ok r (m_in md) /\
                    (handlers m <> None -> Forall2 exact outs (m_out md))).
Proof. exact delivered_values_typed_proof. Qed.
Print Assumptions c16_delivered_values_typed.

(* If an invoked handler returns, for one of its declared output ports, a labelled value
   whose data type or integrity differs from the declaration, execute raises a WiringError
   (output ports / type / integrity mismatch): no report is produced. *)
Theorem c16_mislabelled_output_rejected :
  forall mods attempts handlers enforce ext out calls m r md h kv j p t,
    execute mods (build mods attempts) handlers enforce ext = (out, calls) ->
    In (m, r) calls -> nth_error mods m = Some md -> handlers m = Some h -> h r = HRet kv ->
    nth_error (m_out md) j = Some p -> lookup j kv = Some (Lab t) -> ~ exact t p ->
    exists e, out = Raised e /\ output_rejection e /\ wiring_error e = true.
Proof. exact mislabelled_output_rejected_proof. Qed.
Print Assumptions c16_mislabelled_output_rejected.

(* _coerce_output judges a labelled handler output by its label and the declared port alone -- not by
   where the value came from, nor by whether it has been looked at before: it is accepted exactly when
   it carries the declared data type and integrity, and is then handed on as it is. *)
Theorem c16_labelled_output_accepted_iff_exact :
  forall t p,
    (exact t p -> coerce_output (Lab t) p = inr t) /\
    (~ exact t p -> coerce_output (Lab t) p = inl EOutType \/ coerce_output (Lab t) p = inl EOutInteg) /\
    (forall t', coerce_output (Lab t) p = inr t' -> t' = t /\ exact t p).
Proof. exact labelled_output_iff_exact. Qed.
Print Assumptions c16_labelled_output_accepted_iff_exact.

(* Relays.  An invoked handler hands back, under its declared output port [j] (declared [p]), the very
   value [t] it received on its input port [q] (declared [pin]).  That value has the data type of [q]
   and at least its integrity -- possibly more: an over-labelled external input, a downgrading wire.
   Having been admitted at [q] counts for nothing at the output: unless [t] carries exactly the label
   [p], execute raises a WiringError and produces no report; in particular when [p] is the very port
   type of [q] and [t] is labelled above it.  A report is possible only when [t] is labelled exactly
   [p], so only from an input port of the same data type whose integrity is at most that of [p]:
   forwarding never passes a value on under a label other than its own. *)
Theorem c16_forwarded_value_judged_by_its_label :
  forall mods attempts handlers enforce ext out calls m r md h kv j p q pin t,
    execute mods (build mods attempts) handlers enforce ext = (out, calls) ->
    In (m, r) calls -> nth_error mods m = Some md -> handlers m = Some h -> h r = HRet kv ->
    nth_error (m_out md) j = Some p -> lookup j kv = Some (Lab t) ->
    nth_error r q = Some (Some t) -> nth_error (m_in md) q = Some pin ->
    typed t pin /\
    (~ exact t p \/ (p = pin /\ tv_il t <> snd pin) ->
       exists e, out = Raised e /\ output_rejection e /\ wiring_error e = true) /\
    (forall order runs, out = Report order runs ->
       exact t p /\ fst pin = fst p /\ il_rank (snd pin) <= il_rank (snd p)).
Proof. exact forwarded_value_proof. Qed.
Print Assumptions c16_forwarded_value_judged_by_its_label.

(* A successful execution runs every module exactly once (execution_order is a permutation
   of the module indices), every module after all modules wired into it, records the modules
   in that order, and has invoked each registered handler exactly once, in that order. *)
Theorem c16_each_module_once_in_topological_order :
  forall mods attempts handlers enforce ext order runs calls,
    execute mods (build mods attempts) handlers enforce ext = (Report order runs, calls) ->
    Permutation order (seq 0 (length mods)) /\
    (forall w, In w (build mods attempts) -> before (w_sm w) (w_dm w) order) /\
    map (fun x : run => fst (fst x)) runs = order /\
    map fst calls = filter (has_handler handlers) order.
Proof. exact each_module_once_proof. Qed.
Print Assumptions c16_each_module_once_in_topological_order.

(* Diagrams that cannot be scheduled raise: the loop never runs out of fuel (it terminates);
   duplicate or missing sources and missing handlers raise a WiringError before any handler
   runs; a cyclic diagram never yields a report; anything raised is a WiringError unless a
   handler itself raised; no handler is ever invoked with a missing input, nor twice. *)
Theorem c16_unschedulable_raises :
  forall mods attempts handlers enforce ext,
    let wires := build mods attempts in
    let res := execute mods wires handlers enforce ext in
    fst res <> OutOfFuel /\
    (duplicate_source wires \/ missing_source mods wires ext \/ missing_handler mods handlers ->
       exists e, res = (Raised e, []) /\ wiring_error e = true) /\
    (cyclic wires ->
       exists e, fst res = Raised e /\
                 (wiring_error e = true \/ (e = EHandlerRaised /\ handler_raised handlers (snd res)))) /\
    (forall e, fst res = Raised e ->
       wiring_error e = true \/ (e = EHandlerRaised /\ handler_raised handlers (snd res))) /\
    (forall c, In c (snd res) ->
       exists md, nth_error mods (fst c) = Some md /\ row_ok (snd c) (m_in md)) /\
    NoDup (map fst (snd res)).
Proof. exact unschedulable_raises_proof. Qed.
Print Assumptions c16_unschedulable_raises.

(* In every execution -- also one that raises later -- handlers are invoked in topological
   order: when the handler of a module is invoked, the handler of the source module of every
   wire into that module has been invoked (and returned) before, the only exception being an
   input port that is in addition given a value from outside in this execution (two sources:
   the executor rejects the clash when the wire delivers, see ex_cycle_external). *)
Theorem c16_handlers_invoked_in_topological_order :
  forall mods attempts handlers enforce ext out calls,
    execute mods (build mods attempts) handlers enforce ext = (out, calls) ->
    forall pre c post, calls = pre ++ c :: post ->
    forall w, In w (build mods attempts) -> w_dm w = fst c ->
      In (w_sm w) (map fst pre) \/ ext_feeds ext (w_dm w) (w_dp w).
Proof. exact calls_topological_proof. Qed.
Print Assumptions c16_handlers_invoked_in_topological_order.

(* Duplicate sources, second kind: an input port that has a wire and is in addition given a value
   from outside never yields a report: execute raises a WiringError (or a handler's own exception
   propagates first). *)
Theorem c16_wired_port_fed_externally_raises :
  forall mods attempts handlers enforce ext w,
    In w (build mods attempts) -> ext_feeds ext (w_dm w) (w_dp w) ->
    exists e, fst (execute mods (build mods attempts) handlers enforce ext) = Raised e /\
              (wiring_error e = true \/
               (e = EHandlerRaised /\
                handler_raised handlers (snd (execute mods (build mods attempts) handlers enforce ext)))).
Proof. exact two_sources_no_report. Qed.
Print Assumptions c16_wired_port_fed_externally_raises.

(* Executors over time: for every sequence of register_module and execute calls (any handlers,
   any external inputs and flags, executions that raise included) and of new executors built over
   the same accepted diagram ([XNew]), every execution in it is the execution of a fresh executor
   holding exactly the handlers registered on the current executor before it -- nothing of an
   earlier execution, failed or not, and nothing of another executor is read -- and
   therefore satisfies everything the property says about one execution ([execution_ok]: it
   terminates; typed complete input rows; no handler twice; topological invocation order;
   mislabelled outputs rejected; unschedulable diagrams (also: a wired port fed externally) raise; a report has every
   module once in topological order with exactly labelled outputs). *)
Theorem c16_every_execution_of_an_executor :
  forall mods attempts hs0 ops hs ext enforce res,
    In (EvExec hs ext enforce res) (run_ops mods (build mods attempts) hs0 ops) ->
    (exists pre post, ops = pre ++ XExec ext enforce :: post /\ hs = handlers_after mods hs0 pre) /\
    res = execute mods (build mods attempts) hs enforce ext /\
    execution_ok mods (build mods attempts) hs ext res.
Proof. exact every_execution_of_an_executor_proof. Qed.
Print Assumptions c16_every_execution_of_an_executor.

(* The caller's own external_inputs mapping objects, used again and again.  For every history of
   register_module / execute / new-executor calls in which execute() is also called BY REFERENCE with one
   of the caller's mapping objects ([CExecRef k]: the very same object as in earlier calls, on the same or
   another executor), the caller rewriting his objects himself in between ([CAssign]):
   (1) every execution of the history is the execution of a fresh executor with the handlers registered so
       far on external inputs [ext], where the sequence of (ext, flag) pairs is that of [resolve st0 ops] --
       each call by reference given the contents the CALLER last put into that object -- and it satisfies
       everything the property says about one execution ([execution_ok]); nothing delivered or seeded in an
       earlier execution is among its inputs;
   (2) every call by reference in the history is such an execution, of exactly those contents, and
   (3) what the caller finds in the object after any such call is what he put there himself: execute()
       never writes to the mapping it is given. *)
Theorem c16_reused_external_inputs_mapping :
  forall mods attempts hs0 st0 ops,
    let wires := build mods attempts in
    (forall hs ext enforce res,
       In (CEv (EvExec hs ext enforce res)) (run_cops mods wires hs0 st0 ops) ->
       (exists pre post, resolve st0 ops = pre ++ XExec ext enforce :: post /\ hs = handlers_after mods hs0 pre) /\
       res = execute mods wires hs enforce ext /\
       execution_ok mods wires hs ext res) /\
    (forall pre k enforce post, ops = pre ++ CExecRef k enforce :: post ->
       let hs := handlers_after mods hs0 (resolve st0 pre) in
       let ext := st_get (store_after st0 pre) k in
       In (CEv (EvExec hs ext enforce (execute mods wires hs enforce ext))) (run_cops mods wires hs0 st0 ops) /\
       In (CEvStore k ext) (run_cops mods wires hs0 st0 ops)) /\
    (forall k c, In (CEvStore k c) (run_cops mods wires hs0 st0 ops) ->
       exists pre enforce post, ops = pre ++ CExecRef k enforce :: post /\ c = st_get (store_after st0 pre) k).
Proof. exact reused_mapping_proof. Qed.
Print Assumptions c16_reused_external_inputs_mapping.

(* Required capabilities are the union over modules (as a duplicate-free collection). *)
Theorem c16_capabilities_union :
  forall mods,
    (forall c, In c (required_caps mods) <-> exists md, In md mods /\ In c (m_caps md)) /\
    NoDup (required_caps mods).
Proof. exact capabilities_union_full. Qed.
Print Assumptions c16_capabilities_union.

(* ... of THAT diagram's modules, every time it is asked: ModuleSpec objects may be shared between any
   number of diagrams ([diagrams]: lists of indices into the ModuleSpec objects [mods]), the diagrams'
   required_capabilities() may be asked in any order and any number of times, and the caller may edit the
   sets he is handed ([QClear], [QAdd]).  Every answer is the duplicate-free union of the capabilities
   DECLARED for the modules of the diagram asked -- whatever was asked of whichever diagram before and
   whatever the caller did to earlier answers --, every query is answered, and no ModuleSpec's
   capabilities are changed by any of it. *)
Theorem c16_capabilities_union_every_query :
  forall mods diagrams held ops,
    let r := cap_run diagrams (mkCW (map m_caps mods) held) ops in
    (forall d a, In (d, a) (fst r) ->
       (forall c, In c a <-> exists md, In md (diagram_mods mods (nth d diagrams [])) /\ In c (m_caps md)) /\
       NoDup a) /\
    cw_caps (snd r) = map m_caps mods /\
    length (fst r) = length (filter (fun o => match o with QCaps _ => true | _ => false end) ops).
Proof. exact capabilities_every_query_proof. Qed.
Print Assumptions c16_capabilities_union_every_query.

(* Not a conjunct of the property text; it accounts for model branches the correspondence can
   never reach: on a diagram assembled through connect the executor's per-wire runtime
   type / integrity checks never fire and no wire names a missing port (connect and
   _coerce_output already guarantee what those checks test). *)
Theorem c16_runtime_wire_checks_never_fire :
  forall mods attempts handlers enforce ext out calls e,
    execute mods (build mods attempts) handlers enforce ext = (out, calls) ->
    out = Raised e -> dead_err e = false.
Proof. exact runtime_wire_checks_dead_proof. Qed.
Print Assumptions c16_runtime_wire_checks_never_fire.
