(* C04 — model of operon_ai/state/metabolism.py, class ATP_Store.
   Executable definitions only (no proofs), so the model still runs when a
   proof breaks.

   A store is the record of the ten fields the property names (balances,
   capacities, debt, debt limit, audit counter, metabolic state) plus the
   exact rational of the float [debt_interest] and two ghost fields: [accrued]
   (sum of the interest added to the debt since construction / the last
   reset) and [owed] (the part of the debt that is interest still outstanding:
   grows by each interest charge, shrinks by each debt payment, never below
   zero), which is what "interest aside" in the property refers to:
   debt <= max_debt + owed.

   The model is parameterised by
     [classify cur cap debt]   — the state decided by _update_state from
                                 atp+gtp, max_atp+max_gtp and the debt;
     [interest rn rd debt]     — int(debt * debt_interest), the rate being rn/rd;
     [legacy]                  — the behaviour before the three fix: commits
                                 0057c42, 28a833c, 3fb3fa1 (documentation only).
   Theorems quantify over every classifier and every non-negative interest
   function; execution ([run_case]) instantiates them with PrimFloat versions
   that are bit-exact with CPython. *)
From Coq Require Import ZArith List Bool PrimFloat Uint63 FloatOps SpecFloat.
Import ListNotations.
Open Scope Z_scope.

Inductive etype := ATP | GTP | NADH.
Inductive mstate := Normal | Conserving | Starving | Feasting | Dormant.

Record store := mkStore {
  atp : Z; gtp : Z; nadh : Z;
  max_atp : Z; max_gtp : Z; max_nadh : Z;
  debt : Z; max_debt : Z;
  total_consumed : Z;
  mst : mstate;
  rate_n : Z; rate_d : Z;        (* debt_interest as an exact fraction *)
  accrued : Z;                   (* ghost: all interest added since construction / reset *)
  owed : Z }.                    (* ghost: interest still outstanding (payments retire it first) *)

(* what a call returned *)
Inductive ret :=
| RUnit                 (* None *)
| RBool (b : bool)
| RInt (z : Z)
| Raised                (* ZeroDivisionError out of _update_state (legacy only) *)
| RNoStore.             (* the operation names a store that does not exist *)

Definition set_atp (s : store) (v : Z) : store :=
  mkStore v (gtp s) (nadh s) (max_atp s) (max_gtp s) (max_nadh s) (debt s) (max_debt s)
          (total_consumed s) (mst s) (rate_n s) (rate_d s) (accrued s) (owed s).
Definition set_gtp (s : store) (v : Z) : store :=
  mkStore (atp s) v (nadh s) (max_atp s) (max_gtp s) (max_nadh s) (debt s) (max_debt s)
          (total_consumed s) (mst s) (rate_n s) (rate_d s) (accrued s) (owed s).
Definition set_nadh (s : store) (v : Z) : store :=
  mkStore (atp s) (gtp s) v (max_atp s) (max_gtp s) (max_nadh s) (debt s) (max_debt s)
          (total_consumed s) (mst s) (rate_n s) (rate_d s) (accrued s) (owed s).
Definition set_debt (s : store) (v : Z) : store :=
  mkStore (atp s) (gtp s) (nadh s) (max_atp s) (max_gtp s) (max_nadh s) v (max_debt s)
          (total_consumed s) (mst s) (rate_n s) (rate_d s) (accrued s) (owed s).
Definition set_total (s : store) (v : Z) : store :=
  mkStore (atp s) (gtp s) (nadh s) (max_atp s) (max_gtp s) (max_nadh s) (debt s) (max_debt s)
          v (mst s) (rate_n s) (rate_d s) (accrued s) (owed s).
Definition set_mst (s : store) (m : mstate) : store :=
  mkStore (atp s) (gtp s) (nadh s) (max_atp s) (max_gtp s) (max_nadh s) (debt s) (max_debt s)
          (total_consumed s) m (rate_n s) (rate_d s) (accrued s) (owed s).
Definition set_accrued (s : store) (v : Z) : store :=
  mkStore (atp s) (gtp s) (nadh s) (max_atp s) (max_gtp s) (max_nadh s) (debt s) (max_debt s)
          (total_consumed s) (mst s) (rate_n s) (rate_d s) v (owed s).
Definition set_owed (s : store) (v : Z) : store :=
  mkStore (atp s) (gtp s) (nadh s) (max_atp s) (max_gtp s) (max_nadh s) (debt s) (max_debt s)
          (total_consumed s) (mst s) (rate_n s) (rate_d s) (accrued s) v.

Definition bal (s : store) (t : etype) : Z :=
  match t with ATP => atp s | GTP => gtp s | NADH => nadh s end.
Definition cap (s : store) (t : etype) : Z :=
  match t with ATP => max_atp s | GTP => max_gtp s | NADH => max_nadh s end.
Definition set_bal (s : store) (t : etype) (v : Z) : store :=
  match t with ATP => set_atp s v | GTP => set_gtp s v | NADH => set_nadh s v end.

Definition is_atp (t : etype) : bool := match t with ATP => true | _ => false end.
Definition is_nadh (t : etype) : bool := match t with NADH => true | _ => false end.
Definition is_starving (m : mstate) : bool := match m with Starving => true | _ => false end.
Definition is_dormant (m : mstate) : bool := match m with Dormant => true | _ => false end.

(* balances minus debt *)
Definition networth (s : store) : Z := atp s + gtp s + nadh s - debt s.

(* operations on one store; [Withdraw] is the first, locked half of
   transfer_to (it is not a public method on its own) *)
Inductive sop :=
| Consume (cost : Z) (t : etype) (allow_debt : bool) (priority : Z)
| Regenerate (amount : Z) (t : etype)
| Convert (amount : Z)
| EnterDormancy
| ExitDormancy
| Interest
| Reset.

(* operations on a system of stores *)
Inductive op :=
| Local (i : nat) (o : sop)
| Transfer (i j : nat) (amount : Z) (t : etype).   (* stores[i].transfer_to(stores[j], amount, t) *)

(* what store [i] was charged by operation [o] that returned [r] *)
Definition charge_on (i : nat) (o : op) (r : ret) : Z :=
  match o, r with
  | Local k (Consume cost _ _ _), RBool true => if Nat.eqb k i then cost else 0
  | _, _ => 0
  end.

(* 1 if [o] was a successful spend of at least one unit on store [i] *)
Definition paid_on (i : nat) (o : op) (r : ret) : Z :=
  match o, r with
  | Local k (Consume cost _ _ _), RBool true => if Nat.eqb k i && (1 <=? cost) then 1 else 0
  | _, _ => 0
  end.

Section Model.
Variable classify : Z -> Z -> Z -> mstate.
Variable interest : Z -> Z -> Z -> Z.
Variable legacy : bool.

(* _update_state; [true] = it raised ZeroDivisionError (only before 3fb3fa1:
   the debt term divided by a zero total capacity), leaving _state as it was *)
Definition update_state (s : store) : store * bool :=
  if legacy && (0 <? debt s) && (max_atp s + max_gtp s =? 0) then (s, true)
  else (set_mst s (classify (atp s + gtp s) (max_atp s + max_gtp s) (debt s)), false).

(* tail of a successful consume: audit counter, _update_state, return True *)
Definition charged (s : store) (cost : Z) : store * ret :=
  let '(s', raised) := update_state (set_total s (total_consumed s + cost)) in
  (s', if raised then Raised else RBool true).

Definition consume (s : store) (cost : Z) (t : etype) (allow_debt : bool) (priority : Z)
  : store * ret :=
  if is_starving (mst s) && (priority <? 5) then (s, RBool false)
  else if is_dormant (mst s) && (priority <? 10) then (s, RBool false)
  else
    let balance := bal s t in
    if cost <=? balance then charged (set_bal s t (balance - cost)) cost
    else
      (* NADH top-up, ATP spends only *)
      let topup := is_atp t && (0 <? nadh s) in
      let conv := Z.min (nadh s) (cost - balance) in
      let s1 := if topup then set_atp (set_nadh s (nadh s - conv)) (atp s + conv) else s in
      if topup && (cost <=? atp s1) then charged (set_atp s1 (atp s1 - cost)) cost
      else
        (* since 0057c42 the deficit is sized from the topped-up balance *)
        let balance2 := if topup && negb legacy then atp s1 else balance in
        let deficit := cost - balance2 in
        if allow_debt && (debt s1 <? max_debt s1) && (debt s1 + deficit <=? max_debt s1) then
          let s2 := set_debt s1 (debt s1 + deficit) in
          (* before 28a833c the NADH pool was not emptied *)
          let s3 := if legacy && is_nadh t then s2 else set_bal s2 t 0 in
          charged s3 cost
        else (s1, RBool false).

Definition regenerate (s : store) (amount : Z) (t : etype) : store * ret :=
  let pay := if (0 <? debt s) && is_atp t then Z.min (debt s) amount else 0 in
  (* ghost: a payment retires outstanding interest first *)
  let s1 := set_owed (set_debt s (debt s - pay)) (Z.max 0 (owed s - pay)) in
  let remaining := amount - pay in
  let s2 := if 0 <? remaining
            then set_bal s1 t (Z.min (cap s1 t) (bal s1 t + remaining)) else s1 in
  let '(s3, raised) := update_state s2 in
  (s3, if raised then Raised else RUnit).

(* the locked first half of transfer_to; note: no _update_state *)
Definition withdraw (s : store) (amount : Z) (t : etype) : store * bool :=
  if bal s t <? amount then (s, false) else (set_bal s t (bal s t - amount), true).

Definition convert (s : store) (amount : Z) : store * ret :=
  let conv := Z.min (Z.min amount (nadh s)) (max_atp s - atp s) in
  if 0 <? conv then (set_atp (set_nadh s (nadh s - conv)) (atp s + conv), RInt conv)
  else (s, RInt conv).

Definition apply_interest (s : store) : store * ret :=
  if 0 <? debt s then
    let i := interest (rate_n s) (rate_d s) (debt s) in
    (set_owed (set_accrued (set_debt s (debt s + i)) (accrued s + i)) (owed s + i), RUnit)
  else (s, RUnit).

Definition reset (s : store) : store * ret :=
  let s1 := mkStore (max_atp s) (max_gtp s) (max_nadh s) (max_atp s) (max_gtp s) (max_nadh s)
                    0 (max_debt s) 0 (mst s) (rate_n s) (rate_d s) 0 0 in
  let '(s2, raised) := update_state s1 in
  (s2, if raised then Raised else RUnit).

Definition sstep (s : store) (o : sop) : store * ret :=
  match o with
  | Consume cost t allow_debt priority => consume s cost t allow_debt priority
  | Regenerate amount t => regenerate s amount t
  | Convert amount => convert s amount
  | EnterDormancy => (set_mst s Dormant, RUnit)
  | ExitDormancy => let '(s', raised) := update_state s in (s', if raised then Raised else RUnit)
  | Interest => apply_interest s
  | Reset => reset s
  end.

Fixpoint upd (l : list store) (i : nat) (x : store) : list store :=
  match l, i with
  | [], _ => []
  | _ :: r, O => x :: r
  | y :: r, S k => y :: upd r k x
  end.

Definition step (sys : list store) (o : op) : list store * ret :=
  match o with
  | Local i lo =>
      match nth_error sys i with
      | Some s => let '(s', r) := sstep s lo in (upd sys i s', r)
      | None => (sys, RNoStore)
      end
  | Transfer i j amount t =>
      match nth_error sys i with
      | Some s =>
          let '(s', ok) := withdraw s amount t in
          if ok then
            let sys1 := upd sys i s' in
            match nth_error sys1 j with
            | Some d =>
                let '(d', r) := regenerate d amount t in
                (upd sys1 j d', match r with Raised => Raised | _ => RBool true end)
            | None => (sys, RNoStore)
            end
          else (sys, RBool false)
      | None => (sys, RNoStore)
      end
  end.

(* all states visited and all return values, in order *)
Fixpoint run (sys : list store) (ops : list op) : list (list store * ret) :=
  match ops with
  | [] => []
  | o :: rest => let '(sys', r) := step sys o in (sys', r) :: run sys' rest
  end.

Fixpoint final (sys : list store) (ops : list op) : list store :=
  match ops with
  | [] => sys
  | o :: rest => final (fst (step sys o)) rest
  end.

(* sum of the costs of the successful consumes on store [i] *)
Fixpoint spent_on (i : nat) (sys : list store) (ops : list op) : Z :=
  match ops with
  | [] => 0
  | o :: rest => let '(sys', r) := step sys o in charge_on i o r + spent_on i sys' rest
  end.

(* number of successful consumes of cost >= 1 on store [i] *)
Fixpoint paid_steps (i : nat) (sys : list store) (ops : list op) : Z :=
  match ops with
  | [] => 0
  | o :: rest => let '(sys', r) := step sys o in paid_on i o r + paid_steps i sys' rest
  end.

(* principal borrowed by store [i]: sum of the debt increases caused by its consumes *)
Definition debt_at (i : nat) (sys : list store) : Z :=
  match nth_error sys i with Some s => debt s | None => 0 end.

Fixpoint borrowed_on (i : nat) (sys : list store) (ops : list op) : Z :=
  match ops with
  | [] => 0
  | o :: rest =>
      let '(sys', r) := step sys o in
      match o with
      | Local k (Consume _ _ _ _) => if Nat.eqb k i then debt_at i sys' - debt_at i sys else 0
      | _ => 0
      end + borrowed_on i sys' rest
  end.

End Model.

(* ATP_Store(budget, gtp_budget, nadh_reserve, max_debt, debt_interest = rn/rd) *)
Definition config := (Z * Z * Z * Z * Z * Z)%type.
Definition init_store (c : config) : store :=
  let '(budget, g, n, md, rn, rd) := c in
  mkStore budget g n budget g n 0 md 0 Normal rn rd 0 0.

Definition sum_networth (sys : list store) : Z :=
  fold_right (fun s acc => networth s + acc) 0 sys.

(* ---------------------------------------------------------------------- *)
(* execution: binary64 instances, bit-exact with CPython                    *)

Definition f_of_Z (z : Z) : float :=
  if z <? 0 then (- of_uint63 (Uint63.of_Z (- z)))%float else of_uint63 (Uint63.of_Z z).

(* int(f) for a finite double: truncation toward zero *)
Definition f_trunc (f : float) : Z :=
  match Prim2SF f with
  | S754_finite sg m e =>
      let v := if 0 <=? e then Zpos m * 2 ^ e else Zpos m / 2 ^ (- e) in
      if sg then - v else v
  | _ => 0
  end.

(* thresholds 0.1, 0.3, 0.9 and the debt weight 0.5 as the doubles Python reads *)
Definition f_starving : float := 0x1.999999999999ap-4%float.
Definition f_conserving : float := 0x1.3333333333333p-2%float.
Definition f_feasting : float := 0x1.ccccccccccccdp-1%float.
Definition f_half : float := 0x1p-1%float.

Definition classify_float (cur capacity d : Z) : mstate :=
  let r0 := if capacity =? 0 then 0%float else (f_of_Z cur / f_of_Z capacity)%float in
  let r := if (0 <? d) && (0 <? capacity)
           then (r0 - (f_of_Z d / f_of_Z capacity) * f_half)%float else r0 in
  if (r <=? f_starving)%float then Starving
  else if (r <=? f_conserving)%float then Conserving
  else if (f_feasting <=? r)%float then Feasting
  else Normal.

(* int(self._debt * self.debt_interest) *)
Definition interest_float (rn rd d : Z) : Z :=
  f_trunc (f_of_Z d * (f_of_Z rn / f_of_Z rd))%float.

(* ---------------------------------------------------------------------- *)
(* canonical observations                                                   *)

Definition mstate_code (m : mstate) : Z :=
  match m with Normal => 0 | Conserving => 1 | Starving => 2 | Feasting => 3 | Dormant => 4 end.

Definition ret_obs (r : ret) : list Z :=
  match r with
  | RUnit => [0; 0]
  | RBool b => [1; if b then 1 else 0]
  | RInt z => [2; z]
  | Raised => [3; 0]
  | RNoStore => [4; 0]
  end.

Definition store_obs (s : store) : list Z :=
  [atp s; gtp s; nadh s; debt s; total_consumed s; mstate_code (mst s)].

Definition sys_obs (sys : list store) : list Z := flat_map store_obs sys.

Definition case := (list config * list op)%type.

Definition run_with (legacy : bool) (c : case) : list (list Z) :=
  let '(cfgs, ops) := c in
  let sys := map init_store cfgs in
  (ret_obs RUnit ++ sys_obs sys)
    :: map (fun x : list store * ret => ret_obs (snd x) ++ sys_obs (fst x))
           (run classify_float interest_float legacy sys ops).

Definition run_case (c : case) : list (list Z) := run_with false c.
(* pre-repair behaviour (documentation / refutation only) *)
Definition run_case_legacy (c : case) : list (list Z) := run_with true c.
