(* C04 — property theorems only.  Each is closed by [exact] of a lemma from
   Proofs.v and followed by Print Assumptions.

   Reading guide.  [step classify interest false] is one call on a system (list)
   of ATP_Store objects, as the code is now ([false] = not the pre-repair
   behaviour).  [classify] (the float ratio thresholds of _update_state) and
   [interest] (int(debt * debt_interest)) are universally quantified: the
   metabolic state only gates consume, and the theorems hold whatever it is.
   [good s] = capacities and debt limit >= 0, and [inv s]:
     0 <= atp, gtp, nadh;  0 <= debt <= max_debt + owed;  0 <= owed <= accrued
   where [owed] is the interest still outstanding ("interest aside": it grows by
   every interest charge and a debt payment p leaves max 0 (owed - p)) and
   [accrued] is all the interest ever charged.  So once the interest has been
   paid back the debt is within max_debt again, and (c04_borrow_within_limit) a
   consume never lifts the debt above max_debt, whatever interest is outstanding.
   [op_nonneg] = every cost / amount argument is >= 0. *)
From Coq Require Import ZArith List Bool.
From Coq Require Import PrimFloat FloatOps.
From Verif Require Import C04.Model C04.Proofs gen.Gen_C04 C04.GenOk C04.GenSys C04.GenProps C04.RateOk.
Import ListNotations.
Open Scope Z_scope.

(* Every balance stays >= 0 and debt stays within its limit (interest aside):
   in every state visited by any history from any system of stores that
   satisfies the invariant ... *)
Theorem c04_inv :
  forall classify interest, interest_nonneg interest ->
  forall sys ops, Forall good sys -> Forall op_nonneg ops ->
    Forall (fun x => Forall good (fst x)) (run classify interest false sys ops) /\
    Forall good (final classify interest false sys ops).
Proof. exact inv_general. Qed.
Print Assumptions c04_inv.

(* ... in particular from any freshly constructed stores with non-negative
   budget, GTP, NADH reserve and debt limit (zero capacities included) *)
Theorem c04_inv_from_configurations :
  forall classify interest, interest_nonneg interest ->
  forall cfgs ops, Forall cfg_ok cfgs -> Forall op_nonneg ops ->
    Forall (fun x => Forall inv (fst x)) (run classify interest false (map init_store cfgs) ops).
Proof. exact inv_from_configs. Qed.
Print Assumptions c04_inv_from_configurations.

(* The code only borrows within the limit: in ANY state (no hypothesis), a
   consume either leaves the debt alone, or it reports success, raises the
   debt, and the new debt is <= max_debt — outstanding interest never buys
   extra credit.  (A failed consume never changes the debt: c04_exact_charge.) *)
Theorem c04_borrow_within_limit :
  forall classify interest sys i s cost t allow prio,
    nth_error sys i = Some s ->
    let sys' := fst (step classify interest false sys (Local i (Consume cost t allow prio))) in
    let r := snd (step classify interest false sys (Local i (Consume cost t allow prio))) in
    exists s', nth_error sys' i = Some s' /\ max_debt s' = max_debt s /\
      (debt s' = debt s \/
       (r = RBool true /\ debt s < debt s' /\ debt s < max_debt s /\ debt s' <= max_debt s)).
Proof. exact borrow_step_spec. Qed.
Print Assumptions c04_borrow_within_limit.

(* Without regeneration, reset or incoming transfers on store i, the total
   principal it borrows (sum of the debt increases of its consumes) over any
   history is at most the part of the limit not already used by principal ... *)
Theorem c04_total_borrowed_bounded :
  forall classify interest, interest_nonneg interest ->
  forall i ops sys s,
    Forall good sys -> Forall op_nonneg ops -> Forall (no_inflow i) ops ->
    nth_error sys i = Some s ->
    0 <= borrowed_on classify interest false i sys ops <= Z.max 0 (max_debt s - (debt s - owed s)).
Proof. exact borrowed_bounded. Qed.
Print Assumptions c04_total_borrowed_bounded.

(* ... which for a freshly constructed store is max_debt *)
Theorem c04_total_borrowed_bounded_from_configurations :
  forall classify interest, interest_nonneg interest ->
  forall cfgs ops i b g n md rn rd,
    Forall cfg_ok cfgs -> Forall op_nonneg ops -> Forall (no_inflow i) ops ->
    nth_error cfgs i = Some (b, g, n, md, rn, rd) ->
    0 <= borrowed_on classify interest false i (map init_store cfgs) ops <= md.
Proof. exact borrowed_bounded_from_configs. Qed.
Print Assumptions c04_total_borrowed_bounded_from_configurations.

(* A spend that reports success removes exactly its cost from the store's net
   worth (and adds it to total_consumed); a spend that reports failure leaves
   net worth, GTP, debt and the audit counter alone and at most moves NADH into
   ATP one for one; it returns a bool; no other store is touched.  No
   hypothesis on the state, the cost or the configuration is needed. *)
Theorem c04_exact_charge :
  forall classify interest sys i s cost t allow prio,
    nth_error sys i = Some s ->
    let sys' := fst (step classify interest false sys (Local i (Consume cost t allow prio))) in
    let r := snd (step classify interest false sys (Local i (Consume cost t allow prio))) in
    exists s', nth_error sys' i = Some s' /\
      (forall k, k <> i -> nth_error sys' k = nth_error sys k) /\
      ((r = RBool true /\ networth s' = networth s - cost /\
        total_consumed s' = total_consumed s + cost /\
        sum_networth sys' = sum_networth sys - cost)
       \/
       (r = RBool false /\ networth s' = networth s /\ gtp s' = gtp s /\ debt s' = debt s /\
        total_consumed s' = total_consumed s /\ nadh s' <= nadh s /\
        atp s' - atp s = nadh s - nadh s' /\
        sum_networth sys' = sum_networth sys)).
Proof. exact consume_step_spec. Qed.
Print Assumptions c04_exact_charge.

(* Regeneration never lifts a balance above its capacity (a balance is <= the
   larger of its capacity and what it was), touches only the named pool and the
   debt, never changes a capacity, and adds at most [amount] to net worth. *)
Theorem c04_regen_capped :
  forall classify interest sys i s amount t,
    nth_error sys i = Some s ->
    let sys' := fst (step classify interest false sys (Local i (Regenerate amount t))) in
    exists s', nth_error sys' i = Some s' /\
      (forall k, k <> i -> nth_error sys' k = nth_error sys k) /\
      (forall u, bal s' u <= Z.max (cap s u) (bal s u) /\ cap s' u = cap s u) /\
      (forall u, u <> t -> bal s' u = bal s u) /\
      (0 <= amount -> networth s' <= networth s + amount /\ debt s' <= debt s).
Proof. exact regen_step_spec. Qed.
Print Assumptions c04_regen_capped.

(* Transfers never create energy: the total net worth of the system does not
   increase, stores other than sender and receiver are untouched, a transfer
   that does not report success changes nothing, and the receiver's balances
   obey the regeneration cap.  Sender = receiver is included. *)
Theorem c04_transfer_no_creation :
  forall classify interest sys i j amount t, 0 <= amount ->
    let sys' := fst (step classify interest false sys (Transfer i j amount t)) in
    let r := snd (step classify interest false sys (Transfer i j amount t)) in
    sum_networth sys' <= sum_networth sys /\
    length sys' = length sys /\
    (forall k, k <> i -> k <> j -> nth_error sys' k = nth_error sys k) /\
    (r <> RBool true -> sys' = sys) /\
    (forall d d' u, nth_error sys j = Some d -> nth_error sys' j = Some d' ->
       bal d' u <= Z.max (cap d u) (bal d u)) /\
    r <> Raised.
Proof. exact transfer_spec. Qed.
Print Assumptions c04_transfer_no_creation.

(* Without regeneration, reset or incoming transfers on store i, the total cost
   of its successful spends over any history is bounded by what it held plus
   its remaining debt room (interest aside) ... *)
Theorem c04_total_spend_bounded :
  forall classify interest, interest_nonneg interest ->
  forall i ops sys s,
    Forall good sys -> Forall op_nonneg ops -> Forall (no_inflow i) ops ->
    nth_error sys i = Some s ->
    spent_on classify interest false i sys ops
      <= atp s + gtp s + nadh s + max_debt s + owed s - debt s.
Proof. exact spend_bounded. Qed.
Print Assumptions c04_total_spend_bounded.

(* ... so any loop that pays a cost >= 1 per step halts: the number of
   successful such spends is bounded by the same quantity ... *)
Theorem c04_positive_cost_loop_halts :
  forall classify interest, interest_nonneg interest ->
  forall i ops sys s,
    Forall good sys -> Forall op_nonneg ops -> Forall (no_inflow i) ops ->
    nth_error sys i = Some s ->
    paid_steps classify interest false i sys ops
      <= atp s + gtp s + nadh s + max_debt s + owed s - debt s.
Proof. exact paid_bounded. Qed.
Print Assumptions c04_positive_cost_loop_halts.

(* ... which for freshly constructed stores is initial balances plus the debt limit *)
Theorem c04_total_spend_bounded_from_configurations :
  forall classify interest, interest_nonneg interest ->
  forall cfgs ops i b g n md rn rd,
    Forall cfg_ok cfgs -> Forall op_nonneg ops -> Forall (no_inflow i) ops ->
    nth_error cfgs i = Some (b, g, n, md, rn, rd) ->
    spent_on classify interest false i (map init_store cfgs) ops <= b + g + n + md /\
    paid_steps classify interest false i (map init_store cfgs) ops <= b + g + n + md.
Proof. exact spend_bounded_from_configs. Qed.
Print Assumptions c04_total_spend_bounded_from_configurations.

(* No operation raises, in any state of any system (zero capacities included;
   no hypothesis at all): the only raise in the anchored code was the division
   by a zero total capacity in _update_state, an explicit [Raised] outcome of
   the model that is reachable only with [legacy = true] (see Examples.v). *)
Theorem c04_no_raise :
  forall classify interest sys ops,
    (forall o, snd (step classify interest false sys o) <> Raised) /\
    Forall (fun x : list store * ret => snd x <> Raised) (run classify interest false sys ops).
Proof. exact no_raise_all. Qed.
Print Assumptions c04_no_raise.

(* ====================================================================== *)
(* The same, about the functions GENERATED FROM THE SOURCE on every run.

   gen/Gen_C04.v is produced from operon_ai/state/metabolism.py by translators/c04_gen.py: a record [gstore]
   of the attributes ATP_Store really has and one Gallina function per method ([g_consume], [g_regenerate],
   [g_transfer_to], [g_transfer_to_self] (other is self), [g_convert_nadh_to_atp], [g_apply_debt_interest],
   [g_enter_dormancy], [g_exit_dormancy], [g_reset], [g_update_state] with its binary64 arithmetic).  [gstep] /
   [grun] (GenSys.v) dispatch a history over a system of such objects; [proj s] is the object a model store [s]
   stands for (ghost fields dropped; the rate is the float quotient rate_n / rate_d). *)

(* Refinement: on every history whose indices name existing objects, the generated functions compute exactly
   the projection of what the model computes - every intermediate state and every return value. *)
Theorem c04_gen_refines_model :
  forall ops sys,
    Forall (op_addr_ok (length sys)) ops ->
    grun (map proj sys) ops =
    map (fun x => (map proj (fst x), snd x)) (run classify_float interest_float false sys ops).
Proof. exact grun_ok. Qed.
Print Assumptions c04_gen_refines_model.

(* Exact charging and free failures, for the generated consume, in any state (no hypothesis). *)
Theorem c04_gen_exact_charge :
  forall sys i s cost t allow prio,
    nth_error sys i = Some s ->
    let gsys := map proj sys in
    let gsys' := fst (gstep gsys (Local i (Consume cost t allow prio))) in
    let r := snd (gstep gsys (Local i (Consume cost t allow prio))) in
    exists g', nth_error gsys' i = Some g' /\
      (forall k, k <> i -> nth_error gsys' k = nth_error gsys k) /\
      ((r = RBool true /\ gnetworth g' = gnetworth (proj s) - cost /\
        g_total_consumed g' = g_total_consumed (proj s) + cost /\
        gsum_networth gsys' = gsum_networth gsys - cost)
       \/
       (r = RBool false /\ gnetworth g' = gnetworth (proj s) /\ g_gtp g' = g_gtp (proj s) /\
        g_debt g' = g_debt (proj s) /\ g_total_consumed g' = g_total_consumed (proj s) /\
        g_nadh g' <= g_nadh (proj s) /\
        g_atp g' - g_atp (proj s) = g_nadh (proj s) - g_nadh g' /\
        gsum_networth gsys' = gsum_networth gsys)).
Proof. exact gen_exact_charge. Qed.
Print Assumptions c04_gen_exact_charge.

(* Transfers between generated objects (sender = receiver included) never create energy and never raise. *)
Theorem c04_gen_transfer_no_creation :
  forall sys i j amount t, 0 <= amount -> (i < length sys)%nat -> (j < length sys)%nat ->
    let gsys := map proj sys in
    let gsys' := fst (gstep gsys (Transfer i j amount t)) in
    let r := snd (gstep gsys (Transfer i j amount t)) in
    gsum_networth gsys' <= gsum_networth gsys /\
    length gsys' = length gsys /\
    (forall k, k <> i -> k <> j -> nth_error gsys' k = nth_error gsys k) /\
    (r <> RBool true -> gsys' = gsys) /\
    r <> Raised.
Proof. exact gen_transfer_no_creation. Qed.
Print Assumptions c04_gen_transfer_no_creation.

(* No overdraft, for the generated functions: from freshly constructed objects with non-negative budgets and
   limits whose interest rate never yields negative interest ([rate_ok]: a condition on the configured float,
   true of every finite rate >= 0 - see Examples.v), every history with non-negative amounts keeps every
   balance and the debt >= 0 in every state visited. *)
Theorem c04_gen_no_overdraft_from_configurations :
  forall cfgs ops,
    Forall cfg_ok cfgs -> Forall rate_ok (map init_store cfgs) ->
    Forall op_nonneg ops -> Forall (op_addr_ok (length cfgs)) ops ->
    Forall (fun x => Forall ginv (fst x)) (grun (map proj (map init_store cfgs)) ops).
Proof. exact gen_inv_from_configs. Qed.
Print Assumptions c04_gen_no_overdraft_from_configurations.

(* The configuration hypothesis [rate_ok] above holds of every store whose rate rate_n / rate_d is not a negative
   finite double (0.1 = 1/10, the default, and 0 are Examples in RateOk.v).  This is the one statement of the
   development that reasons about binary64 arithmetic: it rests on the standard library's specification axioms
   of primitive floats, mul_spec and of_uint63_spec (Coq.Floats.FloatAxioms), as Print Assumptions shows. *)
Theorem c04_rate_ok_of_nonneg_rate :
  forall s, RateOk.nonneg_sf (FloatOps.Prim2SF (f_of_Z (rate_n s) / f_of_Z (rate_d s))%float) -> rate_ok s.
Proof. exact RateOk.rate_ok_of_nonneg_rate. Qed.
Print Assumptions c04_rate_ok_of_nonneg_rate.
