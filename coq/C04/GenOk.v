(* C04 — the tie between the source and the model, as theorems.

   coq/gen/Gen_C04.v is regenerated on every run from operon_ai/state/metabolism.py by translators/c04_gen.py
   (pyimp: a fail-closed translator of the imperative subset the class is written in).  It defines a record
   [gstore] with the attributes the class really has (no ghost fields, the interest rate as the float it is) and one
   Gallina function per method: g_consume, g_regenerate, g_transfer_to (+ the aliased g_transfer_to_self),
   g_convert_nadh_to_atp, g_apply_debt_interest, g_enter_dormancy, g_exit_dormancy, g_reset, g_update_state.

   This file proves that each generated function commutes with the projection [proj] from the hand-written model's
   store (instantiated with the binary64 classifier and interest function, [legacy = false]) — so every theorem of
   Property.v about the model is a theorem about the generated functions (Property.v restates the headline ones on
   [grun]).  When the source changes, Gen_C04.v changes, and these proofs are re-checked against it. *)
From Coq Require Import ZArith List Bool Lia PrimFloat.
From Verif Require Import C04.Model gen.Gen_C04.
Import ListNotations.
Open Scope Z_scope.

Definition proj (s : store) : gstore :=
  mk_gstore (atp s) (gtp s) (nadh s) (max_atp s) (max_gtp s) (max_nadh s) (debt s) (max_debt s)
            (total_consumed s) (mst s) (f_of_Z (rate_n s) / f_of_Z (rate_d s))%float.

Notation cf := classify_float.
Notation itf := interest_float.

Lemma if_andb (A : Type) (a b : bool) (x y : A) :
  (if a && b then x else y) = (if a then if b then x else y else y).
Proof. destruct a, b; reflexivity. Qed.
Lemma if_orb (A : Type) (a b : bool) (x y : A) :
  (if a || b then x else y) = (if a then x else if b then x else y).
Proof. destruct a, b; reflexivity. Qed.
Lemma if_negb (A : Type) (a : bool) (x y : A) : (if negb a then x else y) = (if a then y else x).
Proof. destruct a; reflexivity. Qed.

Ltac atom_of b :=
  lazymatch b with
  | andb ?x _ => atom_of x
  | orb ?x _ => atom_of x
  | negb ?x => atom_of x
  | _ => b
  end.

Ltac split_ifs :=
  cbn [andb orb negb]; cbv iota;
  repeat (match goal with
          | |- context [if ?b then _ else _] =>
              let a := atom_of b in
              lazymatch a with true => fail | false => fail | _ => idtac end;
              let E := fresh "E" in destruct a eqn:E; cbn [andb orb negb]; cbv iota
          end).

Ltac leaf := try reflexivity; try (exfalso; lia); try (repeat f_equal; lia).

(* _update_state on a raw record: the generated float code is exactly classify_float *)
Lemma g_update_state_raw a g n ma mg mn d md tc m di :
  g_update_state (mk_gstore a g n ma mg mn d md tc m di) =
  mk_gstore a g n ma mg mn d md tc (cf (a + g) (ma + mg) d) di.
Proof.
  unfold g_update_state, classify_float, f_half, f_starving, f_conserving, f_feasting.
  cbn [g_state g_atp g_gtp g_max_atp g_max_gtp g_debt g_set_state g_nadh g_max_nadh g_max_debt g_total_consumed
       g_debt_interest].
  cbv zeta.
  destruct (ma + mg =? 0) eqn:E0; destruct ((0 <? d) && (0 <? ma + mg)) eqn:E1;
    split_ifs; reflexivity.
Qed.

Global Opaque g_update_state.

Ltac simp :=
  cbv beta iota zeta delta
      [proj atp gtp nadh max_atp max_gtp max_nadh debt max_debt total_consumed mst rate_n rate_d accrued owed
       g_atp g_gtp g_nadh g_max_atp g_max_gtp g_max_nadh g_debt g_max_debt g_total_consumed g_state g_debt_interest
       g_set_atp g_set_gtp g_set_nadh g_set_debt g_set_total_consumed g_set_state
       set_atp set_gtp set_nadh set_debt set_total set_mst set_owed set_accrued set_bal bal cap
       is_atp is_nadh is_starving is_dormant etype_eqb mstate_eqb fst snd];
  cbn [andb orb negb];
  rewrite ?g_update_state_raw.

Ltac crush s := destruct s as [xa xg xn xma xmg xmn xd xmd xtc xm xrn xrd xac xow]; simp.

Lemma g_consume_ok s c t ad p :
  g_consume (proj s) c t ad p =
  (proj (fst (consume cf false s c t ad p)), snd (consume cf false s c t ad p)).
Proof.
  unfold g_consume, consume, charged, update_state.
  destruct s as [xa xg xn xma xmg xmn xd xmd xtc xm xrn xrd xac xow]; destruct t; destruct xm;
    simp; split_ifs; simp; leaf.
Qed.

Lemma g_regenerate_ok s a t :
  g_regenerate (proj s) a t =
  (proj (fst (regenerate cf false s a t)), snd (regenerate cf false s a t)).
Proof.
  unfold g_regenerate, regenerate, update_state.
  crush s; destruct t; simp; split_ifs; simp; leaf.
Qed.

Lemma g_convert_ok s a :
  g_convert_nadh_to_atp (proj s) a = (proj (fst (convert s a)), snd (convert s a)).
Proof.
  unfold g_convert_nadh_to_atp, convert.
  crush s; split_ifs; simp; leaf.
Qed.

Lemma g_interest_ok s :
  g_apply_debt_interest (proj s) = (proj (fst (apply_interest itf s)), snd (apply_interest itf s)).
Proof.
  unfold g_apply_debt_interest, apply_interest, interest_float.
  crush s; split_ifs; simp; leaf.
Qed.

Lemma g_enter_ok s : g_enter_dormancy (proj s) = (proj (set_mst s Dormant), RUnit).
Proof. unfold g_enter_dormancy. crush s. reflexivity. Qed.

Lemma g_exit_ok s :
  g_exit_dormancy (proj s) = (proj (fst (update_state cf false s)), RUnit).
Proof. unfold g_exit_dormancy, update_state. crush s. reflexivity. Qed.

Lemma g_reset_ok s : g_reset (proj s) = (proj (fst (reset cf false s)), snd (reset cf false s)).
Proof. unfold g_reset, reset, update_state. crush s. leaf. Qed.

Lemma proj_set_atp s v : g_set_atp (proj s) v = proj (set_atp s v).  Proof. reflexivity. Qed.
Lemma proj_set_gtp s v : g_set_gtp (proj s) v = proj (set_gtp s v).  Proof. reflexivity. Qed.
Lemma proj_set_nadh s v : g_set_nadh (proj s) v = proj (set_nadh s v).  Proof. reflexivity. Qed.

(* transfer_to between two distinct objects ... *)
Lemma g_transfer_ok s o a t :
  g_transfer_to (proj s) (proj o) a t =
  (let '(s', ok) := withdraw s a t in
   if ok then (proj s', proj (fst (regenerate cf false o a t)), RBool true)
   else (proj s, proj o, RBool false)).
Proof.
  unfold g_transfer_to, withdraw.
  cbv zeta. rewrite !g_regenerate_ok.
  destruct t; simp; split_ifs; reflexivity.
Qed.

(* ... and from an object to itself (other is self) *)
Lemma g_transfer_self_ok s a t :
  g_transfer_to_self (proj s) a t =
  (let '(s', ok) := withdraw s a t in
   if ok then (proj (fst (regenerate cf false s' a t)), RBool true)
   else (proj s, RBool false)).
Proof.
  unfold g_transfer_to_self, withdraw.
  cbv zeta. rewrite ?proj_set_atp, ?proj_set_gtp, ?proj_set_nadh, !g_regenerate_ok.
  destruct t; simp; split_ifs; reflexivity.
Qed.

