(* C04 — systems of generated objects and the simulation theorem (see GenOk.v for the per-method lemmas). *)
From Coq Require Import ZArith List Bool Lia PrimFloat.
From Verif Require Import C04.Model gen.Gen_C04 C04.GenOk.
Import ListNotations.
Open Scope Z_scope.
Notation cf := classify_float.
Notation itf := interest_float.

(* ---------------------------------------------------------------------- *)
(* systems of objects: the dispatcher of the correspondence harness, over the generated functions *)

Definition gsstep (s : gstore) (o : sop) : gstore * ret :=
  match o with
  | Consume c t ad p => g_consume s c t ad p
  | Regenerate a t => g_regenerate s a t
  | Convert a => g_convert_nadh_to_atp s a
  | EnterDormancy => g_enter_dormancy s
  | ExitDormancy => g_exit_dormancy s
  | Interest => g_apply_debt_interest s
  | Reset => g_reset s
  end.

Fixpoint gupd (l : list gstore) (i : nat) (x : gstore) : list gstore :=
  match l, i with
  | [], _ => []
  | _ :: r, O => x :: r
  | y :: r, S k => y :: gupd r k x
  end.

(* stores[i].transfer_to(stores[j], ...): the generated two-object function, or — when both names denote the
   same object — the generated function in which [other] is [self] *)
Definition gstep (sys : list gstore) (o : op) : list gstore * ret :=
  match o with
  | Local i lo =>
      match nth_error sys i with
      | Some s => let '(s', r) := gsstep s lo in (gupd sys i s', r)
      | None => (sys, RNoStore)
      end
  | Transfer i j a t =>
      match nth_error sys i, nth_error sys j with
      | Some s, Some d =>
          if Nat.eqb i j then let '(s', r) := g_transfer_to_self s a t in (gupd sys i s', r)
          else let '(s', d', r) := g_transfer_to s d a t in (gupd (gupd sys i s') j d', r)
      | _, _ => (sys, RNoStore)
      end
  end.

Fixpoint grun (sys : list gstore) (ops : list op) : list (list gstore * ret) :=
  match ops with
  | [] => []
  | o :: rest => let '(sys', r) := gstep sys o in (sys', r) :: grun sys' rest
  end.

(* every index an operation mentions names a store *)
Definition op_addr_ok (n : nat) (o : op) : Prop :=
  match o with Local i _ => (i < n)%nat | Transfer i j _ _ => (i < n)%nat /\ (j < n)%nat end.

Lemma gsstep_ok s o :
  gsstep (proj s) o = (proj (fst (sstep cf itf false s o)), snd (sstep cf itf false s o)).
Proof.
  destruct o; cbn [gsstep sstep].
  - apply g_consume_ok.
  - apply g_regenerate_ok.
  - apply g_convert_ok.
  - rewrite g_enter_ok. reflexivity.
  - rewrite g_exit_ok. unfold update_state. reflexivity.
  - apply g_interest_ok.
  - apply g_reset_ok.
Qed.

Lemma map_upd l i x : map proj (upd l i x) = gupd (map proj l) i (proj x).
Proof.
  revert i; induction l as [|y r IH]; intros [|k]; cbn [upd gupd map]; try reflexivity.
  rewrite IH. reflexivity.
Qed.

Lemma upd_same l i (x : store) : nth_error l i = Some x -> upd l i x = l.
Proof.
  revert i; induction l as [|y r IH]; intros [|k] H; cbn [upd]; try reflexivity.
  - cbn in H. congruence.
  - cbn in H. rewrite IH by exact H. reflexivity.
Qed.

Lemma upd_upd l i (x y : store) : upd (upd l i x) i y = upd l i y.
Proof.
  revert i; induction l as [|z r IH]; intros [|k]; cbn [upd]; try reflexivity.
  rewrite IH. reflexivity.
Qed.

Lemma nth_upd_same l i (x y : store) : nth_error l i = Some x -> nth_error (upd l i y) i = Some y.
Proof.
  revert i; induction l as [|z r IH]; intros [|k] H; cbn in *; try discriminate; eauto.
Qed.

Lemma nth_upd_other l i j (y : store) : i <> j -> nth_error (upd l i y) j = nth_error l j.
Proof.
  revert i j; induction l as [|z r IH]; intros [|k] [|m] H; cbn; try reflexivity; try congruence.
  apply IH. congruence.
Qed.

Lemma length_upd' l i (y : store) : length (upd l i y) = length l.
Proof. revert i; induction l as [|z r IH]; intros [|k]; cbn; try reflexivity. rewrite IH. reflexivity. Qed.

Lemma regenerate_ret s a t : snd (regenerate cf false s a t) = RUnit.
Proof. unfold regenerate, update_state. cbn. reflexivity. Qed.

Lemma gstep_ok sys o :
  op_addr_ok (length sys) o ->
  gstep (map proj sys) o =
  (map proj (fst (step cf itf false sys o)), snd (step cf itf false sys o)).
Proof.
  intros Ha. destruct o as [i lo | i j a t]; cbn [gstep step].
  - rewrite nth_error_map. destruct (nth_error sys i) as [s|] eqn:Hi; cbn [option_map].
    + rewrite gsstep_ok. destruct (sstep cf itf false s lo) as [s' r]. cbn [fst snd]. rewrite map_upd. reflexivity.
    + reflexivity.
  - cbn in Ha. destruct Ha as [Hi Hj].
    rewrite !nth_error_map.
    destruct (nth_error sys i) as [s|] eqn:Ei; [| apply nth_error_None in Ei; lia].
    destruct (nth_error sys j) as [d|] eqn:Ej; [| apply nth_error_None in Ej; lia].
    cbn [option_map].
    destruct (Nat.eqb i j) eqn:Eij.
    + apply Nat.eqb_eq in Eij; subst j. assert (d = s) by congruence; subst d.
      rewrite g_transfer_self_ok.
      destruct (withdraw s a t) as [s' ok] eqn:Ew. destruct ok.
      * rewrite (nth_upd_same _ _ s s' Ei).
        pose proof (regenerate_ret s' a t) as Hr.
        destruct (regenerate cf false s' a t) as [d' r] eqn:Er. cbn [fst snd] in *. subst r.
        rewrite upd_upd, map_upd. reflexivity.
      * unfold withdraw in Ew. destruct (bal s t <? a); inversion Ew; subst.
        cbn [fst snd]. rewrite <- map_upd, upd_same by exact Ei. reflexivity.
    + apply Nat.eqb_neq in Eij.
      rewrite g_transfer_ok.
      destruct (withdraw s a t) as [s' ok] eqn:Ew. destruct ok.
      * rewrite nth_upd_other by exact Eij. rewrite Ej.
        pose proof (regenerate_ret d a t) as Hr.
        destruct (regenerate cf false d a t) as [d' r] eqn:Er. cbn [fst snd] in *. subst r.
        rewrite !map_upd. reflexivity.
      * cbn [fst snd]. rewrite <- !map_upd. rewrite (upd_same _ _ _ Ei), (upd_same _ _ _ Ej). reflexivity.
Qed.

Lemma step_length sys o : length (fst (step cf itf false sys o)) = length sys.
Proof.
  destruct o as [i lo | i j a t]; cbn [step].
  - destruct (nth_error sys i); [|reflexivity].
    destruct (sstep cf itf false s lo). cbn. apply length_upd'.
  - destruct (nth_error sys i); [|reflexivity].
    destruct (withdraw s a t) as [s' ok]. destruct ok; [|reflexivity].
    destruct (nth_error (upd sys i s') j); [|reflexivity].
    destruct (regenerate cf false s0 a t). cbn. rewrite !length_upd'. reflexivity.
Qed.

(* THE TIE: on every history, the functions generated from the source compute exactly the projection of what the
   model computes — states and return values, call by call. *)
Theorem grun_ok : forall ops sys,
  Forall (op_addr_ok (length sys)) ops ->
  grun (map proj sys) ops =
  map (fun x => (map proj (fst x), snd x)) (run cf itf false sys ops).
Proof.
  induction ops as [|o rest IH]; intros sys Ha; cbn [grun run map]; [reflexivity|].
  inversion Ha as [|? ? Ho Hrest]; subst.
  rewrite gstep_ok by exact Ho.
  destruct (step cf itf false sys o) as [sys' r] eqn:Es. cbn [fst snd map].
  f_equal. apply IH.
  replace (length sys') with (length sys); [exact Hrest|].
  pose proof (step_length sys o) as Hl. rewrite Es in Hl. cbn in Hl. congruence.
Qed.

(* ---------------------------------------------------------------------- *)
(* the generated functions as a second executable for the correspondence check *)

Definition gstore_obs (g : gstore) : list Z :=
  [g_atp g; g_gtp g; g_nadh g; g_debt g; g_total_consumed g; mstate_code (g_state g)].

Definition grun_case (c : case) : list (list Z) :=
  let '(cfgs, ops) := c in
  let gsys := map proj (map init_store cfgs) in
  (ret_obs RUnit ++ flat_map gstore_obs gsys)
    :: map (fun x : list gstore * ret => ret_obs (snd x) ++ flat_map gstore_obs (fst x)) (grun gsys ops).

(* final system after a history, over the generated functions *)
Fixpoint gfinal (sys : list gstore) (ops : list op) : list gstore :=
  match ops with
  | [] => sys
  | o :: rest => gfinal (fst (gstep sys o)) rest
  end.

Theorem gfinal_ok : forall ops sys,
  Forall (op_addr_ok (length sys)) ops ->
  gfinal (map proj sys) ops = map proj (final cf itf false sys ops).
Proof.
  induction ops as [|o rest IH]; intros sys Ha; cbn [gfinal final]; [reflexivity|].
  inversion Ha as [|? ? Ho Hrest]; subst.
  rewrite gstep_ok by exact Ho. cbn [fst].
  apply IH. rewrite step_length. exact Hrest.
Qed.
