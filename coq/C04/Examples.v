(* C04 — non-vacuity examples and the refutations of the pre-repair behaviour *)
From Coq Require Import ZArith List Bool Lia.
From Verif Require Import C04.Model C04.Proofs.
Import ListNotations.
Open Scope Z_scope.

(* an interest function that meets the hypothesis of the theorems: 10% rounded down *)
Definition tenth (rn rd d : Z) : Z := d / 10.
Example ex_tenth_nonneg : interest_nonneg tenth.
Proof. intros rn rd d H. unfold tenth. apply Z.div_pos; lia. Qed.

(* ATP_Store(budget=10, nadh_reserve=3, max_debt=10), ATP_Store(budget=0, max_debt=10), rate 0.1 *)
Definition cfgs : list config :=
  [ (10, 0, 3, 10, 3602879701896397, 36028797018963968);
    (0, 0, 0, 10, 3602879701896397, 36028797018963968) ].
Definition sys0 := map init_store cfgs.

Example ex_cfgs_ok : Forall cfg_ok cfgs.
Proof. repeat constructor; cbn; lia. Qed.

(* a history that takes every consume branch, goes into debt on a zero-capacity
   store, accrues interest, transfers and regenerates *)
Definition hist : list op :=
  [ Local 0 (Consume 8 ATP false 0);          (* direct *)
    Local 0 (Consume 4 ATP false 9);          (* NADH top-up: atp 2 + 2 of nadh *)
    Local 0 (Consume 7 ATP true 9);           (* top-up 1, then debt 6 *)
    Local 0 (Consume 9 ATP true 9);           (* refused: 6 + 9 > 10 *)
    Local 1 (Consume 10 ATP true 0);          (* zero capacity, debt == max_debt *)
    Local 1 Interest;
    Local 0 (Regenerate 9 ATP);               (* pays 6 debt, adds 3 *)
    Transfer 0 1 2 ATP;                       (* pays 2 of the receiver's debt *)
    Local 0 (Convert 5);
    Local 0 EnterDormancy; Local 0 (Consume 1 ATP false 9); Local 0 ExitDormancy ].

Example ex_hist_nonneg : Forall op_nonneg hist.
Proof. repeat constructor; cbn; lia. Qed.

Example ex_hist_trace :
  map (fun x => (snd x, map (fun s => (atp s, nadh s, debt s, owed s)) (fst x)))
      (run classify_float tenth false sys0 hist) =
  [ (RBool true,  [(2, 3, 0, 0); (0, 0, 0, 0)]);
    (RBool true,  [(0, 1, 0, 0); (0, 0, 0, 0)]);
    (RBool true,  [(0, 0, 6, 0); (0, 0, 0, 0)]);
    (RBool false, [(0, 0, 6, 0); (0, 0, 0, 0)]);
    (RBool true,  [(0, 0, 6, 0); (0, 0, 10, 0)]);
    (RUnit,       [(0, 0, 6, 0); (0, 0, 11, 1)]);     (* debt 11 > max_debt 10: interest aside *)
    (RUnit,       [(3, 0, 0, 0); (0, 0, 11, 1)]);
    (RBool true,  [(1, 0, 0, 0); (0, 0, 9, 0)]);      (* the payment retires the interest first *)
    (RInt 0,      [(1, 0, 0, 0); (0, 0, 9, 0)]);
    (RUnit,       [(1, 0, 0, 0); (0, 0, 9, 0)]);
    (RBool false, [(1, 0, 0, 0); (0, 0, 9, 0)]);
    (RUnit,       [(1, 0, 0, 0); (0, 0, 9, 0)]) ].
Proof. vm_compute. reflexivity. Qed.

(* exact charge through top-up and debt: net worth 5 -> -5 for a cost of 10 *)
Definition s_topup := mkStore 2 0 3 10 0 3 0 10 0 Normal 1 10 0 0.
Example ex_exact_charge_topup_debt :
  let r := consume classify_float false s_topup 10 ATP true 0 in
  snd r = RBool true /\ networth s_topup = 5 /\ networth (fst r) = -5 /\ debt (fst r) = 5 /\
  nadh (fst r) = 0 /\ atp (fst r) = 0.
Proof. vm_compute. repeat split; reflexivity. Qed.

(* a free failure that still moves NADH into ATP, lifting ATP above its capacity *)
Definition s_full := mkStore 10 0 3 10 0 3 0 0 0 Normal 1 10 0 0.
Example ex_free_failure_after_topup :
  let r := consume classify_float false s_full 20 ATP false 0 in
  snd r = RBool false /\ atp (fst r) = 13 /\ nadh (fst r) = 0 /\ networth (fst r) = networth s_full.
Proof. vm_compute. repeat split; reflexivity. Qed.

(* regeneration from above capacity: the balance comes back down to the capacity *)
Example ex_regen_capped :
  let s := fst (consume classify_float false s_full 20 ATP false 0) in
  atp s = 13 /\ max_atp s = 10 /\ atp (fst (regenerate classify_float false s 1 ATP)) = 10.
Proof. vm_compute. repeat split; reflexivity. Qed.

(* the spend bound is attained: 2 + 3 + 10 = 15 spent in one call, nothing after *)
Example ex_spend_bound_tight :
  let ops := [Local 0 (Consume 15 ATP true 0); Local 0 (Consume 1 ATP true 9)] in
  Forall (no_inflow 0) ops /\
  spent_on classify_float tenth false 0 [s_topup] ops = 15 /\
  paid_steps classify_float tenth false 0 [s_topup] ops = 1 /\
  atp s_topup + gtp s_topup + nadh s_topup + max_debt s_topup + owed s_topup - debt s_topup = 15.
Proof. split; [repeat constructor|]. vm_compute. repeat split; reflexivity. Qed.

(* borrow to the limit, interest, repay everything, borrow again: the second
   loan is again capped by max_debt (the refused call is the one a cached,
   clamped credit line would grant); principal borrowed without inflow stays within the limit (interest uses room) *)
Definition s_loan := mkStore 10 0 0 10 0 0 0 100 0 Normal 1 10 0 0.
Example ex_borrow_cycle :
  let ops := [ Local 0 (Consume 110 ATP true 10); Local 0 Interest; Local 0 (Regenerate 110 ATP);
               Local 0 (Consume 110 ATP true 10); Local 0 (Consume 100 ATP true 10) ] in
  map (fun x => (snd x, map (fun s => (atp s, debt s, owed s, accrued s)) (fst x)))
      (run classify_float tenth false [s_loan] ops) =
  [ (RBool true,  [(0, 100, 0, 0)]);
    (RUnit,       [(0, 110, 10, 10)]);
    (RUnit,       [(0, 0, 0, 10)]);
    (RBool false, [(0, 0, 0, 10)]);
    (RBool true,  [(0, 100, 0, 10)]) ] /\
  borrowed_on classify_float tenth false 0 [s_loan] [Local 0 (Consume 60 ATP true 10); Local 0 Interest;
                                                     Local 0 (Consume 45 ATP true 10)] = 95.
Proof. vm_compute. split; reflexivity. Qed.

(* a transfer that loses energy at the receiver's cap and creates none *)
Example ex_transfer :
  let sys := [s_full; s_full] in
  let r := step classify_float tenth false sys (Transfer 0 1 4 ATP) in
  snd r = RBool true /\ sum_networth sys = 26 /\ sum_networth (fst r) = 22.
Proof. vm_compute. repeat split; reflexivity. Qed.

(* ---------------------------------------------------------------------- *)
(* the behaviour before the three fix: commits ([legacy = true]) violates the
   property; kept as documentation of what the universal theorems exclude     *)

(* 0057c42: top-up then debt sized from the pre-top-up balance: 13 removed for a cost of 10 *)
Lemma c04_exact_charge_topup_legacy_refuted :
  exists s cost t allow prio,
    good s /\ 0 <= cost /\
    snd (consume classify_float true s cost t allow prio) = RBool true /\
    networth (fst (consume classify_float true s cost t allow prio)) <> networth s - cost.
Proof.
  exists s_topup, 10, ATP, true, 0. split; [|split; [lia|]].
  - unfold good, caps_ok, inv. cbn. lia.
  - vm_compute. split; [reflexivity | discriminate].
Qed.

(* 28a833c: debt-financed NADH spend left the pool untouched: 3 removed for a cost of 8 *)
Lemma c04_exact_charge_nadh_legacy_refuted :
  exists s cost t allow prio,
    good s /\ 0 <= cost /\
    snd (consume classify_float true s cost t allow prio) = RBool true /\
    networth (fst (consume classify_float true s cost t allow prio)) <> networth s - cost.
Proof.
  exists (mkStore 10 0 5 10 0 5 0 10 0 Normal 1 10 0 0), 8, NADH, true, 0. split; [|split; [lia|]].
  - unfold good, caps_ok, inv. cbn. lia.
  - vm_compute. split; [reflexivity | discriminate].
Qed.

(* 3fb3fa1: ATP_Store(budget=0, max_debt=10).consume(5, allow_debt=True) raised *)
Lemma c04_no_raise_legacy_refuted :
  exists cfgs o,
    Forall cfg_ok cfgs /\ op_nonneg o /\
    snd (step classify_float tenth true (map init_store cfgs) o) = Raised.
Proof.
  exists [(0, 0, 0, 10, 1, 10)], (Local 0 (Consume 5 ATP true 0)).
  split; [repeat constructor; cbn; lia|]. split; [cbn; lia|]. vm_compute. reflexivity.
Qed.
