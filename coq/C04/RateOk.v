(* C04 — the configuration hypothesis [rate_ok] of the generated-code theorems is satisfiable: it holds for every
   store whose rate rate_n / rate_d is not a negative finite double (in particular 0.1 = 1/10, the default).

   This is the only file of the development that reasons about binary64 arithmetic; it uses the specification
   axioms of Coq's primitive floats from the standard library (Coq.Floats.FloatAxioms: mul_spec, of_uint63_spec),
   which Print Assumptions lists for [rate_ok_of_nonneg_rate] and the examples below - and for nothing else. *)
From Coq Require Import ZArith Lia Bool Uint63 SpecFloat PrimFloat FloatOps FloatAxioms.
From Verif Require Import C04.Model C04.GenProps.
Open Scope Z_scope.

Definition nonneg_sf (x : spec_float) : Prop :=
  match x with S754_finite s _ _ => s = false | _ => True end.

Lemma bra_sign sx mx ex lx :
  match binary_round_aux prec emax sx mx ex lx with S754_finite s _ _ => s = sx | _ => True end.
Proof.
  unfold binary_round_aux.
  destruct (shr_fexp prec emax mx ex lx) as [m1 e1].
  destruct (shr_fexp prec emax (round_nearest_even (shr_m m1) (loc_of_shr_record m1)) e1 loc_Exact) as [m2 e2].
  destruct (shr_m m2); try exact I.
  destruct (Zle_bool e2 (emax - prec)); [reflexivity | exact I].
Qed.

Lemma of_nonneg_Z_nonneg d : 0 < d -> nonneg_sf (Prim2SF (f_of_Z d)).
Proof.
  intros Hd. unfold f_of_Z.
  destruct (d <? 0) eqn:E; [apply Z.ltb_lt in E; lia|].
  rewrite of_uint63_spec. unfold binary_normalize.
  pose proof (to_Z_bounded (Uint63.of_Z d)) as Hb.
  destruct (to_Z (Uint63.of_Z d)) as [|p|p]; try exact I; [|lia].
  unfold binary_round. destruct (shl_align _ _ _) as [mz ez].
  pose proof (bra_sign false (Z.pos mz) ez loc_Exact) as H.
  unfold nonneg_sf. destruct (binary_round_aux prec emax false (Z.pos mz) ez loc_Exact); auto.
Qed.

Lemma mul_nonneg x y : nonneg_sf (Prim2SF x) -> nonneg_sf (Prim2SF y) -> nonneg_sf (Prim2SF (x * y)).
Proof.
  intros Hx Hy. rewrite mul_spec. unfold SF64mul, SFmul.
  destruct (Prim2SF x) as [sx|sx| |sx mx ex], (Prim2SF y) as [sy|sy| |sy my ey]; cbn in *; try exact I.
  subst sx sy. cbn [xorb].
  pose proof (bra_sign false (Z.pos (mx * my)) (ex + ey) loc_Exact) as H.
  destruct (binary_round_aux prec emax false (Z.pos (mx * my)) (ex + ey) loc_Exact); auto.
Qed.

Lemma f_trunc_nonneg f : nonneg_sf (Prim2SF f) -> 0 <= f_trunc f.
Proof.
  unfold f_trunc, nonneg_sf. destruct (Prim2SF f) as [s|s| |s m e]; try lia.
  intros ->. destruct (0 <=? e) eqn:E.
  - apply Z.mul_nonneg_nonneg; [lia|]. apply Z.pow_nonneg. lia.
  - apply Z.div_pos; [lia|]. apply Z.pow_pos_nonneg; [lia|]. apply Z.leb_gt in E. lia.
Qed.

(* a store whose rate is zero, positive, infinite or NaN never accrues negative interest *)
Lemma rate_ok_of_nonneg_rate s :
  nonneg_sf (Prim2SF (f_of_Z (rate_n s) / f_of_Z (rate_d s))) -> rate_ok s.
Proof.
  intros Hr d Hd. unfold interest_float.
  apply f_trunc_nonneg. apply mul_nonneg; [apply of_nonneg_Z_nonneg; exact Hd | exact Hr].
Qed.
Print Assumptions rate_ok_of_nonneg_rate.

(* non-vacuity of c04_gen_no_overdraft_from_configurations: the default rate 0.1 = 1/10, and 0 *)
Example rate_ok_default : rate_ok (init_store (100, 20, 10, 50, 1, 10)).
Proof. apply rate_ok_of_nonneg_rate. vm_compute. reflexivity. Qed.

Example rate_ok_zero : rate_ok (init_store (5, 0, 0, 3, 0, 1)).
Proof. apply rate_ok_of_nonneg_rate. vm_compute. exact I. Qed.
