(* C04 — lemmas.  Everything is proved for an arbitrary state classifier and an
   arbitrary interest function (non-negative where that matters), with the
   model's [legacy] switch off (the code as it is now). *)
From Coq Require Import ZArith List Bool Lia ZifyBool PeanoNat.
From Verif Require Import C04.Model.
Import ListNotations.
Open Scope Z_scope.

(* ---------------------------------------------------------------------- *)
(* vocabulary of the property statements                                    *)

Definition caps_ok (s : store) : Prop :=
  0 <= max_atp s /\ 0 <= max_gtp s /\ 0 <= max_nadh s /\ 0 <= max_debt s.

(* the ledger invariant: no overdraft; debt within its limit, interest aside:
   the debt exceeds max_debt by at most the interest still outstanding [owed]
   (charged and not yet retired by a payment), which in turn is at most all the
   interest ever charged [accrued] *)
Definition inv (s : store) : Prop :=
  0 <= atp s /\ 0 <= gtp s /\ 0 <= nadh s /\ 0 <= debt s /\
  debt s <= max_debt s + owed s /\ 0 <= owed s /\ owed s <= accrued s /\
  debt s <= max_debt s + accrued s.

Definition good (s : store) : Prop := caps_ok s /\ inv s.

Definition sop_nonneg (o : sop) : Prop :=
  match o with
  | Consume c _ _ _ => 0 <= c
  | Regenerate a _ => 0 <= a
  | Convert a => 0 <= a
  | _ => True
  end.

Definition op_nonneg (o : op) : Prop :=
  match o with Local _ lo => sop_nonneg lo | Transfer _ _ a _ => 0 <= a end.

Definition interest_nonneg (interest : Z -> Z -> Z -> Z) : Prop :=
  forall rn rd d, 0 < d -> 0 <= interest rn rd d.

Definition cfg_ok (c : config) : Prop :=
  let '(b, g, n, md, _, _) := c in 0 <= b /\ 0 <= g /\ 0 <= n /\ 0 <= md.

(* what a store can still pay: balances plus remaining debt room (interest aside) *)
Definition spendable (s : store) : Z :=
  atp s + gtp s + nadh s + max_debt s + owed s - debt s.

(* nothing flows into store [i]: no regenerate, no reset, no transfer to it *)
Definition no_inflow (i : nat) (o : op) : Prop :=
  match o with
  | Local k (Regenerate _ _) => k <> i
  | Local k Reset => k <> i
  | Local _ _ => True
  | Transfer _ j _ _ => j <> i
  end.

(* the configuration of a store: what no operation changes *)
Definition same_config (s s' : store) : Prop :=
  max_atp s' = max_atp s /\ max_gtp s' = max_gtp s /\ max_nadh s' = max_nadh s /\
  max_debt s' = max_debt s /\ rate_n s' = rate_n s /\ rate_d s' = rate_d s.

(* ---------------------------------------------------------------------- *)
(* automation                                                               *)

Ltac red_model :=
  cbn [atp gtp nadh max_atp max_gtp max_nadh debt max_debt total_consumed mst rate_n rate_d accrued owed
       set_atp set_gtp set_nadh set_debt set_total set_mst set_accrued set_owed bal cap set_bal
       is_atp is_nadh networth fst snd andb orb negb] in *.

Ltac brk :=
  repeat (red_model;
          match goal with
          | |- context [if ?b then _ else _] => destruct b eqn:?
          | H : context [if ?b then _ else _] |- _ => destruct b eqn:?
          end).

Ltac unf :=
  unfold consume, charged, regenerate, withdraw, convert, apply_interest, reset, update_state,
         good, caps_ok, inv, same_config, spendable, networth in *.

Section WithParams.
Variable classify : Z -> Z -> Z -> mstate.
Variable interest : Z -> Z -> Z -> Z.

Notation consume' := (consume classify false).
Notation regenerate' := (regenerate classify false).
Notation reset' := (reset classify false).
Notation sstep' := (sstep classify interest false).
Notation step' := (step classify interest false).

(* ---------------------------------------------------------------------- *)
(* consume                                                                  *)

Lemma consume_exact :
  forall s cost t allow prio,
    let s' := fst (consume' s cost t allow prio) in
    let r := snd (consume' s cost t allow prio) in
    (r = RBool true /\ networth s' = networth s - cost /\
     total_consumed s' = total_consumed s + cost)
    \/
    (r = RBool false /\ networth s' = networth s /\ gtp s' = gtp s /\ debt s' = debt s /\
     total_consumed s' = total_consumed s /\ nadh s' <= nadh s /\
     atp s' - atp s = nadh s - nadh s').
Proof.
  intros s cost t allow prio. destruct s as [a g n ma mg mn d md tc m rn rd ac ow], t; unf; brk; red_model;
    first [ left; repeat split; (reflexivity || lia) | right; repeat split; (reflexivity || lia) ].
Qed.

Lemma consume_good :
  forall s cost t allow prio,
    good s -> 0 <= cost -> good (fst (consume' s cost t allow prio)).
Proof.
  intros s cost t allow prio. destruct s as [a g n ma mg mn d md tc m rn rd ac ow], t; unf; brk; red_model; intros; lia.
Qed.

Lemma consume_config :
  forall s cost t allow prio, same_config s (fst (consume' s cost t allow prio)) /\
    accrued (fst (consume' s cost t allow prio)) = accrued s /\
    owed (fst (consume' s cost t allow prio)) = owed s.
Proof.
  intros s cost t allow prio. destruct s as [a g n ma mg mn d md tc m rn rd ac ow], t; unf; brk; red_model; repeat split; reflexivity.
Qed.

(* the code only borrows within the limit: a consume changes the debt only by
   raising it, only when it reports success, and then the new debt is <= max_debt *)
Lemma consume_borrow :
  forall s cost t allow prio,
    let s' := fst (consume' s cost t allow prio) in
    debt s' = debt s \/
    (snd (consume' s cost t allow prio) = RBool true /\ debt s < max_debt s /\ debt s' <= max_debt s /\
     debt s < debt s' /\ bal s' t = 0).
Proof.
  intros s cost t allow prio. destruct s as [a g n ma mg mn d md tc m rn rd ac ow], t; unf; brk; red_model;
    first [ left; reflexivity | right; repeat split; try reflexivity; lia ].
Qed.


Lemma spendable_networth : forall s, spendable s = networth s + max_debt s + owed s.
Proof. intros. unfold spendable, networth. lia. Qed.

Definition charge_of (o : sop) (r : ret) : Z :=
  match o, r with Consume c _ _ _, RBool true => c | _, _ => 0 end.

Lemma consume_spendable :
  forall s cost t allow prio,
    spendable (fst (consume' s cost t allow prio)) =
    spendable s - charge_of (Consume cost t allow prio) (snd (consume' s cost t allow prio)).
Proof.
  intros. rewrite !spendable_networth.
  destruct (consume_config s cost t allow prio) as [(_ & _ & _ & Hmd & _) [_ Hac]].
  rewrite Hmd, Hac. unfold charge_of.
  destruct (consume_exact s cost t allow prio) as [(Hr & Hn & _) | (Hr & Hn & _)];
    rewrite Hr, Hn; lia.
Qed.

Lemma consume_no_raise :
  forall s cost t allow prio, snd (consume' s cost t allow prio) <> Raised.
Proof.
  intros. destruct (consume_exact s cost t allow prio) as [(Hr & _) | (Hr & _)];
    rewrite Hr; discriminate.
Qed.

(* ---------------------------------------------------------------------- *)
(* regenerate                                                               *)

Lemma regenerate_good :
  forall s amount t, good s -> 0 <= amount -> good (fst (regenerate' s amount t)).
Proof.
  intros s amount t. destruct s as [a g n ma mg mn d md tc m rn rd ac ow], t; unf; brk; red_model; intros; lia.
Qed.

Lemma regenerate_spec :
  forall s amount t,
    let s' := fst (regenerate' s amount t) in
    (forall u, bal s' u <= Z.max (cap s u) (bal s u)) /\
    (forall u, u <> t -> bal s' u = bal s u) /\
    (0 <= amount -> networth s' <= networth s + amount /\ debt s' <= debt s) /\
    same_config s s' /\ accrued s' = accrued s /\
    snd (regenerate' s amount t) = RUnit.
Proof.
  intros s amount t. destruct s as [a g n ma mg mn d md tc m rn rd ac ow], t; unf; brk; red_model;
    (split; [ intros [] | split; [ intros [] Hne; try congruence | ] ]); red_model;
    repeat split; try reflexivity; try lia.
Qed.

(* ---------------------------------------------------------------------- *)
(* the other single-store operations                                        *)

Lemma withdraw_spec :
  forall s amount t,
    let s' := fst (withdraw s amount t) in
    (snd (withdraw s amount t) = true /\ networth s' = networth s - amount /\
     bal s' t = bal s t - amount /\ amount <= bal s t /\
     (forall u, u <> t -> bal s' u = bal s u) /\ debt s' = debt s /\
     same_config s s' /\ owed s' = owed s)
    \/ (snd (withdraw s amount t) = false /\ s' = s).
Proof.
  intros s amount t. destruct s as [a g n ma mg mn d md tc m rn rd ac ow], t; unf; brk; red_model;
    first [ right; split; reflexivity
          | left; repeat split; try reflexivity; try lia; intros [] Hne; try congruence; reflexivity ].
Qed.

Lemma withdraw_good :
  forall s amount t, good s -> good (fst (withdraw s amount t)).
Proof.
  intros s amount t. destruct s as [a g n ma mg mn d md tc m rn rd ac ow], t; unf; brk; red_model; intros; lia.
Qed.

Lemma convert_spec :
  forall s amount,
    let s' := fst (convert s amount) in
    networth s' = networth s /\ spendable s' = spendable s /\ (good s -> good s') /\
    exists z, snd (convert s amount) = RInt z.
Proof.
  intros s amount. destruct s as [a g n ma mg mn d md tc m rn rd ac ow]; unf; brk; red_model;
    repeat split; try lia; eexists; reflexivity.
Qed.

Lemma interest_spec :
  forall s,
    let s' := fst (apply_interest interest s) in
    spendable s' = spendable s /\ atp s' = atp s /\ gtp s' = gtp s /\ nadh s' = nadh s /\
    (interest_nonneg interest -> good s -> good s') /\
    snd (apply_interest interest s) = RUnit.
Proof.
  intros s. destruct s as [a g n ma mg mn d md tc m rn rd ac ow]; unf; brk; red_model.
  - split; [lia|]. do 3 (split; [reflexivity|]). split; [|reflexivity].
    intros Hi Hg. assert (0 <= interest rn rd d) by (apply Hi; lia). lia.
  - split; [lia|]. do 3 (split; [reflexivity|]). split; [|reflexivity]. intros _ Hg. exact Hg.
Qed.

Lemma reset_spec :
  forall s, (caps_ok s -> good (fst (reset' s))) /\ snd (reset' s) = RUnit.
Proof.
  intros s. destruct s as [a g n ma mg mn d md tc m rn rd ac ow]; unf; brk; red_model;
    split; try reflexivity; intros; lia.
Qed.

Lemma sstep_good :
  interest_nonneg interest ->
  forall s o, good s -> sop_nonneg o -> good (fst (sstep' s o)).
Proof.
  intros Hi s o Hg Ho. destruct o; cbn [sstep sop_nonneg] in *.
  - apply consume_good; assumption.
  - apply regenerate_good; assumption.
  - apply convert_spec; assumption.
  - destruct s as [a g n ma mg mn d md tc m rn rd ac ow]; unf; red_model; lia.
  - destruct s as [a g n ma mg mn d md tc m rn rd ac ow]; unf; red_model; lia.
  - apply interest_spec; assumption.
  - apply reset_spec. apply Hg.
Qed.

Definition is_inflow (o : sop) : bool :=
  match o with Regenerate _ _ | Reset => true | _ => false end.

Lemma sstep_spendable :
  forall s o, is_inflow o = false ->
    spendable (fst (sstep' s o)) = spendable s - charge_of o (snd (sstep' s o)).
Proof.
  intros s o Ho. destruct o; cbn [sstep is_inflow] in *; try discriminate.
  - apply consume_spendable.
  - destruct (convert_spec s amount) as (_ & H & _ & z & Hz). rewrite Hz. cbn [charge_of]. lia.
  - destruct s as [a g n ma mg mn d md tc m rn rd ac ow]; unf; cbn [charge_of snd fst]; red_model; lia.
  - destruct s as [a g n ma mg mn d md tc m rn rd ac ow]; unf; cbn [charge_of snd fst]; red_model; lia.
  - destruct (interest_spec s) as (H & _ & _ & _ & _ & Hr). rewrite Hr. cbn [charge_of]. lia.
Qed.

Lemma sstep_no_raise : forall s o, snd (sstep' s o) <> Raised.
Proof.
  intros s o. destruct o; cbn [sstep].
  - apply consume_no_raise.
  - destruct (regenerate_spec s amount t) as (_ & _ & _ & _ & _ & Hr). rewrite Hr. discriminate.
  - destruct (convert_spec s amount) as (_ & _ & _ & z & Hz). rewrite Hz. discriminate.
  - discriminate.
  - unf. red_model. discriminate.
  - destruct (interest_spec s) as (_ & _ & _ & _ & _ & Hr). rewrite Hr. discriminate.
  - destruct (reset_spec s) as (_ & Hr). rewrite Hr. discriminate.
Qed.

End WithParams.

(* ---------------------------------------------------------------------- *)
(* lists of stores                                                          *)

Lemma nth_error_upd_same :
  forall l i (x y : store), nth_error l i = Some x -> nth_error (upd l i y) i = Some y.
Proof.
  induction l as [|h l IH]; intros [|i] x y H; cbn in *; try discriminate; eauto.
Qed.

Lemma nth_error_upd_other :
  forall l i k (y : store), k <> i -> nth_error (upd l i y) k = nth_error l k.
Proof.
  induction l as [|h l IH]; intros [|i] [|k] y H; cbn; try reflexivity; try congruence.
  apply IH. congruence.
Qed.

Lemma length_upd : forall l i (y : store), length (upd l i y) = length l.
Proof. induction l as [|h l IH]; intros [|i] y; cbn; auto. Qed.

Lemma Forall_upd :
  forall (P : store -> Prop) l i y, Forall P l -> P y -> Forall P (upd l i y).
Proof.
  induction l as [|h l IH]; intros [|i] y Hl Hy; cbn; auto; inversion Hl; subst; constructor; auto.
Qed.

Lemma Forall_nth_error :
  forall (P : store -> Prop) l i x, Forall P l -> nth_error l i = Some x -> P x.
Proof.
  intros P l i x Hl Hn. rewrite Forall_forall in Hl. apply Hl. eapply nth_error_In; eauto.
Qed.

Lemma sum_upd :
  forall l i x y, nth_error l i = Some x ->
    sum_networth (upd l i y) = sum_networth l - networth x + networth y.
Proof.
  unfold sum_networth.
  induction l as [|h l IH]; intros [|i] x y H; cbn [upd nth_error fold_right] in *; try discriminate.
  - inversion H; subst. lia.
  - rewrite (IH _ _ y H). lia.
Qed.

Section System.
Variable classify : Z -> Z -> Z -> mstate.
Variable interest : Z -> Z -> Z -> Z.

Notation consume' := (consume classify false).
Notation regenerate' := (regenerate classify false).
Notation sstep' := (sstep classify interest false).
Notation step' := (step classify interest false).
Notation final' := (final classify interest false).
Notation run' := (run classify interest false).
Notation spent_on' := (spent_on classify interest false).
Notation paid_steps' := (paid_steps classify interest false).

(* ---------------------------------------------------------------------- *)
(* the invariant                                                            *)

Lemma step_good :
  interest_nonneg interest ->
  forall sys o, Forall good sys -> op_nonneg o -> Forall good (fst (step' sys o)).
Proof.
  intros Hi sys o Hg Ho. destruct o as [i lo | i j amount t]; cbn [step op_nonneg] in *.
  - destruct (nth_error sys i) as [s|] eqn:E; [|exact Hg].
    pose proof (sstep_good classify interest Hi s lo (Forall_nth_error _ _ _ _ Hg E) Ho) as Hs.
    destruct (sstep' s lo) as [s' r]. cbn [fst] in *. apply Forall_upd; assumption.
  - destruct (nth_error sys i) as [s|] eqn:E; [|exact Hg].
    pose proof (withdraw_good s amount t (Forall_nth_error _ _ _ _ Hg E)) as Hw.
    destruct (withdraw s amount t) as [s' ok]. cbn [fst] in Hw.
    destruct ok; [|exact Hg].
    assert (Hg1 : Forall good (upd sys i s')) by (apply Forall_upd; assumption).
    destruct (nth_error (upd sys i s') j) as [d|] eqn:Ej; [|exact Hg].
    pose proof (regenerate_good classify d amount t (Forall_nth_error _ _ _ _ Hg1 Ej) Ho) as Hr.
    destruct (regenerate' d amount t) as [d' r]. cbn [fst] in *. apply Forall_upd; assumption.
Qed.

Lemma final_good :
  interest_nonneg interest ->
  forall ops sys, Forall good sys -> Forall op_nonneg ops -> Forall good (final' sys ops).
Proof.
  intros Hi. induction ops as [|o ops IH]; intros sys Hg Ho; cbn [final]; [exact Hg|].
  inversion Ho; subst. apply IH; [apply step_good|]; assumption.
Qed.

Lemma run_good :
  interest_nonneg interest ->
  forall ops sys, Forall good sys -> Forall op_nonneg ops ->
    Forall (fun x => Forall good (fst x)) (run' sys ops).
Proof.
  intros Hi. induction ops as [|o ops IH]; intros sys Hg Ho; cbn [run]; [constructor|].
  inversion Ho; subst. pose proof (step_good Hi sys o Hg H1) as Hs.
  destruct (step' sys o) as [sys' r]. cbn [fst] in Hs. constructor; [exact Hs|]. apply IH; assumption.
Qed.

Lemma init_good : forall c, cfg_ok c -> good (init_store c).
Proof.
  intros [[[[[b g] n] md] rn] rd] H. unfold cfg_ok, good, caps_ok, inv, init_store in *. cbn. lia.
Qed.

Lemma init_all_good : forall cfgs, Forall cfg_ok cfgs -> Forall good (map init_store cfgs).
Proof.
  induction 1; cbn; constructor; auto using init_good.
Qed.

Lemma good_inv_all : forall sys, Forall good sys -> Forall inv sys.
Proof. intros sys H. eapply Forall_impl; [|exact H]. intros s Hs. apply Hs. Qed.


(* ---------------------------------------------------------------------- *)
(* frame, exact charge at system level                                      *)

Lemma local_frame :
  forall sys i lo k, k <> i -> nth_error (fst (step' sys (Local i lo))) k = nth_error sys k.
Proof.
  intros sys i lo k Hk. cbn [step]. destruct (nth_error sys i) as [s|]; [|reflexivity].
  destruct (sstep' s lo) as [s' r]. cbn [fst]. apply nth_error_upd_other. exact Hk.
Qed.

Lemma local_at :
  forall sys i lo s, nth_error sys i = Some s ->
    nth_error (fst (step' sys (Local i lo))) i = Some (fst (sstep' s lo)) /\
    snd (step' sys (Local i lo)) = snd (sstep' s lo) /\
    fst (step' sys (Local i lo)) = upd sys i (fst (sstep' s lo)).
Proof.
  intros sys i lo s H. cbn [step]. rewrite H. destruct (sstep' s lo) as [s' r]. cbn [fst snd].
  split; [|split; reflexivity]. eapply nth_error_upd_same; eauto.
Qed.

Lemma consume_step_spec :
  forall sys i s cost t allow prio,
    nth_error sys i = Some s ->
    let sys' := fst (step' sys (Local i (Consume cost t allow prio))) in
    let r := snd (step' sys (Local i (Consume cost t allow prio))) in
    exists s', nth_error sys' i = Some s' /\
      (forall k, k <> i -> nth_error sys' k = nth_error sys k) /\
      ((r = RBool true /\ networth s' = networth s - cost /\
        total_consumed s' = total_consumed s + cost /\
        sum_networth sys' = sum_networth sys - cost)
       \/
       (r = RBool false /\ networth s' = networth s /\ gtp s' = gtp s /\ debt s' = debt s /\
        total_consumed s' = total_consumed s /\ nadh s' <= nadh s /\
        atp s' - atp s = nadh s - nadh s' /\
        sum_networth sys' = sum_networth sys)).
Proof.
  intros sys i s cost t allow prio H sys' r.
  destruct (local_at sys i (Consume cost t allow prio) s H) as (Hn & Hr & Hu).
  exists (fst (sstep' s (Consume cost t allow prio))). split; [exact Hn|].
  split; [intros k Hk; apply local_frame; exact Hk|].
  subst sys' r. rewrite Hr, Hu, (sum_upd _ _ _ _ H). cbn [sstep].
  destruct (consume_exact classify s cost t allow prio) as [(E & Hw & Ht) | (E & Hw & Hrest)].
  - left. repeat split; try assumption. lia.
  - right. destruct Hrest as (? & ? & ? & ? & ?). repeat split; try assumption. lia.
Qed.

(* ---------------------------------------------------------------------- *)
(* transfers                                                                *)

Lemma transfer_spec :
  forall sys i j amount t, 0 <= amount ->
    let sys' := fst (step' sys (Transfer i j amount t)) in
    let r := snd (step' sys (Transfer i j amount t)) in
    sum_networth sys' <= sum_networth sys /\
    length sys' = length sys /\
    (forall k, k <> i -> k <> j -> nth_error sys' k = nth_error sys k) /\
    (r <> RBool true -> sys' = sys) /\
    (forall d d' u, nth_error sys j = Some d -> nth_error sys' j = Some d' ->
       bal d' u <= Z.max (cap d u) (bal d u)) /\
    r <> Raised.
Proof.
  intros sys i j amount t Ha. cbn [step].
  assert (Htriv : forall r0 : ret, r0 <> Raised ->
            sum_networth sys <= sum_networth sys /\ length sys = length sys /\
            (forall k, k <> i -> k <> j -> nth_error sys k = nth_error sys k) /\
            (r0 <> RBool true -> sys = sys) /\
            (forall d d' u, nth_error sys j = Some d -> nth_error sys j = Some d' ->
               bal d' u <= Z.max (cap d u) (bal d u)) /\ r0 <> Raised).
  { intros r0 Hr0. repeat split; try lia; try assumption.
    intros d d' u H1 H2. rewrite H1 in H2. inversion H2; subst. lia. }
  destruct (nth_error sys i) as [s|] eqn:E; [|apply Htriv; discriminate].
  pose proof (withdraw_spec s amount t) as Hw.
  destruct (withdraw s amount t) as [s' ok]. cbn [fst snd] in Hw.
  destruct ok; [|apply Htriv; discriminate].
  destruct Hw as [(_ & Hnw & Hbt & Hle & Hbo & Hdebt & Hcfg & Hacc) | (Hf & _)]; [|discriminate].
  destruct (nth_error (upd sys i s') j) as [d0|] eqn:Ej; [|apply Htriv; discriminate].
  pose proof (regenerate_spec classify d0 amount t) as Hr.
  destruct (regenerate' d0 amount t) as [d1 r1]. cbn [fst snd] in *.
  destruct Hr as (Hcap & Hoth & Hamt & Hcfg1 & Hacc1 & Hret). subst r1.
  destruct (Hamt Ha) as [Hnw1 _].
  split; [|split; [|split; [|split; [|split]]]].
  - rewrite (sum_upd _ _ _ _ Ej), (sum_upd _ _ _ _ E). lia.
  - rewrite !length_upd. reflexivity.
  - intros k Hi Hj. rewrite !nth_error_upd_other by assumption. reflexivity.
  - intros Hc. exfalso. apply Hc. reflexivity.
  - intros d d' u Hd Hd'.
    rewrite (nth_error_upd_same _ _ _ _ Ej) in Hd'. inversion Hd'; subst d'.
    specialize (Hcap u).
    destruct (Nat.eq_dec j i) as [->|Hne].
    + rewrite (nth_error_upd_same _ _ _ _ E) in Ej. inversion Ej; subst d0.
      rewrite E in Hd. inversion Hd; subst d.
      assert (bal s' u <= bal s u /\ cap s' u = cap s u) as [Hb Hc].
      { destruct Hcfg as (? & ? & ? & _). split.
        - destruct u, t; first [ rewrite Hbt; lia | rewrite Hbo by discriminate; lia ].
        - destruct u; cbn [cap]; assumption. }
      lia.
    + rewrite nth_error_upd_other in Ej by exact Hne. rewrite Hd in Ej. inversion Ej; subst d0. exact Hcap.
  - discriminate.
Qed.

(* ---------------------------------------------------------------------- *)
(* bounded total spend                                                      *)

Lemma spendable_nonneg : forall s, good s -> 0 <= spendable s.
Proof. intros s H. unfold good, caps_ok, inv, spendable in *. lia. Qed.

Lemma step_spendable :
  forall i sys o s, op_nonneg o -> no_inflow i o -> nth_error sys i = Some s ->
    exists s', nth_error (fst (step' sys o)) i = Some s' /\
      spendable s' + charge_on i o (snd (step' sys o)) <= spendable s.
Proof.
  intros i sys o s Ho Hin H. destruct o as [k lo | a b amount t].
  - destruct (Nat.eq_dec k i) as [->|Hne].
    + destruct (local_at sys i lo s H) as (Hn & Hr & _).
      exists (fst (sstep' s lo)). split; [exact Hn|]. rewrite Hr.
      assert (Hinf : is_inflow lo = false).
      { destruct lo; cbn [no_inflow is_inflow] in *; try reflexivity; congruence. }
      rewrite (sstep_spendable classify interest s lo Hinf).
      assert (charge_on i (Local i lo) (snd (sstep' s lo)) = charge_of lo (snd (sstep' s lo))) as ->.
      { unfold charge_on, charge_of. destruct lo; try reflexivity.
        rewrite Nat.eqb_refl. reflexivity. }
      lia.
    + exists s. split; [rewrite local_frame by congruence; exact H|].
      assert (charge_on i (Local k lo) (snd (step' sys (Local k lo))) = 0) as ->.
      { unfold charge_on. destruct lo; try reflexivity.
        apply Nat.eqb_neq in Hne. rewrite Hne.
        generalize (snd (step' sys (Local k (Consume cost t allow_debt priority)))).
        intros [ | [|] | z | | ]; reflexivity. }
      lia.
  - cbn [no_inflow op_nonneg] in *.
    assert (charge_on i (Transfer a b amount t) (snd (step' sys (Transfer a b amount t))) = 0) as ->
      by reflexivity.
    cbn [step].
    destruct (nth_error sys a) as [sa|] eqn:E; [|exists s; split; [exact H|lia]].
    pose proof (withdraw_spec sa amount t) as Hw.
    destruct (withdraw sa amount t) as [sa' ok]. cbn [fst snd] in Hw.
    destruct ok; [|exists s; split; [exact H|lia]].
    destruct Hw as [(_ & Hnw & _ & _ & _ & _ & Hcfg & Hacc) | (Hf & _)]; [|discriminate].
    destruct (nth_error (upd sys a sa') b) as [d0|] eqn:Ej; [|exists s; split; [exact H|lia]].
    destruct (regenerate' d0 amount t) as [d1 r1]. cbn [fst].
    rewrite nth_error_upd_other by congruence.
    destruct (Nat.eq_dec a i) as [->|Hne].
    + rewrite E in H. inversion H; subst sa.
      exists sa'. split; [eapply nth_error_upd_same; eauto|].
      rewrite !spendable_networth. destruct Hcfg as (_ & _ & _ & Hmd & _). lia.
    + exists s. split; [rewrite nth_error_upd_other by congruence; exact H|lia].
Qed.

Lemma spend_bounded :
  interest_nonneg interest ->
  forall i ops sys s,
    Forall good sys -> Forall op_nonneg ops -> Forall (no_inflow i) ops ->
    nth_error sys i = Some s ->
    spent_on' i sys ops <= spendable s.
Proof.
  intros Hi i. induction ops as [|o ops IH]; intros sys s Hg Ho Hin Hn; cbn [spent_on].
  - apply spendable_nonneg. eapply Forall_nth_error; eauto.
  - inversion Ho; subst. inversion Hin; subst.
    destruct (step_spendable i sys o s H1 H3 Hn) as (s' & Hn' & Hle).
    pose proof (step_good Hi sys o Hg H1) as Hg'.
    destruct (step' sys o) as [sys' r]. cbn [fst snd] in *.
    specialize (IH sys' s' Hg' H2 H4 Hn'). lia.
Qed.

Lemma paid_le_charge : forall i o r, op_nonneg o -> 0 <= paid_on i o r <= charge_on i o r.
Proof.
  intros i o r Ho. unfold paid_on, charge_on.
  destruct o as [k lo|]; [|lia]. destruct lo; try lia. destruct r; try lia. destruct b; try lia.
  cbn [op_nonneg sop_nonneg] in Ho. destruct (Nat.eqb k i); cbn [andb]; [|lia].
  destruct (1 <=? cost) eqn:E; lia.
Qed.

Lemma paid_le_spent :
  forall i ops sys, Forall op_nonneg ops -> 0 <= paid_steps' i sys ops <= spent_on' i sys ops.
Proof.
  intros i. induction ops as [|o ops IH]; intros sys Ho; cbn [paid_steps spent_on]; [lia|].
  inversion Ho; subst. destruct (step' sys o) as [sys' r].
  pose proof (paid_le_charge i o r H1). specialize (IH sys' H2). lia.
Qed.

Lemma paid_bounded :
  interest_nonneg interest ->
  forall i ops sys s,
    Forall good sys -> Forall op_nonneg ops -> Forall (no_inflow i) ops ->
    nth_error sys i = Some s ->
    paid_steps' i sys ops <= spendable s.
Proof.
  intros Hi i ops sys s Hg Ho Hin Hn.
  pose proof (paid_le_spent i ops sys Ho). pose proof (spend_bounded Hi i ops sys s Hg Ho Hin Hn). lia.
Qed.


(* ---------------------------------------------------------------------- *)
(* borrowing stays within the limit                                         *)

Lemma borrow_step_spec :
  forall sys i s cost t allow prio,
    nth_error sys i = Some s ->
    let sys' := fst (step' sys (Local i (Consume cost t allow prio))) in
    let r := snd (step' sys (Local i (Consume cost t allow prio))) in
    exists s', nth_error sys' i = Some s' /\ max_debt s' = max_debt s /\
      (debt s' = debt s \/
       (r = RBool true /\ debt s < debt s' /\ debt s < max_debt s /\ debt s' <= max_debt s)).
Proof.
  intros sys i s cost t allow prio H sys' r.
  destruct (local_at sys i (Consume cost t allow prio) s H) as (Hn & Hr & _).
  exists (fst (sstep' s (Consume cost t allow prio))). split; [exact Hn|].
  subst sys' r. rewrite Hr. cbn [sstep].
  destruct (consume_config classify s cost t allow prio) as [(_ & _ & _ & Hmd & _) _].
  split; [exact Hmd|].
  destruct (consume_borrow classify s cost t allow prio) as [E | (E & H1 & H2 & H3 & _)];
    [left; exact E | right; repeat split; assumption].
Qed.

Definition borrow_of (o : sop) (s s' : store) : Z :=
  match o with Consume _ _ _ _ => debt s' - debt s | _ => 0 end.

(* without inflow the principal (debt minus outstanding interest) moves only by borrowing *)
Lemma sstep_principal :
  forall s o, is_inflow o = false ->
    let s' := fst (sstep' s o) in
    debt s' - owed s' = debt s - owed s + borrow_of o s s' /\
    max_debt s' = max_debt s /\ 0 <= borrow_of o s s' /\
    (0 < borrow_of o s s' -> debt s' <= max_debt s).
Proof.
  intros s o Ho. destruct o; cbn [sstep is_inflow borrow_of] in *; try discriminate.
  - destruct (consume_config classify s cost t allow_debt priority) as [(_ & _ & _ & Hmd & _) [_ How]].
    destruct (consume_borrow classify s cost t allow_debt priority) as [E | (_ & H1 & H2 & H3 & _)]; lia.
  - destruct s as [a g n ma mg mn d md tc m rn rd ac ow]; unf; brk; red_model; lia.
  - destruct s as [a g n ma mg mn d md tc m rn rd ac ow]; unf; red_model; lia.
  - destruct s as [a g n ma mg mn d md tc m rn rd ac ow]; unf; red_model; lia.
  - destruct s as [a g n ma mg mn d md tc m rn rd ac ow]; unf; brk; red_model; lia.
Qed.

Definition borrow_on (i : nat) (o : op) (sys sys' : list store) : Z :=
  match o with
  | Local k (Consume _ _ _ _) => if Nat.eqb k i then debt_at i sys' - debt_at i sys else 0
  | _ => 0
  end.

Lemma step_principal :
  forall i sys o s, no_inflow i o -> nth_error sys i = Some s ->
    exists s', nth_error (fst (step' sys o)) i = Some s' /\
      let b := borrow_on i o sys (fst (step' sys o)) in
      debt s' - owed s' = debt s - owed s + b /\ max_debt s' = max_debt s /\ 0 <= b /\
      (0 < b -> debt s' <= max_debt s).
Proof.
  intros i sys o s Hin H. destruct o as [k lo | a b amount t].
  - destruct (Nat.eq_dec k i) as [->|Hne].
    + destruct (local_at sys i lo s H) as (Hn & _ & _).
      exists (fst (sstep' s lo)). split; [exact Hn|].
      assert (Hinf : is_inflow lo = false).
      { destruct lo; cbn [no_inflow is_inflow] in *; try reflexivity; congruence. }
      assert (borrow_on i (Local i lo) sys (fst (step' sys (Local i lo))) = borrow_of lo s (fst (sstep' s lo))) as ->.
      { unfold borrow_on, borrow_of, debt_at. destruct lo; try reflexivity.
        rewrite Nat.eqb_refl, Hn, H. reflexivity. }
      apply sstep_principal. exact Hinf.
    + exists s. split; [rewrite local_frame by congruence; exact H|].
      assert (borrow_on i (Local k lo) sys (fst (step' sys (Local k lo))) = 0) as ->.
      { unfold borrow_on. destruct lo; try reflexivity.
        apply Nat.eqb_neq in Hne. rewrite Hne. reflexivity. }
      cbv zeta. lia.
  - cbn [no_inflow] in *.
    assert (forall sys', borrow_on i (Transfer a b amount t) sys sys' = 0) as Hb by reflexivity.
    rewrite Hb. cbn [step].
    destruct (nth_error sys a) as [sa|] eqn:E; [|exists s; split; [exact H|cbv zeta; lia]].
    pose proof (withdraw_spec sa amount t) as Hw.
    destruct (withdraw sa amount t) as [sa' ok]. cbn [fst snd] in Hw.
    destruct ok; [|exists s; split; [exact H|cbv zeta; lia]].
    destruct Hw as [(_ & _ & _ & _ & _ & Hd & Hcfg & How) | (Hf & _)]; [|discriminate].
    destruct (nth_error (upd sys a sa') b) as [d0|] eqn:Ej; [|exists s; split; [exact H|cbv zeta; lia]].
    destruct (regenerate' d0 amount t) as [d1 r1]. cbn [fst].
    rewrite nth_error_upd_other by congruence.
    destruct (Nat.eq_dec a i) as [->|Hne].
    + rewrite E in H. inversion H; subst sa.
      exists sa'. split; [eapply nth_error_upd_same; eauto|].
      destruct Hcfg as (_ & _ & _ & Hmd & _). cbv zeta. lia.
    + exists s. split; [rewrite nth_error_upd_other by congruence; exact H|cbv zeta; lia].
Qed.

(* total principal borrowed without inflow: at most the debt room that is not interest *)
Lemma borrowed_bounded :
  interest_nonneg interest ->
  forall i ops sys s,
    Forall good sys -> Forall op_nonneg ops -> Forall (no_inflow i) ops ->
    nth_error sys i = Some s ->
    0 <= borrowed_on classify interest false i sys ops <= Z.max 0 (max_debt s - (debt s - owed s)).
Proof.
  intros Hi i. induction ops as [|o ops IH]; intros sys s Hg Ho Hin Hn; cbn [borrowed_on]; [lia|].
  inversion Ho; subst. inversion Hin; subst.
  destruct (step_principal i sys o s H3 Hn) as (s' & Hn' & Hp).
  pose proof (step_good Hi sys o Hg H1) as Hg'.
  fold (borrow_on i o sys (fst (step' sys o))) in Hp.
  assert (Hfold : forall sys' r, step' sys o = (sys', r) ->
            match o with
            | Local k (Consume _ _ _ _) => if Nat.eqb k i then debt_at i sys' - debt_at i sys else 0
            | _ => 0 end = borrow_on i o sys sys') by (intros; reflexivity).
  destruct (step' sys o) as [sys' r] eqn:Es. cbn [fst snd] in *.
  rewrite (Hfold sys' r eq_refl).
  cbv zeta in Hp. destruct Hp as (Hpr & Hmd & Hb0 & Hlim).
  specialize (IH sys' s' Hg' H2 H4 Hn').
  pose proof (Forall_nth_error _ _ _ _ Hg' Hn') as Hgs'. unfold good, inv in Hgs'.
  rewrite Hmd in IH. lia.
Qed.

(* ---------------------------------------------------------------------- *)
(* no operation raises                                                      *)

Lemma step_no_raise : forall sys o, snd (step' sys o) <> Raised.
Proof.
  intros sys o. destruct o as [i lo | i j amount t]; cbn [step].
  - destruct (nth_error sys i) as [s|]; [|discriminate].
    pose proof (sstep_no_raise classify interest s lo) as H.
    destruct (sstep' s lo) as [s' r]. exact H.
  - destruct (nth_error sys i) as [s|]; [|discriminate].
    destruct (withdraw s amount t) as [s' ok]. destruct ok; [|discriminate].
    destruct (nth_error (upd sys i s') j) as [d|]; [|discriminate].
    pose proof (regenerate_spec classify d amount t) as (_ & _ & _ & _ & _ & Hr).
    destruct (regenerate' d amount t) as [d' r]. cbn [snd] in *. subst r. discriminate.
Qed.

Lemma run_no_raise :
  forall ops sys, Forall (fun x : list store * ret => snd x <> Raised) (run' sys ops).
Proof.
  induction ops as [|o ops IH]; intros sys; cbn [run]; [constructor|].
  pose proof (step_no_raise sys o) as H. destruct (step' sys o) as [sys' r]. constructor; auto.
Qed.


(* ---------------------------------------------------------------------- *)
(* statement-shaped corollaries used by Property.v                          *)

Lemma regen_step_spec :
  forall sys i s amount t,
    nth_error sys i = Some s ->
    let sys' := fst (step' sys (Local i (Regenerate amount t))) in
    exists s', nth_error sys' i = Some s' /\
      (forall k, k <> i -> nth_error sys' k = nth_error sys k) /\
      (forall u, bal s' u <= Z.max (cap s u) (bal s u) /\ cap s' u = cap s u) /\
      (forall u, u <> t -> bal s' u = bal s u) /\
      (0 <= amount -> networth s' <= networth s + amount /\ debt s' <= debt s).
Proof.
  intros sys i s amount t H sys'.
  destruct (local_at sys i (Regenerate amount t) s H) as (Hn & _ & _).
  exists (fst (sstep' s (Regenerate amount t))). split; [exact Hn|].
  split; [intros k Hk; apply local_frame; exact Hk|]. cbn [sstep].
  destruct (regenerate_spec classify s amount t) as (Hcap & Hoth & Hamt & Hcfg & _ & _).
  split; [|split; assumption].
  intros u. split; [apply Hcap|]. destruct Hcfg as (? & ? & ? & _). destruct u; cbn [cap]; assumption.
Qed.

Lemma inv_from_configs :
  interest_nonneg interest ->
  forall cfgs ops, Forall cfg_ok cfgs -> Forall op_nonneg ops ->
    Forall (fun x => Forall inv (fst x)) (run' (map init_store cfgs) ops).
Proof.
  intros Hi cfgs ops Hc Ho.
  eapply Forall_impl; [|apply (run_good Hi ops _ (init_all_good cfgs Hc) Ho)].
  intros x Hx. apply good_inv_all. exact Hx.
Qed.

Lemma inv_general :
  interest_nonneg interest ->
  forall sys ops, Forall good sys -> Forall op_nonneg ops ->
    Forall (fun x => Forall good (fst x)) (run' sys ops) /\ Forall good (final' sys ops).
Proof.
  intros Hi sys ops Hg Ho. split; [apply run_good | apply final_good]; assumption.
Qed.

Lemma spend_bounded_from_configs :
  interest_nonneg interest ->
  forall cfgs ops i b g n md rn rd,
    Forall cfg_ok cfgs -> Forall op_nonneg ops -> Forall (no_inflow i) ops ->
    nth_error cfgs i = Some (b, g, n, md, rn, rd) ->
    spent_on' i (map init_store cfgs) ops <= b + g + n + md /\
    paid_steps' i (map init_store cfgs) ops <= b + g + n + md.
Proof.
  intros Hi cfgs ops i b g n md rn rd Hc Ho Hin Hn.
  assert (Hs : nth_error (map init_store cfgs) i = Some (init_store (b, g, n, md, rn, rd)))
    by (rewrite nth_error_map, Hn; reflexivity).
  pose proof (spend_bounded Hi i ops _ _ (init_all_good cfgs Hc) Ho Hin Hs) as H1.
  pose proof (paid_bounded Hi i ops _ _ (init_all_good cfgs Hc) Ho Hin Hs) as H2.
  unfold spendable, init_store in *. cbn in *. lia.
Qed.

Lemma borrowed_bounded_from_configs :
  interest_nonneg interest ->
  forall cfgs ops i b g n md rn rd,
    Forall cfg_ok cfgs -> Forall op_nonneg ops -> Forall (no_inflow i) ops ->
    nth_error cfgs i = Some (b, g, n, md, rn, rd) ->
    0 <= borrowed_on classify interest false i (map init_store cfgs) ops <= md.
Proof.
  intros Hi cfgs ops i b g n md rn rd Hc Ho Hin Hn.
  assert (Hs : nth_error (map init_store cfgs) i = Some (init_store (b, g, n, md, rn, rd)))
    by (rewrite nth_error_map, Hn; reflexivity).
  pose proof (borrowed_bounded Hi i ops _ _ (init_all_good cfgs Hc) Ho Hin Hs) as H1.
  assert (Hok : cfg_ok (b, g, n, md, rn, rd))
    by (rewrite Forall_forall in Hc; apply Hc; eapply nth_error_In; eauto).
  unfold cfg_ok in Hok.
  unfold init_store in *. cbn in *. lia.
Qed.

Lemma no_raise_all :
  forall sys ops, (forall o, snd (step' sys o) <> Raised) /\
    Forall (fun x : list store * ret => snd x <> Raised) (run' sys ops).
Proof. intros. split; [intros o; apply step_no_raise | apply run_no_raise]. Qed.

End System.
