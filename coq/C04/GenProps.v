(* C04 — the property theorems carried over to the functions generated from the source (Gen_C04.v), through the
   simulation theorem [grun_ok] of GenSys.v.  Objects are [proj s]: the real attributes of a model store [s] (its
   ghost fields dropped, the interest rate being the float quotient rate_n / rate_d).

   The model's invariant theorems assume a non-negative interest function.  For the binary64 instance this is a
   fact about the objects' rates, stated here as [rate_ok] (int(debt * rate) >= 0 for every positive debt), which
   holds for every non-negative finite rate; it is a hypothesis on the CONFIGURATION, not on the code. *)
From Coq Require Import ZArith List Bool Lia PrimFloat.
From Verif Require Import C04.Model C04.Proofs gen.Gen_C04 C04.GenOk C04.GenSys.
Import ListNotations.
Open Scope Z_scope.

Definition gnetworth (g : gstore) : Z := g_atp g + g_gtp g + g_nadh g - g_debt g.
Definition gsum_networth (l : list gstore) : Z := fold_right (fun g acc => gnetworth g + acc) 0 l.

Lemma gnetworth_proj s : gnetworth (proj s) = networth s.
Proof. reflexivity. Qed.

Lemma gsum_proj sys : gsum_networth (map proj sys) = sum_networth sys.
Proof. induction sys as [|s r IH]; cbn; [reflexivity|]. unfold gsum_networth in IH. rewrite IH. reflexivity. Qed.

(* ---------------------------------------------------------------------- *)
(* hypothesis-free: exact charging, transfers *)

Lemma gen_exact_charge :
  forall sys i s cost t allow prio,
    nth_error sys i = Some s ->
    let gsys := map proj sys in
    let gsys' := fst (gstep gsys (Local i (Consume cost t allow prio))) in
    let r := snd (gstep gsys (Local i (Consume cost t allow prio))) in
    exists g', nth_error gsys' i = Some g' /\
      (forall k, k <> i -> nth_error gsys' k = nth_error gsys k) /\
      ((r = RBool true /\ gnetworth g' = gnetworth (proj s) - cost /\
        g_total_consumed g' = g_total_consumed (proj s) + cost /\
        gsum_networth gsys' = gsum_networth gsys - cost)
       \/
       (r = RBool false /\ gnetworth g' = gnetworth (proj s) /\ g_gtp g' = g_gtp (proj s) /\
        g_debt g' = g_debt (proj s) /\ g_total_consumed g' = g_total_consumed (proj s) /\
        g_nadh g' <= g_nadh (proj s) /\
        g_atp g' - g_atp (proj s) = g_nadh (proj s) - g_nadh g' /\
        gsum_networth gsys' = gsum_networth gsys)).
Proof.
  intros sys i s cost t allow prio Hi gsys gsys' r.
  assert (Ha : op_addr_ok (length sys) (Local i (Consume cost t allow prio))).
  { cbn. apply nth_error_Some. congruence. }
  pose proof (gstep_ok sys _ Ha) as Hs.
  pose proof (consume_step_spec cf itf sys i s cost t allow prio Hi) as Hm. cbv zeta in Hm.
  subst gsys gsys' r. rewrite Hs. cbn [fst snd].
  destruct Hm as [s' [Hn [Hk Hc]]].
  exists (proj s'). split; [rewrite nth_error_map, Hn; reflexivity|]. split.
  - intros k Hk'. rewrite !nth_error_map, Hk by exact Hk'. reflexivity.
  - rewrite !gsum_proj, !gnetworth_proj. cbn [proj g_total_consumed g_gtp g_debt g_nadh g_atp]. exact Hc.
Qed.

Lemma gen_transfer_no_creation :
  forall sys i j amount t, 0 <= amount -> (i < length sys)%nat -> (j < length sys)%nat ->
    let gsys := map proj sys in
    let gsys' := fst (gstep gsys (Transfer i j amount t)) in
    let r := snd (gstep gsys (Transfer i j amount t)) in
    gsum_networth gsys' <= gsum_networth gsys /\
    length gsys' = length gsys /\
    (forall k, k <> i -> k <> j -> nth_error gsys' k = nth_error gsys k) /\
    (r <> RBool true -> gsys' = gsys) /\
    r <> Raised.
Proof.
  intros sys i j amount t Ha Hi Hj gsys gsys' r.
  pose proof (gstep_ok sys (Transfer i j amount t) (conj Hi Hj)) as Hs.
  pose proof (transfer_spec cf itf sys i j amount t Ha) as Hm. cbv zeta in Hm.
  subst gsys gsys' r. rewrite Hs. cbn [fst snd].
  destruct Hm as [H1 [H2 [H3 [H4 [_ H6]]]]].
  rewrite !gsum_proj, !map_length. repeat split; try assumption.
  - intros k Hk1 Hk2. rewrite !nth_error_map, H3 by assumption. reflexivity.
  - intros Hr. rewrite H4 by exact Hr. reflexivity.
Qed.

(* ---------------------------------------------------------------------- *)
(* the invariant, for objects whose rate never produces negative interest *)

Definition rate_ok (s : store) : Prop := forall d, 0 < d -> 0 <= itf (rate_n s) (rate_d s) d.
Definition itf_pos (rn rd d : Z) : Z := Z.max 0 (itf rn rd d).

Lemma itf_pos_nonneg : interest_nonneg itf_pos.
Proof. intros rn rd d _. unfold itf_pos. lia. Qed.

Lemma sstep_rates : forall itr s o,
  rate_n (fst (sstep cf itr false s o)) = rate_n s /\ rate_d (fst (sstep cf itr false s o)) = rate_d s.
Proof.
  intros itr s o. destruct s as [xa xg xn xma xmg xmn xd xmd xtc xm xrn xrd xac xow].
  destruct o as [c t ad p | a t | a | | | | ]; cbn [sstep];
    unfold consume, charged, regenerate, convert, apply_interest, reset, update_state;
    try destruct t; simp; split_ifs; simp; split; reflexivity.
Qed.

Lemma sstep_ext s o : rate_ok s -> sstep cf itf false s o = sstep cf itf_pos false s o.
Proof.
  intros Hr. destruct o; try reflexivity.
  cbn [sstep]. unfold apply_interest.
  destruct (0 <? debt s) eqn:E; [|reflexivity].
  unfold itf_pos. rewrite Z.max_r; [reflexivity|]. apply Hr. lia.
Qed.

Lemma regenerate_rates s a t :
  rate_n (fst (regenerate cf false s a t)) = rate_n s /\ rate_d (fst (regenerate cf false s a t)) = rate_d s.
Proof. exact (sstep_rates itf s (Regenerate a t)). Qed.

Lemma withdraw_rates s a t : rate_n (fst (withdraw s a t)) = rate_n s /\ rate_d (fst (withdraw s a t)) = rate_d s.
Proof. unfold withdraw. destruct (bal s t <? a); [split; reflexivity|]. destruct s, t; split; reflexivity. Qed.

Lemma rate_ok_same s s' : rate_n s' = rate_n s -> rate_d s' = rate_d s -> rate_ok s -> rate_ok s'.
Proof. unfold rate_ok. intros -> ->. exact (fun H => H). Qed.

Lemma Forall_upd_rate sys i s' :
  Forall rate_ok sys -> rate_ok s' -> Forall rate_ok (upd sys i s').
Proof.
  revert i; induction sys as [|y r IH]; intros [|k] Hf Hs; cbn [upd]; try exact Hf.
  - inversion Hf; subst. constructor; assumption.
  - inversion Hf; subst. constructor; [assumption|]. apply IH; assumption.
Qed.

Lemma Forall_nth {A} (P : A -> Prop) l i x : Forall P l -> nth_error l i = Some x -> P x.
Proof. intros Hf Hn. rewrite Forall_forall in Hf. apply Hf. eapply nth_error_In; exact Hn. Qed.

Lemma step_ext sys o :
  Forall rate_ok sys ->
  step cf itf false sys o = step cf itf_pos false sys o /\ Forall rate_ok (fst (step cf itf false sys o)).
Proof.
  intros Hf. destruct o as [i lo | i j a t]; cbn [step].
  - destruct (nth_error sys i) as [s|] eqn:Ei; [|split; [reflexivity|exact Hf]].
    pose proof (Forall_nth _ _ _ _ Hf Ei) as Hs.
    rewrite <- (sstep_ext s lo Hs).
    pose proof (sstep_rates itf s lo) as [Hn Hd].
    destruct (sstep cf itf false s lo) as [s' r]. cbn [fst] in *. split; [reflexivity|].
    apply Forall_upd_rate; [exact Hf|]. eapply rate_ok_same; eauto.
  - split; [reflexivity|].
    destruct (nth_error sys i) as [s|] eqn:Ei; [|exact Hf].
    pose proof (Forall_nth _ _ _ _ Hf Ei) as Hs.
    pose proof (withdraw_rates s a t) as [Hn Hd].
    destruct (withdraw s a t) as [s' ok]. cbn [fst] in *. destruct ok; [|exact Hf].
    assert (Hf1 : Forall rate_ok (upd sys i s')).
    { apply Forall_upd_rate; [exact Hf|]. eapply rate_ok_same; eauto. }
    destruct (nth_error (upd sys i s') j) as [d|] eqn:Ej; [|exact Hf].
    pose proof (Forall_nth _ _ _ _ Hf1 Ej) as Hdk.
    pose proof (regenerate_rates d a t) as [Hn2 Hd2].
    destruct (regenerate cf false d a t) as [d' r]. cbn [fst] in *.
    apply Forall_upd_rate; [exact Hf1|]. eapply rate_ok_same; eauto.
Qed.

Lemma run_ext : forall ops sys, Forall rate_ok sys -> run cf itf false sys ops = run cf itf_pos false sys ops.
Proof.
  induction ops as [|o rest IH]; intros sys Hf; cbn [run]; [reflexivity|].
  destruct (step_ext sys o Hf) as [He Hf'].
  rewrite <- He. destruct (step cf itf false sys o) as [sys' r]. cbn [fst] in Hf'.
  rewrite IH by exact Hf'. reflexivity.
Qed.

Definition ginv (g : gstore) : Prop := 0 <= g_atp g /\ 0 <= g_gtp g /\ 0 <= g_nadh g /\ 0 <= g_debt g.

(* every balance and the debt stay >= 0 in every state the generated functions visit, from any freshly
   constructed objects with non-negative budgets and limits, for every history with non-negative amounts *)
Lemma gen_inv_from_configs :
  forall cfgs ops,
    Forall cfg_ok cfgs -> Forall rate_ok (map init_store cfgs) ->
    Forall op_nonneg ops -> Forall (op_addr_ok (length cfgs)) ops ->
    Forall (fun x => Forall ginv (fst x)) (grun (map proj (map init_store cfgs)) ops).
Proof.
  intros cfgs ops Hc Hr Ho Ha.
  rewrite grun_ok by (rewrite map_length; exact Ha).
  rewrite run_ext by exact Hr.
  pose proof (inv_from_configs cf itf_pos itf_pos_nonneg cfgs ops Hc Ho) as Hm.
  rewrite Forall_map. eapply Forall_impl; [|exact Hm].
  intros [sys' r] Hx. cbn [fst] in *. rewrite Forall_map. eapply Forall_impl; [|exact Hx].
  intros s Hs. unfold inv in Hs. unfold ginv. cbn [proj g_atp g_gtp g_nadh g_debt]. tauto.
Qed.
