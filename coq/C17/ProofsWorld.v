(* C17 — lemmas about histories over SEVERAL agents under one ImmuneSystem
   (Model.v: world, view, world_step, wrun).  Only the agent's own watcher, its
   own window and remembered threats carrying ITS OWN id count as signals; calls
   about another agent leave an agent's display, watcher and tolerance record
   alone and never add to what is remembered about it. *)
From Coq Require Import ZArith List Bool QArith Lia ZifyBool.
From Verif Require Import C17.Model C17.Proofs.
Import ListNotations.
Open Scope Z_scope.

(* a threat with the hashes of fingerprint [p] is remembered ABOUT AGENT [k] *)
Definition remembered_of (k : Z) (mem : list msig) (p : peptide) : Prop :=
  exists m, In m mem /\ m_agent m = k /\ m_vh m = p_vh p /\ m_sh m = p_sh p.

(* the second signals of agent [k]: its own canary results, its own flag, its own
   streak, or a remembered threat about itself *)
Definition second_signal_of (k : Z) (t : tcell) (mem : list msig) (p : peptide) : Prop :=
  canary_failed (t_prof t) p = true \/ t_manual t = true \/ t_rep t <= t_anom t + 1 \/
  remembered_of k mem p.

Lemma swap_agent_zero : forall k z, swap_agent k z = 0 <-> z = k.
Proof. intros k z. unfold swap_agent. destruct (z =? k) eqn:A; destruct (z =? 0) eqn:B; lia. Qed.

Lemma swap_agent_invol : forall k z, swap_agent k (swap_agent k z) = z.
Proof.
  intros k z. unfold swap_agent.
  destruct (z =? k) eqn:A.
  - destruct (0 =? k) eqn:B; [lia|]. rewrite Z.eqb_refl. lia.
  - destruct (z =? 0) eqn:B.
    + rewrite Z.eqb_refl. lia.
    + rewrite A, B. reflexivity.
Qed.

Lemma relabel_invol : forall k m, relabel k (relabel k m) = m.
Proof. intros k [ag vh sh l a c ac ty]. unfold relabel. cbn. rewrite swap_agent_invol. reflexivity. Qed.

Lemma map_relabel_invol : forall k mem, map (relabel k) (map (relabel k) mem) = mem.
Proof. intros k mem. rewrite map_map. rewrite <- (map_id mem) at 2. apply map_ext. apply relabel_invol. Qed.

Lemma remembered_view : forall k mem p,
  remembered (map (relabel k) mem) p <-> remembered_of k mem p.
Proof.
  intros k mem p. split.
  - intros [m' [I [A [V S]]]]. apply in_map_iff in I. destruct I as [m [E I]]. subst m'.
    exists m. split; [exact I|]. unfold relabel in *. cbn [m_agent m_vh m_sh] in *.
    apply (proj1 (swap_agent_zero _ _)) in A. auto.
  - intros [m [I [A [V S]]]]. exists (relabel k m). split; [apply in_map; exact I|].
    unfold relabel. cbn [m_agent m_vh m_sh]. split; [apply (proj2 (swap_agent_zero _ _)); exact A|]. auto.
Qed.

Lemma wrun_In : forall pf rnd lg g ops w0 w k a out,
  In (w, k, a, out) (wrun pf rnd lg g w0 ops) -> exists w', world_step pf rnd lg g w k a = (w', out).
Proof.
  intros pf rnd lg g ops. induction ops as [|[k0 a0] rest IH]; intros w0 w k a out H; [destruct H|].
  cbn [wrun] in H. destruct (world_step pf rnd lg g w0 k0 a0) as [w1 out1] eqn:E.
  destruct H as [H|H].
  - inversion H; subst. exists w1. exact E.
  - eapply IH; eauto.
Qed.

(* ---------------------------------------------------------------------- *)
(* two signals, per agent                                                   *)

Lemma world_two_signals_step : forall pf rnd g w k w' r sp,
  world_step pf rnd false g w k AInspect = (w', OutResp r sp) -> threat r ->
  exists t p, a_tcell (w_agents w k) = Some t /\
              fingerprint pf (a_disp (w_agents w k)) = Some p /\
              is_anergic t = false /\ check (t_prof t) p <> [] /\
              second_signal_of k t (w_mem w) p.
Proof.
  intros pf rnd g w k w' r sp H T. unfold world_step in H. cbn [lower] in H.
  destruct (sys_step rnd false g (view k w) (OInspect (fingerprint pf (a_disp (w_agents w k)))))
    as [s' out] eqn:E.
  inversion H; subst; clear H.
  destruct (fingerprint pf (a_disp (w_agents w k))) as [p|] eqn:F.
  - destruct (two_signals_step _ _ _ _ _ _ _ E T) as [t [Ht [A [C S]]]].
    exists t, p. cbn [view s_tcell] in Ht. split; [exact Ht|]. split; [reflexivity|].
    split; [exact A|]. split; [exact C|].
    destruct S as [S|[S|[S|S]]]; [left; exact S|right; left; exact S|right; right; left; exact S|].
    right; right; right. cbn [view s_mem] in S. apply remembered_view. exact S.
  - exfalso. cbn [sys_step] in E. unfold sys_inspect in E.
    destruct (s_tcell (view k w)); [|discriminate].
    inversion E; subst. destruct T as [T|[T|[T|T]]]; cbn in T; discriminate.
Qed.

Lemma world_two_signals_proof : forall pf rnd g w0 ops w k r sp,
  In (w, k, AInspect, OutResp r sp) (wrun pf rnd false g w0 ops) -> threat r ->
  exists t p, a_tcell (w_agents w k) = Some t /\
              fingerprint pf (a_disp (w_agents w k)) = Some p /\
              is_anergic t = false /\ check (t_prof t) p <> [] /\
              second_signal_of k t (w_mem w) p.
Proof.
  intros pf rnd g w0 ops w k r sp H T. apply wrun_In in H. destruct H as [w' H].
  eapply world_two_signals_step; eauto.
Qed.

(* ---------------------------------------------------------------------- *)
(* calls about another agent                                                *)

Lemma world_step_other_agent : forall pf rnd lg g w j a w' out k,
  world_step pf rnd lg g w j a = (w', out) -> k <> j -> w_agents w' k = w_agents w k.
Proof.
  intros pf rnd lg g w j a w' out k H N. unfold world_step in H.
  destruct (lower pf (a_disp (w_agents w j)) a) as [o|].
  - destruct (sys_step rnd lg g (view j w) o) as [s' out'].
    inversion H; subst. cbn. destruct (k =? j) eqn:E; [lia|reflexivity].
  - inversion H; subst. cbn. destruct (k =? j) eqn:E; [lia|reflexivity].
Qed.

(* what a history of calls about OTHER agents leaves of agent k: everything *)
Fixpoint wfinal (pf : list Z -> list bool -> peptide) (rnd : Q -> Q) (lg : bool) (g : cfg)
         (w : world) (ops : list (Z * aop)) : world :=
  match ops with
  | [] => w
  | (k, a) :: rest => wfinal pf rnd lg g (fst (world_step pf rnd lg g w k a)) rest
  end.

Lemma world_others_leave_agent : forall pf rnd lg g ops w k,
  Forall (fun ka => fst ka <> k) ops -> w_agents (wfinal pf rnd lg g w ops) k = w_agents w k.
Proof.
  intros pf rnd lg g ops. induction ops as [|[j a] rest IH]; intros w k F; [reflexivity|].
  inversion F; subst. cbn [wfinal]. rewrite IH; [|assumption].
  destruct (world_step pf rnd lg g w j a) as [w' out] eqn:E. cbn [fst].
  eapply world_step_other_agent; eauto.
Qed.

(* the memory after an inspection: nothing new is remembered except, possibly,
   one signature about the INSPECTED agent *)
Lemma touch_first_In : forall f now mem m,
  In m (touch_first f now mem) ->
  exists m0, In m0 mem /\ m_agent m = m_agent m0 /\ m_vh m = m_vh m0 /\ m_sh m = m_sh m0.
Proof.
  intros f now mem. induction mem as [|x r IH]; intros m H; [destruct H|].
  cbn [touch_first] in H. destruct (f x).
  - destruct H as [H|H].
    + subst m. exists x. cbn. auto.
    + exists m. cbn. auto.
  - destruct H as [H|H].
    + subst m. exists x. cbn. auto.
    + destruct (IH _ H) as [m0 [I R]]. exists m0. cbn. auto.
Qed.

Lemma remove_first_In : forall f mem (m : msig), In m (remove_first f mem) -> In m mem.
Proof.
  intros f mem. induction mem as [|x r IH]; intros m H; [destruct H|].
  cbn [remove_first] in H. destruct (f x); [right; exact H|].
  destruct H as [H|H]; [left; exact H|right; apply IH; exact H].
Qed.

Lemma prune_least_In : forall mem (m : msig), In m (prune_least mem) -> In m mem.
Proof.
  intros mem m H. destruct mem as [|x r]; [destruct H|].
  unfold prune_least in H. eapply remove_first_In; eauto.
Qed.

Lemma mem_store_In : forall cap now mem x m,
  In m (mem_store cap now mem x) ->
  In m mem \/ (m_agent m = m_agent x /\ m_vh m = m_vh x /\ m_sh m = m_sh x).
Proof.
  intros cap now mem x m H. unfold mem_store in H. apply in_app_or in H. destruct H as [H|H].
  - left. destruct (cap <=? Z.of_nat (length mem)); [eapply prune_least_In; eauto|exact H].
  - right. destruct H as [H|[]]. subst m. cbn. auto.
Qed.

Lemma sys_inspect_mem_agents : forall lg g s po s' out m,
  sys_inspect lg g s po = (s', out) -> In m (s_mem s') ->
  m_agent m = 0 \/ exists m0, In m0 (s_mem s) /\ m_agent m = m_agent m0 /\ m_vh m = m_vh m0 /\ m_sh m = m_sh m0.
Proof.
  intros lg g s po s' out m H I. unfold sys_inspect in H.
  assert (SAME : In m (s_mem s) -> m_agent m = 0 \/
            exists m0, In m0 (s_mem s) /\ m_agent m = m_agent m0 /\ m_vh m = m_vh m0 /\ m_sh m = m_sh m0)
    by (intro X; right; exists m; auto).
  destruct (s_tcell s) as [t|]; [|inversion H; subst; auto].
  destruct po as [p|]; [|inversion H; subst; auto].
  destruct (if lg || negb (is_anergic t) && nonempty (check (t_prof t) p) then recall (s_mem s) p else None) as [mm|].
  - inversion H; subst. cbn [set_mem s_mem] in I. right. eapply touch_first_In; eauto.
  - destruct (tcell_inspect t p) as [t' r].
    destruct (s_rec s) as [rc|].
    + inversion H; subst; clear H. cbn [s_mem] in I.
      match type of I with In _ (if ?c then _ else _) => destruct c end; [|auto].
      apply mem_store_In in I. destruct I as [I|[A _]]; [auto|left; exact A].
    + inversion H; subst; clear H. cbn [s_mem] in I.
      match type of I with In _ (if ?c then _ else _) => destruct c end; [|auto].
      apply mem_store_In in I. destruct I as [I|[A _]]; [auto|left; exact A].
Qed.

(* an inspection (or a training, a recorded observation, a canary result, a
   clear) of agent j never adds to what is remembered about another agent k *)
Definition no_memory_edit (a : aop) : bool :=
  match a with
  | ASys (OStore _) | ASys (OImport _) => false
  | _ => true
  end.

Lemma sys_step_mem_agents : forall rnd lg g s o s' out m,
  sys_step rnd lg g s o = (s', out) ->
  match o with OStore _ | OImport _ => False | _ => True end ->
  In m (s_mem s') ->
  m_agent m = 0 \/ exists m0, In m0 (s_mem s) /\ m_agent m = m_agent m0 /\ m_vh m = m_vh m0 /\ m_sh m = m_sh m0.
Proof.
  intros rnd lg g s o s' out m H NE I.
  assert (SAME : In m (s_mem s) -> m_agent m = 0 \/
            exists m0, In m0 (s_mem s) /\ m_agent m = m_agent m0 /\ m_vh m = m_vh m0 /\ m_sh m = m_sh m0)
    by (intro X; right; exists m; auto).
  destruct o; cbn [sys_step] in H; try contradiction.
  - eapply sys_inspect_mem_agents; eauto.
  - inversion H; subst. destruct (s_tcell s); cbn in I; auto.
  - inversion H; subst. destruct (s_tcell s); cbn in I; auto.
  - inversion H; subst. destruct (s_tcell s); cbn in I; auto.
  - inversion H; subst. cbn in I. apply SAME. clear -I. revert i I.
    induction (s_mem s) as [|x r IH]; intros i I; [destruct i; exact I|].
    destruct i; cbn in I; [right; exact I|]. destruct I as [I|I]; [left; exact I|right; eapply IH; eauto].
  - inversion H; subst. cbn in I. destruct I.
  - inversion H; subst. cbn in I. apply filter_In in I. apply SAME. tauto.
  - inversion H; subst. cbn in I. auto.
  - inversion H; subst. cbn in I. right. eapply touch_first_In; eauto.
  - inversion H; subst. cbn in I. auto.
  - unfold sys_train in H. destruct p as [p|]; [|inversion H; subst; auto].
    repeat match type of H with (if ?c then _ else _) = _ => destruct c end; inversion H; subst; cbn in I; auto.
  - inversion H; subst. auto.
  - inversion H; subst. cbn in I. auto.
  - inversion H; subst. cbn in I. auto.
  - inversion H; subst. cbn in I. right. eapply touch_first_In; eauto.
Qed.

Lemma world_step_no_new_memory_of_others : forall pf rnd lg g w j a w' out k p,
  world_step pf rnd lg g w j a = (w', out) -> no_memory_edit a = true -> k <> j ->
  remembered_of k (w_mem w') p -> remembered_of k (w_mem w) p.
Proof.
  intros pf rnd lg g w j a w' out k p H NE N [m [I [A [V S]]]]. unfold world_step in H.
  destruct (lower pf (a_disp (w_agents w j)) a) as [o|] eqn:L.
  - destruct (sys_step rnd lg g (view j w) o) as [s' out'] eqn:E.
    inversion H; subst; clear H. cbn [put w_mem] in I.
    apply in_map_iff in I. destruct I as [m1 [R I]].
    assert (NO : match o with OStore _ | OImport _ => False | _ => True end).
    { destruct a; cbn in L; inversion L; subst; try exact I0; try exact Logic.I.
      destruct o; cbn in NE; try discriminate; exact Logic.I. }
    destruct (sys_step_mem_agents _ _ _ _ _ _ _ m1 E NO I) as [Z0|[m0 [I0 [A0 [V0 S0]]]]].
    + exfalso. subst m. destruct m1; cbn in *. subst. unfold swap_agent in N.
      rewrite Z.eqb_refl in N. destruct (0 =? j) eqn:Q; lia.
    + cbn [view s_mem] in I0. apply in_map_iff in I0. destruct I0 as [m2 [R2 I2]].
      exists m2. split; [exact I2|]. subst m m0. destruct m1, m2; cbn in *.
      subst. split; [symmetry; apply swap_agent_invol|split; congruence].
  - inversion H; subst; clear H. cbn [put w_mem view s_mem] in I. rewrite map_relabel_invol in I.
    exists m. auto.
Qed.
