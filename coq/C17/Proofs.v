(* C17 — lemmas.  The statements used by Property.v are at the end of each
   section; spec-level predicates used in the theorem statements are defined
   here (Model.v holds executable definitions only). *)
From Coq Require Import ZArith List Bool QArith Lia Lqa ZifyBool.
From Verif Require Import C17.Model.
Import ListNotations.
Open Scope Z_scope.

(* ---------------------------------------------------------------------- *)
(* spec-level vocabulary                                                    *)

(* the agent is reported CONFIRMED or CRITICAL, or isolate / shutdown is recommended *)
Definition threat (r : response) : Prop :=
  r_level r = LConf \/ r_level r = LCrit \/ r_action r = AIsolate \/ r_action r = AShutdown.

Definition silent (r : response) : Prop := r_level r = LNone /\ r_action r = AIgnore.

Definition remembered (mem : list msig) (p : peptide) : Prop :=
  exists m, In m mem /\ m_agent m = 0 /\ m_vh m = p_vh p /\ m_sh m = p_sh p.

(* a second signal, independent of the current baseline check, is present
   when fingerprint [p] is inspected by watcher [t] with memory [mem]:
   canary failure, manual flag, repeated anomaly (this anomaly is at least the
   [t_rep]-th in a row) or a remembered threat *)
Definition second_signal (t : tcell) (mem : list msig) (p : peptide) : Prop :=
  canary_failed (t_prof t) p = true \/ t_manual t = true \/ t_rep t <= t_anom t + 1 \/
  remembered mem p.

(* [b] is [a] or exactly one step below it on ignore < monitor < isolate < shutdown *)
Definition same_or_one_lower (a b : action) : Prop :=
  b = a \/ (a <> AAlert /\ action_code b + 1 = action_code a).

(* the action the T cell pairs with each level *)
Definition level_action (l : level) : action :=
  match l with LNone => AIgnore | LSusp => AMonitor | LConf => AIsolate | LCrit => AShutdown end.

Definition replaces_watcher (o : op) : bool := match o with OTrain _ => true | _ => false end.

(* ---------------------------------------------------------------------- *)
(* traces                                                                   *)

Lemma run_In : forall rnd lg g ops s0 s o out,
  In (s, o, out) (run rnd lg g s0 ops) -> exists s', sys_step rnd lg g s o = (s', out).
Proof.
  induction ops as [|a ops IH]; cbn [run]; intros s0 s o out H.
  - contradiction.
  - destruct (sys_step rnd lg g s0 a) as [s1 out1] eqn:E. destruct H as [H|H].
    + inversion H; subst. eauto.
    + eauto.
Qed.

(* ---------------------------------------------------------------------- *)
(* the T cell                                                               *)

Lemma nonempty_true : forall l, nonempty l = true <-> l <> [].
Proof. destruct l; cbn; split; intros; try discriminate; try congruence; auto. Qed.

Lemma nonempty_false : forall l, nonempty l = false <-> l = [].
Proof. destruct l; cbn; split; intros; try discriminate; auto. Qed.

Lemma determine_threat : forall s1 s2 n c l a,
  determine_response s1 s2 n c = (l, a) ->
  (l = LConf \/ l = LCrit \/ a = AIsolate \/ a = AShutdown) ->
  s1 <> S1Self /\ s2 <> S2None.
Proof.
  intros s1 s2 n c l a H T. unfold determine_response in H.
  destruct s1, s2; try destruct (_ || _); inversion H; subst;
    (split; [discriminate || (exfalso; intuition discriminate)
            | discriminate || (exfalso; intuition discriminate)]).
Qed.

Lemma determine_wf : forall s1 s2 n c l a,
  determine_response s1 s2 n c = (l, a) -> a = level_action l.
Proof.
  intros s1 s2 n c l a H. unfold determine_response in H.
  destruct s1, s2; try destruct (_ || _); inversion H; subst; reflexivity.
Qed.

Lemma determine_self : forall s2 n c, determine_response S1Self s2 n c = (LNone, AIgnore).
Proof. reflexivity. Qed.

Lemma tcell_inspect_anergic : forall t p,
  is_anergic t = true ->
  tcell_inspect t p = (t, mkResp LNone AIgnore S1Unknown S2None [] true).
Proof. intros t p H. unfold tcell_inspect. rewrite H. reflexivity. Qed.

Lemma tcell_inspect_wf : forall t p t' r,
  tcell_inspect t p = (t', r) -> r_action r = level_action (r_level r).
Proof.
  intros t p t' r H. unfold tcell_inspect in H. destruct (is_anergic t).
  - inversion H; subst. reflexivity.
  - destruct (determine_response _ _ _ _) as [l a] eqn:D. inversion H; subst. cbn.
    eapply determine_wf; eauto.
Qed.

Lemma tcell_inspect_inside : forall t p t' r,
  tcell_inspect t p = (t', r) -> check (t_prof t) p = [] -> silent r /\ r_viol r = [].
Proof.
  intros t p t' r H C. unfold tcell_inspect in H. destruct (is_anergic t).
  - inversion H; subst. repeat split.
  - rewrite C in H. cbn in H. inversion H; subst. repeat split.
Qed.

Lemma tcell_inspect_inside_s1 : forall t p t' r,
  tcell_inspect t p = (t', r) -> check (t_prof t) p = [] -> is_anergic t = false ->
  r_s1 r = S1Self.
Proof.
  intros t p t' r H C A. unfold tcell_inspect in H. rewrite A, C in H. cbn in H.
  inversion H; subst. reflexivity.
Qed.

Lemma tcell_inspect_threat : forall t p t' r,
  tcell_inspect t p = (t', r) -> threat r ->
  is_anergic t = false /\ check (t_prof t) p <> [] /\
  (canary_failed (t_prof t) p = true \/ t_manual t = true \/ t_rep t <= t_anom t + 1).
Proof.
  intros t p t' r H T. unfold tcell_inspect in H. destruct (is_anergic t) eqn:A.
  - inversion H; subst. unfold threat in T; cbn in T. intuition discriminate.
  - split; [reflexivity|].
    destruct (check (t_prof t) p) as [|v0 vs] eqn:C.
    + cbn in H. inversion H; subst. unfold threat in T; cbn in T. intuition discriminate.
    + split; [discriminate|]. cbn [nonempty andb] in H.
      destruct (determine_response _ _ _ _) as [l a] eqn:D. inversion H; subst; clear H.
      unfold threat in T; cbn in T.
      destruct (determine_threat _ _ _ _ _ _ D T) as [_ N2].
      destruct (t_rep t <=? t_anom t + 1) eqn:R.
      * right; right. lia.
      * destruct (canary_failed (t_prof t) p); [left; reflexivity|].
        destruct (t_manual t); [right; left; reflexivity|]. congruence.
Qed.

Lemma tcell_inspect_state : forall t p t' r,
  tcell_inspect t p = (t', r) ->
  t_prof t' = t_prof t /\ t_rep t' = t_rep t /\ t_anergy_thr t' = t_anergy_thr t /\
  t_anergy t' = t_anergy t /\ t_manual t' = t_manual t.
Proof.
  intros t p t' r H. unfold tcell_inspect in H. destruct (is_anergic t).
  - inversion H; subst. repeat split.
  - destruct (determine_response _ _ _ _) as [l a]. inversion H; subst. repeat split.
Qed.

(* ---------------------------------------------------------------------- *)
(* the regulatory T cell                                                    *)

Lemma treg_critical : forall rules stab r rc,
  r_level r = LCrit ->
  treg_evaluate rules stab r rc = mkSupp false (r_action r) (r_action r) (-1).
Proof. intros rules stab r rc H. unfold treg_evaluate. rewrite H. reflexivity. Qed.

Lemma treg_orig : forall rules stab r rc, sp_orig (treg_evaluate rules stab r rc) = r_action r.
Proof.
  intros. unfold treg_evaluate.
  destruct (r_level r); try reflexivity;
    destruct (_ && _); try reflexivity; destruct (first_rule _ _ _ _); reflexivity.
Qed.

Lemma treg_unsuppressed : forall rules stab r rc,
  sp_suppressed (treg_evaluate rules stab r rc) = false ->
  sp_mod (treg_evaluate rules stab r rc) = r_action r.
Proof.
  intros rules stab r rc. unfold treg_evaluate.
  destruct (r_level r); try (intros; reflexivity);
    destruct (_ && _); cbn; try discriminate; destruct (first_rule _ _ _ _); cbn;
      try discriminate; reflexivity.
Qed.

Lemma downgrade_step : forall a, a <> AAlert -> same_or_one_lower a (downgrade a).
Proof.
  intros a H. destruct a; cbn; try congruence;
    (left; reflexivity) || (right; split; [discriminate | reflexivity]).
Qed.

(* the general statement about evaluate on ANY response: the result is the
   input action or its one-step downgrade, except that the stable-agent
   shortcut sends a SUSPICIOUS response straight to ignore *)
Lemma treg_evaluate_shape : forall rules stab r rc,
  let sp := treg_evaluate rules stab r rc in
  (sp_reason sp = -2 /\ r_level r = LSusp /\ sp_mod sp = AIgnore /\ sp_suppressed sp = true) \/
  (sp_reason sp <> -2 /\ (sp_mod sp = r_action r \/ sp_mod sp = downgrade (r_action r))).
Proof.
  intros rules stab r rc. cbv zeta. unfold treg_evaluate.
  assert (F : forall rl i j, first_rule rl r rc i = Some j -> i <= j).
  { induction rl as [|ru rl IH]; cbn; intros i j H; [discriminate|].
    destruct (_ && _); [inversion H; lia|]. apply IH in H. lia. }
  destruct (r_level r) eqn:L; cbn.
  - rewrite andb_false_r. destruct (first_rule rules r rc 0) eqn:E; cbn.
    + right. split; [apply F in E; lia|auto].
    + right. split; [lia|auto].
  - rewrite andb_true_r. destruct (stab <=? rc_clean rc); cbn.
    + left. repeat split.
    + destruct (first_rule rules r rc 0) eqn:E; cbn.
      * right. split; [apply F in E; lia|auto].
      * right. split; [lia|auto].
  - rewrite andb_false_r. destruct (first_rule rules r rc 0) eqn:E; cbn.
    + right. split; [apply F in E; lia|auto].
    + right. split; [lia|auto].
  - right. split; [lia|auto].
Qed.

Lemma treg_one_step_gen : forall rules stab r rc,
  r_action r <> AAlert ->
  (r_level r = LSusp -> r_action r = AMonitor \/ r_action r = AIgnore) ->
  same_or_one_lower (r_action r) (sp_mod (treg_evaluate rules stab r rc)).
Proof.
  intros rules stab r rc NA WF.
  destruct (treg_evaluate_shape rules stab r rc) as [[_ [L [M _]]]|[_ [M|M]]]; rewrite M.
  - destruct (WF L) as [E|E]; rewrite E.
    + right. split; [discriminate|reflexivity].
    + left. reflexivity.
  - left. reflexivity.
  - apply downgrade_step. exact NA.
Qed.

Lemma treg_one_step_wf : forall rules stab r rc,
  r_action r = level_action (r_level r) ->
  same_or_one_lower (r_action r) (sp_mod (treg_evaluate rules stab r rc)).
Proof.
  intros rules stab r rc WF. apply treg_one_step_gen.
  - rewrite WF. destruct (r_level r); discriminate.
  - intros L. rewrite WF, L. left. reflexivity.
Qed.

Lemma treg_silent : forall rules stab r rc,
  silent r -> sp_mod (treg_evaluate rules stab r rc) = AIgnore.
Proof.
  intros rules stab r rc [L A].
  destruct (treg_evaluate_shape rules stab r rc) as [[_ [L' _]]|[_ [M|M]]].
  - congruence.
  - congruence.
  - rewrite M, A. reflexivity.
Qed.

(* ---------------------------------------------------------------------- *)
(* ImmuneSystem.inspect: inversion                                          *)

Definition after_treg (g : cfg) (r0 : response) (orc : option trec) : response * option supp :=
  match orc with
  | None => (r0, None)
  | Some rc =>
      let sp := treg_evaluate (g_rules g) (g_stab g) r0 rc in
      (if sp_suppressed sp then with_action r0 (sp_mod sp) else r0, Some sp)
  end.

Lemma recall_some : forall mem p m, recall mem p = Some m -> remembered mem p.
Proof.
  intros mem p m H. unfold recall in H. apply find_some in H. destruct H as [I M].
  exists m. unfold sig_matches in M. split; [exact I|]. lia.
Qed.

Lemma sys_inspect_inv : forall g s t p s' out,
  s_tcell s = Some t -> sys_inspect false g s (Some p) = (s', out) ->
  (exists m, is_anergic t = false /\ check (t_prof t) p <> [] /\ recall (s_mem s) p = Some m /\
             out = OutResp (mkResp (m_level m) (m_action m) S1NonSelf S2Cross [9] false) None /\
             s' = set_mem s (touch_first (sig_matches p) (s_clock s) (s_mem s)))
  \/
  (exists t' r0, tcell_inspect t p = (t', r0) /\
                 out = OutResp (fst (after_treg g r0 (s_rec s))) (snd (after_treg g r0 (s_rec s))) /\
                 s_tcell s' = Some t').
Proof.
  intros g s t p s' out Ht H. unfold sys_inspect in H. rewrite Ht in H. cbn [orb] in H.
  destruct (negb (is_anergic t) && nonempty (check (t_prof t) p)) eqn:C.
  - destruct (recall (s_mem s) p) as [m|] eqn:R.
    + left. exists m. apply andb_true_iff in C. destruct C as [C1 C2].
      apply negb_true_iff in C1. apply nonempty_true in C2. inversion H; subst. auto.
    + right. destruct (tcell_inspect t p) as [t' r0] eqn:TI. exists t', r0.
      split; [reflexivity|]. unfold after_treg.
      destruct (s_rec s) as [rc|]; inversion H; subst; cbn; auto.
  - right. destruct (tcell_inspect t p) as [t' r0] eqn:TI. exists t', r0.
    split; [reflexivity|]. unfold after_treg.
    destruct (s_rec s) as [rc|]; inversion H; subst; cbn; auto.
Qed.

Lemma after_treg_level : forall g r0 orc, r_level (fst (after_treg g r0 orc)) = r_level r0.
Proof.
  intros g r0 [rc|]; cbn; [|reflexivity]. destruct (sp_suppressed _); reflexivity.
Qed.

Lemma after_treg_s1 : forall g r0 orc, r_s1 (fst (after_treg g r0 orc)) = r_s1 r0.
Proof.
  intros g r0 [rc|]; cbn; [|reflexivity]. destruct (sp_suppressed _); reflexivity.
Qed.

Lemma after_treg_viol : forall g r0 orc, r_viol (fst (after_treg g r0 orc)) = r_viol r0.
Proof.
  intros g r0 [rc|]; cbn; [|reflexivity]. destruct (sp_suppressed _); reflexivity.
Qed.

Lemma after_treg_action : forall g r0 orc,
  r_action r0 = level_action (r_level r0) ->
  same_or_one_lower (r_action r0) (r_action (fst (after_treg g r0 orc))).
Proof.
  intros g r0 [rc|] WF; cbn; [|left; reflexivity].
  destruct (sp_suppressed _) eqn:S; cbn; [|left; reflexivity].
  apply treg_one_step_wf. exact WF.
Qed.

Lemma after_treg_silent : forall g r0 orc, silent r0 -> silent (fst (after_treg g r0 orc)).
Proof.
  intros g r0 orc S. split; [rewrite after_treg_level; apply S|].
  destruct orc as [rc|]; cbn; [|apply S].
  destruct (sp_suppressed _); cbn; [apply treg_silent; exact S|apply S].
Qed.

Lemma after_treg_threat : forall g r0 orc,
  r_action r0 = level_action (r_level r0) -> threat (fst (after_treg g r0 orc)) -> threat r0.
Proof.
  intros g r0 orc WF T. unfold threat in *. rewrite after_treg_level in T.
  destruct T as [T|[T|T]]; auto.
  pose proof (after_treg_action g r0 orc WF) as ST.
  destruct (r_level r0) eqn:L; auto; rewrite WF in *; cbn in ST;
    destruct ST as [E|[_ E]]; destruct T as [T|T]; rewrite T in E; cbn in E; try discriminate; try lia.
Qed.

(* ---------------------------------------------------------------------- *)
(* two signals                                                              *)

Lemma two_signals_step : forall rnd g s p s' r sp,
  sys_step rnd false g s (OInspect (Some p)) = (s', OutResp r sp) -> threat r ->
  exists t, s_tcell s = Some t /\ is_anergic t = false /\ check (t_prof t) p <> [] /\
            second_signal t (s_mem s) p.
Proof.
  intros rnd g s p s' r sp H T. cbn [sys_step] in H.
  destruct (s_tcell s) as [t|] eqn:Ht.
  2:{ unfold sys_inspect in H. rewrite Ht in H. discriminate. }
  exists t. split; [reflexivity|].
  destruct (sys_inspect_inv g s t p s' _ Ht H) as [[m [A [C [R _]]]]|[t' [r0 [TI [O _]]]]].
  - split; [exact A|]. split; [exact C|]. right; right; right. eapply recall_some; eauto.
  - inversion O; subst.
    apply after_treg_threat in T; [|eapply tcell_inspect_wf; eauto].
    destruct (tcell_inspect_threat _ _ _ _ TI T) as [A [C S2]].
    split; [exact A|]. split; [exact C|]. unfold second_signal. tauto.
Qed.

Lemma two_signals_proof : forall rnd g s0 ops s p r sp,
  In (s, OInspect (Some p), OutResp r sp) (run rnd false g s0 ops) -> threat r ->
  exists t, s_tcell s = Some t /\ is_anergic t = false /\ check (t_prof t) p <> [] /\
            second_signal t (s_mem s) p.
Proof.
  intros rnd g s0 ops s p r sp H T. apply run_In in H. destruct H as [s' H].
  eapply two_signals_step; eauto.
Qed.

(* ---------------------------------------------------------------------- *)
(* inside the baseline: no threat, whatever flags / canary / memory / history *)

Lemma inside_baseline_step : forall rnd g s t p s' out,
  s_tcell s = Some t -> check (t_prof t) p = [] ->
  sys_step rnd false g s (OInspect (Some p)) = (s', out) ->
  exists r sp, out = OutResp r sp /\ silent r /\ r_viol r = [].
Proof.
  intros rnd g s t p s' out Ht C H. cbn [sys_step] in H.
  destruct (sys_inspect_inv g s t p s' _ Ht H) as [[m [_ [C' _]]]|[t' [r0 [TI [O _]]]]].
  - congruence.
  - destruct (tcell_inspect_inside _ _ _ _ TI C) as [S V].
    eexists; eexists. split; [exact O|]. split; [apply after_treg_silent; exact S|].
    rewrite after_treg_viol. exact V.
Qed.

Lemma inside_baseline_proof : forall rnd g s0 ops s t p out,
  In (s, OInspect (Some p), out) (run rnd false g s0 ops) ->
  s_tcell s = Some t -> check (t_prof t) p = [] ->
  exists r sp, out = OutResp r sp /\ silent r /\ r_viol r = [].
Proof.
  intros rnd g s0 ops s t p out H Ht C. apply run_In in H. destruct H as [s' H].
  eapply inside_baseline_step; eauto.
Qed.

(* no fingerprint (too few observations): always clear *)
Lemma no_fingerprint_proof : forall rnd lg g s0 ops s r sp,
  In (s, OInspect None, OutResp r sp) (run rnd lg g s0 ops) -> silent r.
Proof.
  intros rnd lg g s0 ops s r sp H. apply run_In in H. destruct H as [s' H].
  cbn [sys_step] in H. unfold sys_inspect in H. destruct (s_tcell s); [|discriminate].
  inversion H; subst. split; reflexivity.
Qed.

(* ---------------------------------------------------------------------- *)
(* a desensitised watcher stays desensitised and silent                     *)

Definition anergic_sys (s : sys) : Prop := exists t, s_tcell s = Some t /\ is_anergic t = true.

Lemma anergic_silent_step : forall rnd g s po s' out,
  anergic_sys s -> sys_step rnd false g s (OInspect po) = (s', out) ->
  exists r sp, out = OutResp r sp /\ silent r.
Proof.
  intros rnd g s po s' out [t [Ht A]] H. cbn [sys_step] in H. destruct po as [p|].
  - destruct (sys_inspect_inv g s t p s' _ Ht H) as [[m [A' _]]|[t' [r0 [TI [O _]]]]].
    + congruence.
    + rewrite (tcell_inspect_anergic t p A) in TI. inversion TI; subst.
      eexists; eexists. split; [reflexivity|]. apply after_treg_silent. split; reflexivity.
  - unfold sys_inspect in H. rewrite Ht in H. inversion H; subst.
    eexists; eexists. split; [reflexivity|]. split; reflexivity.
Qed.

Lemma anergic_preserved : forall rnd g s o s' out,
  anergic_sys s -> replaces_watcher o = false -> sys_step rnd false g s o = (s', out) ->
  anergic_sys s'.
Proof.
  intros rnd g s o s' out [t [Ht A]] NR H. unfold anergic_sys.
  destruct o; cbn [sys_step replaces_watcher] in *; try discriminate.
  - (* inspect *) destruct p as [p|].
    + destruct (sys_inspect_inv g s t p s' _ Ht H) as [[m [A' _]]|[t' [r0 [TI [_ S']]]]].
      * congruence.
      * rewrite (tcell_inspect_anergic t p A) in TI. inversion TI; subst. eauto.
    + unfold sys_inspect in H. rewrite Ht in H. inversion H; subst. eauto.
  - inversion H; subst. cbn. rewrite Ht. cbn. eexists. split; [reflexivity|exact A].
  - inversion H; subst. cbn. rewrite Ht. cbn. eexists. split; [reflexivity|exact A].
  - inversion H; subst. cbn. rewrite Ht. cbn. eexists. split; [reflexivity|].
    unfold is_anergic in *. cbn. destruct (false_alarm t); lia.
  - inversion H; subst. cbn. eauto.
  - inversion H; subst. cbn. eauto.
  - inversion H; subst. cbn. eauto.
  - destruct (mem_import _ _ _ _) as [mem' imp']. inversion H; subst. cbn. eauto.
  - inversion H; subst. cbn. eauto.
  - inversion H; subst. cbn. eauto.
  - inversion H; subst. cbn. eauto.
  - inversion H; subst. cbn. eauto.
  - inversion H; subst. eauto.
  - inversion H; subst. cbn. eauto.
  - inversion H; subst. cbn. eauto.
  - inversion H; subst. cbn. eauto.
Qed.

Lemma anergic_silent_proof : forall rnd g ops s0 s o out,
  anergic_sys s0 -> Forall (fun o => replaces_watcher o = false) ops ->
  In (s, o, out) (run rnd false g s0 ops) ->
  anergic_sys s /\
  (forall po, o = OInspect po -> exists r sp, out = OutResp r sp /\ silent r).
Proof.
  intros rnd g ops. induction ops as [|a ops IH]; intros s0 s o out A F H; cbn [run] in H.
  - contradiction.
  - destruct (sys_step rnd false g s0 a) as [s1 out1] eqn:E. inversion F; subst.
    destruct H as [H|H].
    + inversion H; subst. split; [exact A|]. intros po ->.
      eapply anergic_silent_step; eauto.
    + apply (IH s1 s o out); [eapply anergic_preserved; eauto | assumption | assumption].
Qed.

(* ---------------------------------------------------------------------- *)
(* tolerance rules inside the pipeline                                      *)

Lemma treg_pipeline_proof : forall rnd g s0 ops s po r sp,
  In (s, OInspect po, OutResp r (Some sp)) (run rnd false g s0 ops) ->
  exists t p t' r0 rc,
    po = Some p /\ s_tcell s = Some t /\ s_rec s = Some rc /\ tcell_inspect t p = (t', r0) /\
    sp = treg_evaluate (g_rules g) (g_stab g) r0 rc /\
    sp_orig sp = r_action r0 /\
    r_action r = sp_mod sp /\
    same_or_one_lower (r_action r0) (r_action r) /\
    (sp_suppressed sp = false -> r = r0) /\
    r_level r = r_level r0 /\ r_s1 r = r_s1 r0 /\ r_s2 r = r_s2 r0 /\ r_viol r = r_viol r0.
Proof.
  intros rnd g s0 ops s po r sp H. apply run_In in H. destruct H as [s' H].
  cbn [sys_step] in H. destruct (s_tcell s) as [t|] eqn:Ht.
  2:{ unfold sys_inspect in H. rewrite Ht in H. discriminate. }
  destruct po as [p|].
  2:{ unfold sys_inspect in H. rewrite Ht in H. inversion H. }
  destruct (sys_inspect_inv g s t p s' _ Ht H) as [[m [_ [_ [_ [O _]]]]]|[t' [r0 [TI [O _]]]]].
  - inversion O.
  - destruct (s_rec s) as [rc|] eqn:Hr; cbn in O; [|inversion O].
    inversion O; subst; clear O.
    exists t, p, t', r0, rc. split; [reflexivity|]. split; [reflexivity|]. split; [reflexivity|].
    split; [exact TI|]. split; [reflexivity|]. split; [apply treg_orig|].
    pose proof (tcell_inspect_wf _ _ _ _ TI) as WF.
    pose proof (treg_one_step_wf (g_rules g) (g_stab g) r0 rc WF) as ST.
    destruct (sp_suppressed _) eqn:S; cbn.
    + split; [reflexivity|]. split; [exact ST|]. split; [discriminate|]. repeat split.
    + rewrite (treg_unsuppressed _ _ _ _ S). split; [reflexivity|]. split; [left; reflexivity|].
      repeat split.
Qed.

Lemma critical_pipeline_proof : forall rnd g s0 ops s po r sp,
  In (s, OInspect po, OutResp r (Some sp)) (run rnd false g s0 ops) ->
  r_level r = LCrit ->
  sp_suppressed sp = false /\ sp_mod sp = sp_orig sp /\ r_action r = AShutdown /\
  exists t p t', po = Some p /\ s_tcell s = Some t /\ tcell_inspect t p = (t', r).
Proof.
  intros rnd g s0 ops s po r sp H L.
  destruct (treg_pipeline_proof _ _ _ _ _ _ _ _ H)
    as [t [p [t' [r0 [rc [-> [Ht [Hr [TI [Sp [Or [Ac [_ [Un [Lv _]]]]]]]]]]]]]]].
  rewrite L in Lv. symmetry in Lv.
  pose proof (treg_critical (g_rules g) (g_stab g) r0 rc Lv) as C. rewrite <- Sp in C.
  assert (S : sp_suppressed sp = false) by (rewrite C; reflexivity).
  split; [exact S|]. split; [rewrite C; reflexivity|].
  specialize (Un S). subst r0. split.
  - rewrite (tcell_inspect_wf _ _ _ _ TI), L. reflexivity.
  - exists t, p, t'. auto.
Qed.

(* direct evaluate on an arbitrary response record *)
Lemma treg_evaluate_proof : forall rules stab r rc,
  let sp := treg_evaluate rules stab r rc in
  sp_orig sp = r_action r /\
  (sp_suppressed sp = false -> sp_mod sp = r_action r) /\
  (r_action r <> AAlert ->
   (r_level r = LSusp -> r_action r = AMonitor \/ r_action r = AIgnore) ->
   same_or_one_lower (r_action r) (sp_mod sp)) /\
  (sp_reason sp <> -2 -> sp_mod sp = r_action r \/ sp_mod sp = downgrade (r_action r)).
Proof.
  intros rules stab r rc. cbv zeta. split; [apply treg_orig|].
  split; [apply treg_unsuppressed|]. split; [apply treg_one_step_gen|].
  intros N. destruct (treg_evaluate_shape rules stab r rc) as [[E _]|[_ M]]; [congruence|exact M].
Qed.

(* ---------------------------------------------------------------------- *)
(* what "repeated anomaly" counts: consecutive anomalous inspections        *)

(* number of immediately preceding consecutive inspections of the current
   watcher whose fingerprint violated its baseline; [tr] is the trace, most
   recent operation first.  Flags, memory and record changes, inspections
   without a fingerprint and refused trainings do not interrupt a streak;
   a clean inspection, either reset and a successful retraining do. *)
Fixpoint streak (tr : list (sys * op * outcome)) : Z :=
  match tr with
  | [] => 0
  | (s, o, out) :: rest =>
      match o, out with
      | OInspect (Some p), OutResp _ _ =>
          match s_tcell s with
          | Some t => if nonempty (check (t_prof t) p) then streak rest + 1 else 0
          | None => streak rest
          end
      | OInspect _, _ => streak rest
      | OReset, _ | OResetNC, _ => 0
      | OTrain _, OutTrain Positive => 0
      | _, _ => streak rest
      end
  end.

Lemma streak_nonneg : forall tr, 0 <= streak tr.
Proof.
  induction tr as [|[[s o] out] tr IH]; cbn [streak]; [lia|].
  destruct o as [po| | | | | | | | | | | |po| | | | ]; try lia; try (destruct out; lia).
  - destruct po; [|lia]. destruct out; try lia. destruct (s_tcell s); [|lia].
    destruct (nonempty _); lia.
  - destruct out; try lia. destruct r; lia.
Qed.

Definition anom_bounded (s : sys) (k : Z) : Prop :=
  forall t, s_tcell s = Some t -> is_anergic t = false -> 0 <= t_anom t <= k.

Lemma streak_step : forall rnd g s o s' out tr,
  anom_bounded s (streak tr) -> sys_step rnd false g s o = (s', out) ->
  anom_bounded s' (streak ((s, o, out) :: tr)).
Proof.
  intros rnd g s o s' out tr B H. pose proof (streak_nonneg tr) as NN.
  unfold anom_bounded in *. intros t1 Ht1 A1.
  destruct o; cbn [sys_step] in H.
  - (* inspect *)
    destruct (s_tcell s) as [t|] eqn:Ht.
    2:{ unfold sys_inspect in H. rewrite Ht in H. inversion H; subst. congruence. }
    destruct p as [p|].
    2:{ unfold sys_inspect in H. rewrite Ht in H. inversion H; subst. cbn [streak].
        rewrite Ht in Ht1. apply B; assumption. }
    destruct (sys_inspect_inv g s t p s' _ Ht H) as [[m [A [C [_ [O S']]]]]|[t' [r0 [TI [O S']]]]].
    + subst. cbn [streak]. rewrite Ht. apply nonempty_true in C. rewrite C.
      cbn in Ht1. rewrite Ht in Ht1. specialize (B t1 Ht1 A1). lia.
    + subst out. cbn [streak]. rewrite Ht. rewrite S' in Ht1. inversion Ht1; subst t1.
      unfold tcell_inspect in TI. destruct (is_anergic t) eqn:A.
      * inversion TI; subst. congruence.
      * destruct (determine_response _ _ _ _) as [l a]. inversion TI; subst; clear TI. cbn.
        specialize (B t eq_refl A). destruct (nonempty (check (t_prof t) p)); lia.
  - inversion H; subst. cbn [streak]. cbn in Ht1. destruct (s_tcell s) as [t|] eqn:Ht; [|discriminate].
    cbn in Ht1. inversion Ht1; subst. cbn. apply (B t eq_refl). exact A1.
  - inversion H; subst. cbn [streak]. cbn in Ht1. destruct (s_tcell s) as [t|] eqn:Ht; [|discriminate].
    cbn in Ht1. inversion Ht1; subst. cbn. lia.
  - inversion H; subst. cbn [streak]. cbn in Ht1. destruct (s_tcell s) as [t|] eqn:Ht; [|discriminate].
    cbn in Ht1. inversion Ht1; subst. cbn. lia.
  - inversion H; subst. cbn [streak]. cbn in Ht1. auto.
  - inversion H; subst. cbn [streak]. cbn in Ht1. auto.
  - inversion H; subst. cbn [streak]. cbn in Ht1. auto.
  - destruct (mem_import _ _ _ _) as [mem' imp']. inversion H; subst. cbn [streak]. cbn in Ht1. auto.
  - inversion H; subst. cbn [streak]. cbn in Ht1. auto.
  - inversion H; subst. cbn [streak]. cbn in Ht1. auto.
  - inversion H; subst. cbn [streak]. cbn in Ht1. auto.
  - inversion H; subst. cbn [streak]. cbn in Ht1. auto.
  - (* train *)
    unfold sys_train in H. destruct p as [p|].
    2:{ inversion H; subst. cbn [streak]. auto. }
    destruct (_ <? _). { inversion H; subst. cbn [streak]. auto. }
    destruct (_ <=? _). { inversion H; subst. cbn [streak]. auto. }
    destruct (_ && _). { inversion H; subst. cbn [streak]. auto. }
    inversion H; subst. cbn [streak]. cbn in Ht1. inversion Ht1; subst. cbn. lia.
  - inversion H; subst. cbn [streak]. auto.
  - inversion H; subst. cbn [streak]. cbn in Ht1. auto.
  - inversion H; subst. cbn [streak]. cbn in Ht1. auto.
  - inversion H; subst. cbn [streak]. cbn in Ht1. auto.
Qed.

Lemma streak_run : forall rnd g ops s0 tr0,
  anom_bounded s0 (streak tr0) ->
  anom_bounded (final rnd false g s0 ops) (streak (rev (run rnd false g s0 ops) ++ tr0)).
Proof.
  intros rnd g ops. induction ops as [|o ops IH]; intros s0 tr0 B; cbn [run final rev app].
  - exact B.
  - destruct (sys_step rnd false g s0 o) as [s1 out] eqn:E. cbn [fst rev].
    rewrite <- app_assoc. cbn [app]. apply IH. eapply streak_step; eauto.
Qed.

(* from a freshly installed watcher (or none), in every history: the anomaly
   count of a watcher that is not desensitised never exceeds the number of
   immediately preceding consecutive anomalous inspections *)
Lemma repeated_anomaly_proof : forall rnd g s0 ops t,
  (forall t0, s_tcell s0 = Some t0 -> t_anom t0 = 0) ->
  s_tcell (final rnd false g s0 ops) = Some t -> is_anergic t = false ->
  0 <= t_anom t <= streak (rev (run rnd false g s0 ops)).
Proof.
  intros rnd g s0 ops t F Ht A.
  pose proof (streak_run rnd g ops s0 []) as S. rewrite app_nil_r in S.
  apply S; auto. intros t0 Ht0 _. rewrite (F t0 Ht0). cbn. lia.
Qed.

(* ---------------------------------------------------------------------- *)
(* a window the watcher's baseline accepts stays "no threat" until retraining *)

(* the installed watcher's baseline finds no violation in fingerprint [p] *)
Definition watcher_accepts (p : peptide) (s : sys) : Prop :=
  exists t, s_tcell s = Some t /\ check (t_prof t) p = [].

(* no operation other than train_agent touches the learned profile *)
Lemma accepts_preserved : forall rnd g p s o s' out,
  watcher_accepts p s -> replaces_watcher o = false -> sys_step rnd false g s o = (s', out) ->
  watcher_accepts p s'.
Proof.
  intros rnd g p s o s' out [t [Ht C]] NR H. unfold watcher_accepts.
  destruct o; cbn [sys_step replaces_watcher] in *; try discriminate.
  - (* inspect (of any fingerprint) *) destruct p0 as [q|].
    + destruct (sys_inspect_inv g s t q s' _ Ht H) as [[m [_ [_ [_ [_ S']]]]]|[t' [r0 [TI [_ S']]]]].
      * subst s'. cbn. eauto.
      * destruct (tcell_inspect_state _ _ _ _ TI) as [P _]. exists t'. split; [exact S'|].
        rewrite P. exact C.
    + unfold sys_inspect in H. rewrite Ht in H. inversion H; subst. eauto.
  - inversion H; subst. cbn. rewrite Ht. cbn. eexists. split; [reflexivity|exact C].
  - inversion H; subst. cbn. rewrite Ht. cbn. eexists. split; [reflexivity|exact C].
  - inversion H; subst. cbn. rewrite Ht. cbn. eexists. split; [reflexivity|exact C].
  - inversion H; subst. cbn. eauto.
  - inversion H; subst. cbn. eauto.
  - inversion H; subst. cbn. eauto.
  - destruct (mem_import _ _ _ _) as [mem' imp']. inversion H; subst. cbn. eauto.
  - inversion H; subst. cbn. eauto.
  - inversion H; subst. cbn. eauto.
  - inversion H; subst. cbn. eauto.
  - inversion H; subst. cbn. eauto.
  - inversion H; subst. eauto.
  - inversion H; subst. cbn. eauto.
  - inversion H; subst. cbn. eauto.
  - inversion H; subst. cbn. eauto.
Qed.

Lemma accepted_window_silent : forall rnd g p ops s0 s out,
  watcher_accepts p s0 -> Forall (fun o => replaces_watcher o = false) ops ->
  In (s, OInspect (Some p), out) (run rnd false g s0 ops) ->
  watcher_accepts p s /\ exists r sp, out = OutResp r sp /\ silent r /\ r_viol r = [].
Proof.
  intros rnd g p ops. induction ops as [|a ops IH]; intros s0 s out A F H; cbn [run] in H.
  - contradiction.
  - destruct (sys_step rnd false g s0 a) as [s1 out1] eqn:E. inversion F; subst.
    destruct H as [H|H].
    + inversion H; subst. split; [exact A|]. destruct A as [t [Ht C]].
      eapply inside_baseline_step; eauto.
    + apply (IH s1 s out); [eapply accepts_preserved; eauto | assumption | assumption].
Qed.

(* ---------------------------------------------------------------------- *)
(* self-tolerance after training                                            *)

Section Training.
  Variable rnd : Q -> Q.
  Hypothesis rnd_mono : forall x y, (x <= y)%Q -> (rnd x <= rnd y)%Q.

  (* the doubles that enter the arithmetic are representable: rounding fixes them *)
  Definition representable (p : peptide) : Prop :=
    (rnd 0 == 0)%Q /\ (rnd (p_ol p) == p_ol p)%Q /\ (rnd (p_rt p) == p_rt p)%Q /\
    (rnd (p_cf p) == p_cf p)%Q /\ (rnd (p_err p) == p_err p)%Q /\
    (forall a, p_canary p = Some a -> (rnd a == a)%Q).

  Lemma qle_true : forall a b, (a <= b)%Q -> qle a b = true.
  Proof. intros. unfold qle. apply Qle_bool_iff. assumption. Qed.

  Lemma qlt_false : forall a b, (b <= a)%Q -> qlt a b = false.
  Proof. intros. unfold qlt. apply negb_false_iff. apply Qle_bool_iff. assumption. Qed.

  Lemma qmax_l : forall a b, (a <= qmax a b)%Q.
  Proof.
    intros. unfold qmax. destruct (Qle_bool a b) eqn:E.
    - apply Qle_bool_iff. exact E.
    - apply Qle_refl.
  Qed.

  Lemma qmax_r : forall a b, (b <= qmax a b)%Q.
  Proof.
    intros. unfold qmax. destruct (Qle_bool a b) eqn:E.
    - apply Qle_refl.
    - destruct (Qlt_le_dec b a) as [L|L]; [apply Qlt_le_weak; exact L|].
      apply Qle_bool_iff in L. congruence.
  Qed.

  Lemma calc_bounds_contains : forall tol x s lo hi,
    (0 <= tol)%Q -> (rnd 0 == 0)%Q -> (rnd x == x)%Q ->
    calc_bounds rnd tol x s = (lo, hi) -> within lo hi x = true.
  Proof.
    intros tol x s lo hi T R0 Rx H. unfold calc_bounds in H. inversion H; subst; clear H.
    set (c := qmax (qmax 0 s) c_001).
    assert (C : (0 <= c)%Q).
    { unfold c. eapply Qle_trans; [|apply qmax_l]. apply qmax_l. }
    assert (TC : (0 <= tol * c)%Q) by (apply Qmult_le_0_compat; assumption).
    assert (RT : (0 <= rnd (tol * c))%Q).
    { rewrite <- R0. apply rnd_mono. exact TC. }
    unfold within. apply andb_true_iff. split; apply qle_true.
    - rewrite <- Rx at 2. apply rnd_mono. lra.
    - rewrite <- Rx at 1. apply rnd_mono. lra.
  Qed.

  Lemma trained_profile_accepts : forall tol p,
    (0 <= tol)%Q -> representable p ->
    (forall a, p_canary p = Some a -> (0 <= a)%Q) ->
    check (train_profile rnd tol p) p = [].
  Proof.
    intros tol p T [R0 [Rol [Rrt [Rcf [Rerr Rcan]]]]] CN.
    unfold train_profile.
    destruct (calc_bounds rnd tol (p_ol p) (p_ols p)) as [ol1 ol2] eqn:B1.
    destruct (calc_bounds rnd tol (p_rt p) (p_rts p)) as [rt1 rt2] eqn:B2.
    destruct (calc_bounds rnd tol (p_cf p) (p_cfs p)) as [cf1 cf2] eqn:B3.
    unfold check. cbn [ol_lo ol_hi rt_lo rt_hi cf_lo cf_hi err_max vocab structs canary_min].
    rewrite (calc_bounds_contains _ _ _ _ _ T R0 Rol B1).
    rewrite (calc_bounds_contains _ _ _ _ _ T R0 Rrt B2).
    rewrite (calc_bounds_contains _ _ _ _ _ T R0 Rcf B3).
    assert (E : qlt (qmax (rnd (p_err p * 2)) c_005) (p_err p) = false).
    { apply qlt_false. destruct (Qlt_le_dec (p_err p) 0) as [N|N].
      - eapply Qle_trans; [|apply qmax_r]. unfold c_005.
        apply Qlt_le_weak. eapply Qlt_le_trans; [exact N|]. discriminate.
      - eapply Qle_trans; [|apply qmax_l]. rewrite <- Rerr at 1. apply rnd_mono. lra. }
    rewrite E. cbn [zmem]. rewrite !Z.eqb_refl. cbn [orb negb viol app].
    unfold canary_failed. cbn [canary_min]. destruct (p_canary p) as [a|] eqn:Ca; [|reflexivity].
    assert (F : qlt a (rnd (a * c_09)) = false).
    { apply qlt_false. rewrite <- (Rcan a eq_refl) at 2. apply rnd_mono.
      specialize (CN a eq_refl). unfold c_09.
      assert (K : (8106479329266893 # 9007199254740992 <= 1)%Q) by discriminate.
      nra. }
    rewrite F. reflexivity.
  Qed.

  Lemma self_tolerance_proof : forall g s p s1,
    (0 <= g_tol g)%Q -> representable p ->
    (forall a, p_canary p = Some a -> (0 <= a)%Q) ->
    sys_step rnd false g s (OTrain (Some p)) = (s1, OutTrain Positive) ->
    exists s2 r sp,
      sys_step rnd false g s1 (OInspect (Some p)) = (s2, OutResp r sp) /\
      silent r /\ r_viol r = [] /\ r_s1 r = S1Self.
  Proof.
    intros g s p s1 T R CN H. cbn [sys_step] in H. unfold sys_train in H.
    destruct (_ <? _); [inversion H|]. destruct (_ <=? _); [inversion H|].
    destruct (_ && _); [inversion H|]. inversion H; subst; clear H.
    set (t := fresh_tcell (train_profile rnd (g_tol g) p) 3 5).
    set (s1 := set_tcell s (Some t)).
    pose proof (trained_profile_accepts (g_tol g) p T R CN) as C.
    destruct (sys_step rnd false g s1 (OInspect (Some p))) as [s2 out] eqn:E.
    cbn [sys_step] in E.
    destruct (sys_inspect_inv g s1 t p s2 out eq_refl E) as [[m [_ [C' _]]]|[t' [r0 [TI [O _]]]]].
    - exfalso. apply C'. exact C.
    - destruct (tcell_inspect_inside _ _ _ _ TI C) as [S V].
      exists s2. eexists; eexists. split; [rewrite O; reflexivity|].
      split; [apply after_treg_silent; exact S|]. split; [rewrite after_treg_viol; exact V|].
      rewrite after_treg_s1. eapply tcell_inspect_inside_s1; eauto.
  Qed.

  (* what successful training installs: a fresh watcher (no anomalies, no flag, not
     desensitised) whose learned baseline accepts the window it was learned from —
     for EVERY rational value of every feature (nothing about the scale of a
     confidence or the sign of a latency is assumed); memory and tolerance record
     are left alone *)
  Lemma trained_baseline_proof : forall g s p s1,
    (0 <= g_tol g)%Q -> representable p ->
    (forall a, p_canary p = Some a -> (0 <= a)%Q) ->
    sys_step rnd false g s (OTrain (Some p)) = (s1, OutTrain Positive) ->
    exists t, s_tcell s1 = Some t /\ t_prof t = train_profile rnd (g_tol g) p /\
              check (t_prof t) p = [] /\
              within (ol_lo (t_prof t)) (ol_hi (t_prof t)) (p_ol p) = true /\
              within (rt_lo (t_prof t)) (rt_hi (t_prof t)) (p_rt p) = true /\
              within (cf_lo (t_prof t)) (cf_hi (t_prof t)) (p_cf p) = true /\
              is_anergic t = false /\ t_anom t = 0 /\ t_manual t = false /\
              s_mem s1 = s_mem s /\ s_rec s1 = s_rec s /\
              trained_obs s1 (OTrain (Some p)) (OutTrain Positive) = [88; 0].
  Proof.
    intros g s p s1 T R CN H. cbn [sys_step] in H. unfold sys_train in H.
    destruct (_ <? _); [inversion H|]. destruct (_ <=? _); [inversion H|].
    destruct (_ && _); [inversion H|]. inversion H; subst; clear H.
    pose proof (trained_profile_accepts (g_tol g) p T R CN) as C.
    destruct R as [R0 [Rol [Rrt [Rcf _]]]].
    exists (fresh_tcell (train_profile rnd (g_tol g) p) 3 5).
    cbn [set_tcell s_tcell s_mem s_rec fresh_tcell t_prof t_anom t_manual].
    split; [reflexivity|]. split; [reflexivity|]. split; [exact C|].
    assert (W : within (ol_lo (train_profile rnd (g_tol g) p)) (ol_hi (train_profile rnd (g_tol g) p)) (p_ol p) = true /\
                within (rt_lo (train_profile rnd (g_tol g) p)) (rt_hi (train_profile rnd (g_tol g) p)) (p_rt p) = true /\
                within (cf_lo (train_profile rnd (g_tol g) p)) (cf_hi (train_profile rnd (g_tol g) p)) (p_cf p) = true).
    { unfold train_profile.
      destruct (calc_bounds rnd (g_tol g) (p_ol p) (p_ols p)) as [ol1 ol2] eqn:B1.
      destruct (calc_bounds rnd (g_tol g) (p_rt p) (p_rts p)) as [rt1 rt2] eqn:B2.
      destruct (calc_bounds rnd (g_tol g) (p_cf p) (p_cfs p)) as [cf1 cf2] eqn:B3.
      cbn [ol_lo ol_hi rt_lo rt_hi cf_lo cf_hi].
      rewrite (calc_bounds_contains _ _ _ _ _ T R0 Rol B1).
      rewrite (calc_bounds_contains _ _ _ _ _ T R0 Rrt B2).
      rewrite (calc_bounds_contains _ _ _ _ _ T R0 Rcf B3). auto. }
    destruct W as [W1 [W2 W3]].
    split; [exact W1|]. split; [exact W2|]. split; [exact W3|].
    split; [reflexivity|]. split; [reflexivity|]. split; [reflexivity|].
    split; [reflexivity|]. split; [reflexivity|].
    unfold trained_obs. cbn [set_tcell s_tcell fresh_tcell t_prof]. rewrite C. reflexivity.
  Qed.

  (* ... and that window stays "no threat": after successful training, in every later
     history that does not retrain (flags, canary-independent second signals, stored /
     imported / recalled threats with the window's own hashes, resets, false-alarm
     resets, tolerance-record edits, inspections of other fingerprints in between),
     every inspection of the trained window is NONE / IGNORE with no violations *)
  Lemma trained_window_stays_proof : forall g s p s1 ops s2 out,
    (0 <= g_tol g)%Q -> representable p ->
    (forall a, p_canary p = Some a -> (0 <= a)%Q) ->
    sys_step rnd false g s (OTrain (Some p)) = (s1, OutTrain Positive) ->
    Forall (fun o => replaces_watcher o = false) ops ->
    In (s2, OInspect (Some p), out) (run rnd false g s1 ops) ->
    exists r sp, out = OutResp r sp /\ silent r /\ r_viol r = [].
  Proof.
    intros g s p s1 ops s2 out T R CN H F I.
    destruct (trained_baseline_proof g s p s1 T R CN H) as [t [Ht [_ [C _]]]].
    assert (A : watcher_accepts p s1) by (exists t; auto).
    destruct (accepted_window_silent rnd g p ops s1 s2 out A F I) as [_ X]. exact X.
  Qed.
End Training.

(* ---------------------------------------------------------------------- *)
(* the display: every inspection judges the fingerprint of the CURRENT window *)

Definition lastn {A : Type} (n : nat) (l : list A) : list A := skipn (length l - n) l.

(* everything recorded so far (since the last clear), without any truncation *)
Definition rec_step (acc : list Z) (a : aop) : list Z :=
  match a with ARecord o => acc ++ [o] | AClear => [] | _ => acc end.
Definition can_step (acc : list bool) (a : aop) : list bool :=
  match a with ACanary b => acc ++ [b] | AClear => [] | _ => acc end.
Definition recorded (acc : list Z) (pre : list aop) : list Z := fold_left rec_step pre acc.
Definition canaries (acc : list bool) (pre : list aop) : list bool := fold_left can_step pre acc.
Definition disp_after (d : display) (pre : list aop) : display := fold_left disp_step pre d.

Lemma skipn_S_tl : forall (A : Type) k (l : list A), skipn (S k) l = tl (skipn k l).
Proof.
  induction k as [|k IH]; intros l.
  - destruct l; reflexivity.
  - destruct l as [|x l]; [reflexivity|]. change (skipn (S k) l = tl (skipn k l)). apply IH.
Qed.

Lemma record_lastn : forall n (L : list Z) o,
  (if (n <? length (lastn n L ++ [o]))%nat then tl (lastn n L ++ [o]) else lastn n L ++ [o])
  = lastn n (L ++ [o]).
Proof.
  intros n L o. unfold lastn. rewrite !app_length. cbn [length].
  destruct (Nat.le_gt_cases (length L) n) as [LE|GT].
  - replace (length L - n)%nat with 0%nat by lia. cbn [skipn].
    destruct (n <? length L + 1)%nat eqn:C.
    + apply Nat.ltb_lt in C. replace (length L + 1 - n)%nat with 1%nat by lia.
      destruct (L ++ [o]); reflexivity.
    + apply Nat.ltb_ge in C. replace (length L + 1 - n)%nat with 0%nat by lia. reflexivity.
  - rewrite skipn_length.
    replace (n <? length L - (length L - n) + 1)%nat with true
      by (symmetry; apply Nat.ltb_lt; lia).
    replace (length L + 1 - n)%nat with (S (length L - n)) by lia.
    rewrite skipn_S_tl, skipn_app.
    replace (length L - n - length L)%nat with 0%nat by lia. reflexivity.
Qed.

Lemma disp_step_cfg : forall d a, d_size (disp_step d a) = d_size d /\ d_min (disp_step d a) = d_min d.
Proof. intros d a. destruct a; cbn; auto. Qed.

Lemma disp_after_cfg : forall pre d,
  d_size (disp_after d pre) = d_size d /\ d_min (disp_after d pre) = d_min d.
Proof.
  induction pre as [|a pre IH]; intros d; [split; reflexivity|]. unfold disp_after in *. cbn [fold_left].
  destruct (IH (disp_step d a)) as [A B]. destruct (disp_step_cfg d a) as [C D]. split; congruence.
Qed.

Lemma disp_window : forall pre d,
  (length (d_obs d) <= d_size d)%nat ->
  d_obs (disp_after d pre) = lastn (d_size d) (recorded (d_obs d) pre) /\
  d_canary (disp_after d pre) = canaries (d_canary d) pre.
Proof.
  induction pre as [|a pre IH] using rev_ind; intros d H.
  - split; [|reflexivity]. unfold lastn, recorded, disp_after. cbn [fold_left].
    replace (length (d_obs d) - d_size d)%nat with 0%nat by lia. reflexivity.
  - destruct (IH d H) as [W C]. unfold disp_after, recorded, canaries in *.
    rewrite !fold_left_app. cbn [fold_left].
    set (dp := fold_left disp_step pre d) in *.
    assert (S : d_size dp = d_size d) by apply (disp_after_cfg pre d).
    destruct a; cbn [disp_step rec_step can_step d_obs d_canary disp_record]; auto.
    + split; [|exact C]. rewrite W, S. apply record_lastn.
    + split; [exact W|]. rewrite C. reflexivity.
Qed.

(* state reached after a prefix of an API history *)
Fixpoint api_final (pf : list Z -> list bool -> peptide) (rnd : Q -> Q) (lg : bool) (g : cfg)
         (d : display) (s : sys) (aops : list aop) : display * sys :=
  match aops with
  | [] => (d, s)
  | a :: rest =>
      match lower pf d a with
      | Some o => api_final pf rnd lg g d (fst (sys_step rnd lg g s o)) rest
      | None => api_final pf rnd lg g (disp_step d a) s rest
      end
  end.

Lemma lower_disp_step : forall pf d a o, lower pf d a = Some o -> disp_step d a = d.
Proof. intros pf d a o H. destruct a; cbn in *; try discriminate; reflexivity. Qed.

Lemma api_final_disp : forall pf rnd lg g pre d s,
  fst (api_final pf rnd lg g d s pre) = disp_after d pre.
Proof.
  induction pre as [|a pre IH]; intros d s; [reflexivity|]. cbn [api_final]. unfold disp_after. cbn [fold_left].
  destruct (lower pf d a) as [o|] eqn:L.
  - rewrite (lower_disp_step _ _ _ _ L). apply IH.
  - apply IH.
Qed.

Lemma api_run_app : forall pf rnd lg g pre rest d s,
  api_run pf rnd lg g d s (pre ++ rest) =
  api_run pf rnd lg g d s pre ++
  api_run pf rnd lg g (fst (api_final pf rnd lg g d s pre)) (snd (api_final pf rnd lg g d s pre)) rest.
Proof.
  induction pre as [|a pre IH]; intros rest d s; [reflexivity|]. cbn [app api_run api_final].
  destruct (lower pf d a) as [o|].
  - destruct (sys_step rnd lg g s o) as [s' out]. cbn [fst app]. rewrite IH. reflexivity.
  - cbn [app]. rewrite IH. reflexivity.
Qed.

Lemma api_run_length : forall pf rnd lg g pre d s,
  length (api_run pf rnd lg g d s pre) = length pre.
Proof.
  induction pre as [|a pre IH]; intros d s; [reflexivity|]. cbn [api_run].
  destruct (lower pf d a) as [o|]; [destruct (sys_step rnd lg g s o)|]; cbn [length]; rewrite IH; reflexivity.
Qed.

Lemma run_app : forall rnd lg g o1 o2 s,
  run rnd lg g s (o1 ++ o2) = run rnd lg g s o1 ++ run rnd lg g (final rnd lg g s o1) o2.
Proof.
  induction o1 as [|o o1 IH]; intros o2 s; [reflexivity|]. cbn [app run final].
  destruct (sys_step rnd lg g s o) as [s' out]. cbn [fst app]. rewrite IH. reflexivity.
Qed.

Lemma lowered_app : forall pf pre rest d,
  lowered pf d (pre ++ rest) = lowered pf d pre ++ lowered pf (disp_after d pre) rest.
Proof.
  induction pre as [|a pre IH]; intros rest d; [reflexivity|]. cbn [app lowered]. unfold disp_after. cbn [fold_left].
  destruct (lower pf d a) as [o|] eqn:L.
  - rewrite (lower_disp_step _ _ _ _ L). cbn [app]. rewrite IH. reflexivity.
  - apply IH.
Qed.

Lemma api_final_sys : forall pf rnd lg g pre d s,
  snd (api_final pf rnd lg g d s pre) = final rnd lg g s (lowered pf d pre).
Proof.
  induction pre as [|a pre IH]; intros d s; [reflexivity|]. cbn [api_final lowered].
  destruct (lower pf d a) as [o|]; [cbn [final]|]; apply IH.
Qed.

(* the API call at position [length pre] of any history runs the system-level
   operation it lowers to on the display reached by [pre]; that operation with
   its outcome is an element of the lowered system-level trace *)
Lemma api_entry : forall pf rnd lg g d0 s0 pre a post o,
  lower pf (disp_after d0 pre) a = Some o ->
  exists s out s',
    nth_error (api_run pf rnd lg g d0 s0 (pre ++ a :: post)) (length pre)
      = Some (disp_after d0 pre, s, a, out) /\
    sys_step rnd lg g s o = (s', out) /\
    In (s, o, out) (run rnd lg g s0 (lowered pf d0 (pre ++ a :: post))).
Proof.
  intros pf rnd lg g d0 s0 pre a post o L.
  set (s := snd (api_final pf rnd lg g d0 s0 pre)).
  destruct (sys_step rnd lg g s o) as [s' out] eqn:E.
  exists s, out, s'. split; [|split; [exact E|]].
  - rewrite api_run_app, nth_error_app2 by (rewrite api_run_length; lia).
    rewrite api_run_length, Nat.sub_diag, api_final_disp. fold s. cbn [api_run]. rewrite L, E. reflexivity.
  - rewrite lowered_app, run_app. apply in_or_app. right. cbn [lowered]. rewrite L. cbn [run].
    unfold s in *. rewrite api_final_sys in *. rewrite E. left. reflexivity.
Qed.

Lemma current_window_proof : forall pf rnd lg g d0 s0 pre post,
  (length (d_obs d0) <= d_size d0)%nat ->
  let w := lastn (d_size d0) (recorded (d_obs d0) pre) in
  let c := canaries (d_canary d0) pre in
  let fp := fingerprint_of pf (d_min d0) w c in
  (exists d s out s',
     nth_error (api_run pf rnd lg g d0 s0 (pre ++ AInspect :: post)) (length pre) = Some (d, s, AInspect, out) /\
     d_obs d = w /\ d_canary d = c /\
     sys_step rnd lg g s (OInspect fp) = (s', out) /\
     In (s, OInspect fp, out) (run rnd lg g s0 (lowered pf d0 (pre ++ AInspect :: post)))) /\
  (exists d s out s',
     nth_error (api_run pf rnd lg g d0 s0 (pre ++ ATrain :: post)) (length pre) = Some (d, s, ATrain, out) /\
     d_obs d = w /\ d_canary d = c /\
     sys_step rnd lg g s (OTrain fp) = (s', out) /\
     In (s, OTrain fp, out) (run rnd lg g s0 (lowered pf d0 (pre ++ ATrain :: post)))).
Proof.
  intros pf rnd lg g d0 s0 pre post H w c fp.
  destruct (disp_window pre d0 H) as [W C]. destruct (disp_after_cfg pre d0) as [_ M].
  assert (F : fingerprint pf (disp_after d0 pre) = fp).
  { unfold fingerprint, fp, w, c. rewrite W, C, M. reflexivity. }
  split.
  - destruct (api_entry pf rnd lg g d0 s0 pre AInspect post (OInspect fp)) as [s [out [s' [N [E I]]]]].
    { cbn [lower]. rewrite F. reflexivity. }
    exists (disp_after d0 pre), s, out, s'. auto.
  - destruct (api_entry pf rnd lg g d0 s0 pre ATrain post (OTrain fp)) as [s [out [s' [N [E I]]]]].
    { cbn [lower]. rewrite F. reflexivity. }
    exists (disp_after d0 pre), s, out, s'. auto.
Qed.

(* ---------------------------------------------------------------------- *)
(* across memory: a reported action is never more than one step below the   *)
(* action that belongs to the reported level                                *)

Definition within_one_step (l : level) (a : action) : Prop := same_or_one_lower (level_action l) a.
Definition sig_within (m : msig) : Prop := within_one_step (m_level m) (m_action m).
Definition mem_ok (mem : list msig) : Prop := Forall sig_within mem.
(* signatures stored / imported from outside are themselves within one step *)
Definition op_ok (o : op) : Prop :=
  match o with
  | OStore m => sig_within m
  | OImport items => Forall sig_within items
  | _ => True
  end.

Lemma remove_nth_Forall : forall (A : Type) (P : A -> Prop) i (l : list A),
  Forall P l -> Forall P (remove_nth i l).
Proof.
  intros A P i l H. revert i. induction H as [|x l Hx Hl IH]; intros i.
  - destruct i; constructor.
  - destruct i; cbn; [exact Hl|]. constructor; [exact Hx|apply IH].
Qed.

Lemma touch_first_ok : forall f now mem, mem_ok mem -> mem_ok (touch_first f now mem).
Proof.
  intros f now mem H. induction H as [|x l Hx Hl IH]; cbn; [constructor|].
  destruct (f x); constructor; auto.
Qed.

Lemma remove_first_ok : forall f mem, mem_ok mem -> mem_ok (remove_first f mem).
Proof.
  intros f mem H. induction H as [|x l Hx Hl IH]; cbn; [constructor|].
  destruct (f x); [exact Hl|constructor; auto].
Qed.

Lemma prune_least_ok : forall mem, mem_ok mem -> mem_ok (prune_least mem).
Proof. intros mem H. destruct mem; [constructor|]. unfold prune_least. apply remove_first_ok. exact H. Qed.

Lemma mem_store_ok : forall cap now mem m, mem_ok mem -> sig_within m -> mem_ok (mem_store cap now mem m).
Proof.
  intros cap now mem m H W. unfold mem_store. apply Forall_app. split.
  - destruct (cap <=? _); [apply prune_least_ok|]; exact H.
  - constructor; [exact W|constructor].
Qed.

Lemma filter_ok : forall f mem, mem_ok mem -> mem_ok (filter f mem).
Proof.
  intros f mem H. induction H as [|x l Hx Hl IH]; cbn; [constructor|].
  destruct (f x); [constructor|]; auto.
Qed.

Lemma mem_import_ok : forall cap items imp mem,
  mem_ok mem -> Forall sig_within items -> mem_ok (fst (mem_import cap imp mem items)).
Proof.
  intros cap items. induction items as [|m r IH]; intros imp mem H F; cbn [mem_import fst]; [exact H|].
  inversion F; subst. destruct (_ <? _); apply IH; auto.
  apply Forall_app. split; [exact H|]. constructor; [assumption|constructor].
Qed.

Lemma sys_inspect_mem : forall g s t p s' out,
  s_tcell s = Some t -> sys_inspect false g s (Some p) = (s', out) ->
  s_mem s' = touch_first (sig_matches p) (s_clock s) (s_mem s) \/
  (exists t' r0, tcell_inspect t p = (t', r0) /\
     s_mem s' = if stores (r_level (fst (after_treg g r0 (s_rec s))))
                then mem_store (g_cap g) (s_clock s) (s_mem s)
                       (mkSig 0 (p_vh p) (p_sh p) (r_level (fst (after_treg g r0 (s_rec s))))
                              (r_action (fst (after_treg g r0 (s_rec s)))) 0 0
                              (r_viol (fst (after_treg g r0 (s_rec s)))))
                else s_mem s).
Proof.
  intros g s t p s' out Ht H. unfold sys_inspect in H. rewrite Ht in H. cbn [orb] in H.
  destruct (if negb (is_anergic t) && nonempty (check (t_prof t) p) then recall (s_mem s) p else None)
    as [m|] eqn:R.
  - left. inversion H; subst. reflexivity.
  - right. destruct (tcell_inspect t p) as [t' r0] eqn:TI. exists t', r0.
    split; [reflexivity|]. unfold after_treg.
    destruct (s_rec s) as [rc|]; inversion H; subst; cbn; reflexivity.
Qed.

Lemma within_step : forall rnd g s o s' out,
  mem_ok (s_mem s) -> op_ok o -> sys_step rnd false g s o = (s', out) ->
  mem_ok (s_mem s') /\
  (forall p r sp, o = OInspect (Some p) -> out = OutResp r sp -> within_one_step (r_level r) (r_action r)).
Proof.
  intros rnd g s o s' out M OK H. destruct o; cbn [sys_step] in H;
    try (inversion H; subst; cbn; split; [exact M|intros; discriminate]).
  - (* inspect *)
    destruct p as [p|].
    2:{ unfold sys_inspect in H. destruct (s_tcell s); inversion H; subst; split; auto; intros; discriminate. }
    destruct (s_tcell s) as [t|] eqn:Ht.
    2:{ unfold sys_inspect in H. rewrite Ht in H. inversion H; subst. split; auto. intros; discriminate. }
    assert (W : forall t' r0, tcell_inspect t p = (t', r0) ->
                within_one_step (r_level (fst (after_treg g r0 (s_rec s)))) (r_action (fst (after_treg g r0 (s_rec s))))).
    { intros t' r0 TI. unfold within_one_step. rewrite after_treg_level.
      rewrite <- (tcell_inspect_wf _ _ _ _ TI). apply after_treg_action. eapply tcell_inspect_wf; eauto. }
    split.
    + destruct (sys_inspect_mem g s t p s' out Ht H) as [E|[t' [r0 [TI E]]]]; rewrite E.
      * apply touch_first_ok. exact M.
      * destruct (stores _); [|exact M]. apply mem_store_ok; [exact M|]. unfold sig_within. cbn. eapply W; eauto.
    + intros p' r sp Ep Eo. inversion Ep; subst p'. subst out.
      destruct (sys_inspect_inv g s t p s' _ Ht H) as [[m [_ [_ [R [O _]]]]]|[t' [r0 [TI [O _]]]]].
      * inversion O; subst. cbn. unfold recall in R. apply find_some in R. destruct R as [I _].
        unfold mem_ok in M. rewrite Forall_forall in M. apply (M m). exact I.
      * inversion O; subst. eapply W; eauto.
  - (* store *) inversion H; subst. cbn. split; [|intros; discriminate]. apply mem_store_ok; assumption.
  - (* forget *) inversion H; subst. cbn. split; [|intros; discriminate]. apply remove_nth_Forall. exact M.
  - (* clear *) inversion H; subst. cbn. split; [constructor|intros; discriminate].
  - (* import *) destruct (mem_import _ _ _ _) as [mem' imp'] eqn:MI. inversion H; subst. cbn.
    split; [|intros; discriminate]. change mem' with (fst (mem', imp')). rewrite <- MI. apply mem_import_ok; assumption.
  - (* prune_old *) inversion H; subst. cbn. split; [|intros; discriminate]. apply filter_ok. exact M.
  - (* touch *) inversion H; subst. cbn. split; [|intros; discriminate]. apply touch_first_ok. exact M.
  - (* train *) unfold sys_train in H. split; [|intros; discriminate].
    destruct p as [p|]; [|inversion H; subst; exact M].
    destruct (_ <? _); [inversion H; subst; exact M|]. destruct (_ <=? _); [inversion H; subst; exact M|].
    destruct (_ && _); inversion H; subst; exact M.
  - (* partial touch *) inversion H; subst. cbn. split; [|intros; discriminate]. apply touch_first_ok. exact M.
Qed.

Lemma within_one_step_proof : forall rnd g ops s0 s p r sp,
  mem_ok (s_mem s0) -> Forall op_ok ops ->
  In (s, OInspect (Some p), OutResp r sp) (run rnd false g s0 ops) ->
  within_one_step (r_level r) (r_action r).
Proof.
  intros rnd g ops. induction ops as [|o ops IH]; intros s0 s p r sp M F H; cbn [run] in H.
  - contradiction.
  - destruct (sys_step rnd false g s0 o) as [s1 out] eqn:E. inversion F; subst.
    destruct (within_step rnd g s0 o s1 out M H2 E) as [M1 W].
    destruct H as [H|H].
    + inversion H; subst. eapply W; reflexivity.
    + eapply IH; eauto.
Qed.

(* ---------------------------------------------------------------------- *)
(* memory maintenance really forgets                                        *)

Lemma prune_old_forgets : forall rnd lg g s age s' out,
  sys_step rnd lg g s (OPruneOld age) = (s', out) ->
  forall m, In m (s_mem s') -> In m (s_mem s) /\ s_clock s - age < m_created m.
Proof.
  intros rnd lg g s age s' out H m I. cbn [sys_step] in H. inversion H; subst. cbn in I.
  unfold mem_prune_old in I. apply filter_In in I. destruct I as [I C]. split; [exact I|lia].
Qed.

(* a fingerprint whose only matching signatures have aged out is not remembered
   after prune_old — whatever is stored, imported or touched afterwards about
   OTHER patterns *)
Definition other_pattern (p : peptide) (m : msig) : Prop := sig_matches p m = false.

Definition keeps_forgotten (p : peptide) (o : op) : Prop :=
  match o with
  | OStore m => other_pattern p m
  | OImport items => Forall (other_pattern p) items
  | OInspect _ | OTrain _ => False       (* an inspection may legitimately store the pattern again *)
  | _ => True
  end.

Definition not_remembered (p : peptide) (mem : list msig) : Prop := Forall (other_pattern p) mem.

Lemma not_remembered_recall : forall p mem, not_remembered p mem -> recall mem p = None.
Proof.
  intros p mem H. unfold recall. induction H as [|x l Hx Hl IH]; cbn; [reflexivity|].
  unfold other_pattern in Hx. rewrite Hx. exact IH.
Qed.

Lemma touch_first_other : forall p f now mem, not_remembered p mem -> not_remembered p (touch_first f now mem).
Proof.
  intros p f now mem H. induction H as [|x l Hx Hl IH]; cbn; [constructor|].
  destruct (f x); constructor; auto.
Qed.

Lemma remove_first_other : forall p f mem, not_remembered p mem -> not_remembered p (remove_first f mem).
Proof.
  intros p f mem H. induction H as [|x l Hx Hl IH]; cbn; [constructor|].
  destruct (f x); [exact Hl|constructor; auto].
Qed.

Lemma mem_import_other : forall p cap items imp mem,
  not_remembered p mem -> Forall (other_pattern p) items -> not_remembered p (fst (mem_import cap imp mem items)).
Proof.
  intros p cap items. induction items as [|m r IH]; intros imp mem H F; cbn [mem_import fst]; [exact H|].
  inversion F; subst. destruct (_ <? _); apply IH; auto.
  apply Forall_app. split; [exact H|]. constructor; [assumption|constructor].
Qed.

Lemma keeps_forgotten_step : forall rnd lg g p s o s' out,
  not_remembered p (s_mem s) -> keeps_forgotten p o -> sys_step rnd lg g s o = (s', out) ->
  not_remembered p (s_mem s').
Proof.
  intros rnd lg g p s o s' out N K H. destruct o; cbn [sys_step keeps_forgotten] in *; try contradiction;
    try (inversion H; subst; cbn; exact N).
  - inversion H; subst. cbn. unfold mem_store. apply Forall_app. split.
    + destruct (_ <=? _); [|exact N]. destruct (s_mem s); [constructor|]. apply remove_first_other. exact N.
    + constructor; [exact K|constructor].
  - inversion H; subst. cbn. apply remove_nth_Forall. exact N.
  - inversion H; subst. constructor.
  - destruct (mem_import _ _ _ _) as [mem' imp'] eqn:MI. inversion H; subst. cbn.
    change mem' with (fst (mem', imp')). rewrite <- MI. apply mem_import_other; assumption.
  - inversion H; subst. cbn. unfold mem_prune_old. clear H. induction N as [|x l Hx Hl IH]; cbn; [constructor|].
    destruct (_ <? _); [constructor|]; auto.
  - inversion H; subst. cbn. apply touch_first_other. exact N.
  - inversion H; subst. cbn. apply touch_first_other. exact N.
Qed.

Lemma keeps_forgotten_final : forall rnd lg g p ops s,
  not_remembered p (s_mem s) -> Forall (keeps_forgotten p) ops ->
  not_remembered p (s_mem (final rnd lg g s ops)).
Proof.
  intros rnd lg g p ops. induction ops as [|o ops IH]; intros s N K; cbn [final]; [exact N|].
  inversion K; subst. apply IH; [|assumption].
  destruct (sys_step rnd lg g s o) as [sb out] eqn:E. cbn [fst]. eapply keeps_forgotten_step; eauto.
Qed.

(* After prune_old has removed every signature matching fingerprint p (all of
   them were older than max_age), and whatever maintenance follows about other
   patterns (store with capacity pruning, import, prune_old, direct edits,
   clock, flags, resets), the next inspection of p is NOT answered from memory:
   it is reported CONFIRMED / CRITICAL only with a canary failure, a manual flag
   or a repeated anomaly. *)
Lemma forgotten_threat_proof : forall rnd g s0 age ops s1 p s2 r sp,
  (forall m, In m (s_mem s0) -> sig_matches p m = true -> m_created m <= s_clock s0 - age) ->
  Forall (keeps_forgotten p) ops ->
  final rnd false g s0 (OPruneOld age :: ops) = s1 ->
  sys_step rnd false g s1 (OInspect (Some p)) = (s2, OutResp r sp) ->
  r_viol r <> [9] /\
  (threat r -> exists t, s_tcell s1 = Some t /\ check (t_prof t) p <> [] /\
                         (canary_failed (t_prof t) p = true \/ t_manual t = true \/ t_rep t <= t_anom t + 1)).
Proof.
  intros rnd g s0 age ops s1 p s2 r sp OLD K F H.
  assert (N1 : not_remembered p (s_mem s1)).
  { subst s1. cbn [final sys_step fst].
    assert (N0 : not_remembered p (mem_prune_old (s_clock s0) age (s_mem s0))).
    { unfold not_remembered, mem_prune_old. apply Forall_forall. intros m I. apply filter_In in I.
      destruct I as [I C]. unfold other_pattern. destruct (sig_matches p m) eqn:E; [|reflexivity].
      specialize (OLD m I E). lia. }
    apply keeps_forgotten_final; [exact N0|exact K]. }
  cbn [sys_step] in H. destruct (s_tcell s1) as [t|] eqn:Ht.
  2:{ unfold sys_inspect in H. rewrite Ht in H. discriminate. }
  destruct (sys_inspect_inv g s1 t p s2 _ Ht H) as [[m [_ [_ [R _]]]]|[t' [r0 [TI [O _]]]]].
  - rewrite (not_remembered_recall p _ N1) in R. discriminate.
  - inversion O; subst. split.
    + rewrite after_treg_viol. unfold tcell_inspect in TI. destruct (is_anergic t).
      * inversion TI; subst. discriminate.
      * destruct (determine_response _ _ _ _). inversion TI; subst. cbn.
        unfold check, viol. intros E.
        repeat match type of E with context [if ?b then _ else _] => destruct b end; cbn in E; discriminate.
    + intros T. apply after_treg_threat in T; [|eapply tcell_inspect_wf; eauto].
      destruct (tcell_inspect_threat _ _ _ _ TI T) as [_ [C S2]]. exists t. auto.
Qed.
