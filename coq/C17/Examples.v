(* C17 — non-vacuity examples and the refutation of the pre-repair behaviour
   (memory consulted before the baseline check and before anergy). *)
From Coq Require Import ZArith List Bool QArith.
From Verif Require Import C17.Model C17.Proofs C17.ProofsWorld.
Import ListNotations.
Open Scope Z_scope.

Definition id_rnd (x : Q) : Q := x.

Definition prof0 : profile :=
  mkProf (10#1) (50#1) (1#10) (2#1) (1#2) (1#1) (1#10) [1; 2] [1] (3#5).

Definition inside : peptide := mkPep (30#1) 0 (1#1) 0 (3#4) 0 0 1 1 None.
Definition slow : peptide := mkPep (30#1) 0 (5#2) 0 (3#4) 0 0 1 1 None.           (* 1 violation *)
Definition wild : peptide := mkPep (60#1) 0 (5#2) 0 (3#4) 0 0 7 1 None.           (* 3 violations *)
Definition inside_canary_ok : peptide := mkPep (30#1) 0 (1#1) 0 (3#4) 0 0 1 1 (Some (3#5)%Q).

Definition rule_conf : rule := mkRule LConf (fun _ _ => true).
Definition rule_crit : rule := mkRule LCrit (fun _ _ => true).
Definition g0 : cfg := mkCfg [rule_crit] 100 10 10 (2#1) (1#2) 1000.
Definition g_norules : cfg := mkCfg [] 100 10 10 (2#1) (1#2) 1000.

Definition watcher : tcell := fresh_tcell prof0 3 5.
Definition s_plain : sys := mkSys (Some watcher) [] (Some (mkRec 0 0 false [])) 0 0.
Definition s_flagged : sys := mkSys (Some (tcell_flag watcher true)) [] (Some (mkRec 0 0 false [])) 0 0.
Definition remembered_slow : msig := mkSig 0 1 1 LConf AIsolate 0 0 [].
Definition s_memory : sys := mkSys (Some watcher) [remembered_slow] (Some (mkRec 0 0 false [])) 0 0.
Definition anergic_watcher : tcell := mkT prof0 3 5 2 5 true S1NonSelf S2None.
Definition s_anergic : sys := mkSys (Some anergic_watcher) [remembered_slow] (Some (mkRec 0 0 false [])) 0 0.

(* c17_two_signals is not vacuous: manual flag + one violation -> CONFIRMED / ISOLATE *)
Example ex_two_signals_manual :
  exists s r sp,
    In (s, OInspect (Some slow), OutResp r sp) (run id_rnd false g_norules s_plain [OFlag true; OInspect (Some slow)])
    /\ threat r /\ r_level r = LConf /\ r_action r = AIsolate /\ r_s2 r = S2Manual.
Proof. eexists; eexists; eexists. split; [cbn; right; left; reflexivity|]. vm_compute. intuition. Qed.

(* third anomaly in a row: repeated anomaly, three violations -> CRITICAL / SHUTDOWN *)
Example ex_two_signals_repeat :
  let tr := run id_rnd false g_norules s_plain [OInspect (Some slow); OInspect (Some slow); OInspect (Some wild)] in
  map (fun x => match snd x with OutResp r _ => (level_code (r_level r), sig2_code (r_s2 r)) | _ => (-1, -1) end) tr
  = [(1, 0); (1, 0); (3, 3)].
Proof. vm_compute. reflexivity. Qed.

(* a remembered threat is the second signal; the first signal is the current violation *)
Example ex_two_signals_memory :
  exists s',
    sys_step id_rnd false g_norules s_memory (OInspect (Some slow))
    = (s', OutResp (mkResp LConf AIsolate S1NonSelf S2Cross [9] false) None).
Proof. eexists. vm_compute. reflexivity. Qed.

(* the streak bound is attained: two anomalies in a row *)
Example ex_streak :
  let ops := [OInspect (Some slow); OFlag false; OInspect (Some slow)] in
  option_map t_anom (s_tcell (final id_rnd false g_norules s_plain ops)) = Some 2 /\
  streak (rev (run id_rnd false g_norules s_plain ops)) = 2.
Proof. vm_compute. auto. Qed.

(* inside the baseline with a manual flag, a remembered threat with the same
   hashes and a long anomaly count: NONE / IGNORE *)
Example ex_inside_baseline :
  let s := mkSys (Some (mkT prof0 3 5 7 0 true S1NonSelf S2Repeat)) [remembered_slow] (Some (mkRec 0 0 false [])) 0 0 in
  check prof0 inside = [] /\
  exists s', sys_step id_rnd false g0 s (OInspect (Some inside))
             = (s', OutResp (mkResp LNone AIgnore S1Self S2Manual [] false)
                            (Some (mkSupp true AIgnore AIgnore 0))).
Proof. split; [vm_compute; reflexivity|]. eexists. vm_compute. reflexivity. Qed.

(* an anergic watcher: three violations, manual flag, remembered threat -> silent *)
Example ex_anergic :
  anergic_sys s_anergic /\ check prof0 wild <> [] /\
  exists s' sp, sys_step id_rnd false g_norules s_anergic (OInspect (Some wild))
                = (s', OutResp (mkResp LNone AIgnore S1Unknown S2None [] true) sp).
Proof.
  split; [exists anergic_watcher; split; reflexivity|]. split; [vm_compute; discriminate|].
  eexists; eexists. vm_compute. reflexivity.
Qed.

(* anergy is reached by false-alarm resets: 5 unconfirmed anomalies, each reset *)
Example ex_anergy_reached :
  let ops := flat_map (fun _ => [OInspect (Some slow); OResetNC]) (seq 0 5) in
  option_map is_anergic (s_tcell (final id_rnd false g_norules s_plain ops)) = Some true.
Proof. vm_compute. reflexivity. Qed.

(* a rule lowers CONFIRMED / isolate to monitor: one step, level kept *)
Example ex_treg_one_step :
  exists s', sys_step id_rnd false g0 s_flagged (OInspect (Some slow))
             = (s', OutResp (mkResp LConf AMonitor S1NonSelf S2Manual [2] false)
                            (Some (mkSupp true AIsolate AMonitor 0))).
Proof. eexists. vm_compute. reflexivity. Qed.

(* the same rule (max severity CRITICAL, condition always true) cannot touch CRITICAL *)
Example ex_critical_untouched :
  exists s', sys_step id_rnd false g0 s_flagged (OInspect (Some wild))
             = (s', OutResp (mkResp LCrit AShutdown S1NonSelf S2Manual [1; 2; 5] false)
                            (Some (mkSupp false AShutdown AShutdown (-1)))).
Proof. eexists. vm_compute. reflexivity. Qed.

(* the stable-agent shortcut on a hand-made SUSPICIOUS / shutdown response goes
   straight to ignore: why c17_treg_evaluate_one_step has its side condition *)
Example ex_stable_shortcut :
  sp_mod (treg_evaluate [] 0 (mkResp LSusp AShutdown S1NonSelf S2None [] false) (mkRec 0 0 false [])) = AIgnore.
Proof. vm_compute. reflexivity. Qed.

(* training succeeds on a window and the hypotheses of the self-tolerance theorem hold *)
Definition window : peptide := mkPep (20#1) 0 (1#2) (1#8) (3#4) 0 (1#10) 3 2 (Some (3#4)%Q).

Example ex_training :
  (forall x y, (x <= y)%Q -> (id_rnd x <= id_rnd y)%Q) /\
  representable id_rnd window /\ (0 <= g_tol g0)%Q /\
  exists s1, sys_step id_rnd false g0 s_anergic (OTrain (Some window)) = (s1, OutTrain Positive) /\
             s_mem s1 = [remembered_slow] /\
             exists s2 sp, sys_step id_rnd false g0 s1 (OInspect (Some window))
                           = (s2, OutResp (mkResp LNone AIgnore S1Self S2None [] false) sp).
Proof.
  split; [intros x y H; exact H|]. split.
  { unfold representable, id_rnd. repeat split; try reflexivity. }
  split; [vm_compute; discriminate|].
  eexists. split; [vm_compute; reflexivity|]. split; [reflexivity|].
  eexists; eexists. vm_compute. reflexivity.
Qed.

(* a negative tolerance inverts the bounds: training "succeeds" and the window
   is then reported anomalous — why the theorem needs 0 <= tolerance *)
Example ex_negative_tolerance :
  let g := mkCfg [] 100 10 10 (-1#1) (1#2) 1000 in
  exists s1, sys_step id_rnd false g s_plain (OTrain (Some window)) = (s1, OutTrain Positive) /\
             exists s2 r sp, sys_step id_rnd false g s1 (OInspect (Some window)) = (s2, OutResp r sp) /\
                             r_level r = LSusp /\ r_viol r = [1; 2; 3].
Proof.
  eexists. split; [vm_compute; reflexivity|]. eexists; eexists; eexists.
  split; [vm_compute; reflexivity|]. split; reflexivity.
Qed.

(* windows on other scales: confidence reported as a percentage (mean 90, std 2) with
   latencies in milliseconds, and confidence as a log-probability (-5/16) with a
   negative (clock-skewed) latency.  Training accepts both; the hypotheses of
   c17_trained_baseline_contains_window / c17_trained_window_stays_no_threat hold; the
   learned confidence interval is (86, 94) resp. (-5/16 - 2 * 0.01, -5/16 + 2 * 0.01), not
   anything inside [0, 1]; and the window is still NONE at the fourth inspection after a
   manual flag, a stored threat with the window's own hashes and an inspection of
   another fingerprint *)
Definition window_percent : peptide := mkPep (37#1) (1#4) (1500#1) (25#1) (90#1) (2#1) 0 3 2 None.
Definition window_logprob : peptide := mkPep (37#1) (1#4) (-1#2) 0 (-5#16) 0 0 3 2 (Some 1%Q).

Example ex_training_other_scales :
  (forall x y, (x <= y)%Q -> (id_rnd x <= id_rnd y)%Q) /\
  representable id_rnd window_percent /\ representable id_rnd window_logprob /\
  (exists s1 t, sys_step id_rnd false g0 s_plain (OTrain (Some window_percent)) = (s1, OutTrain Positive) /\
                s_tcell s1 = Some t /\
                (Qred (cf_lo (t_prof t)), Qred (cf_hi (t_prof t))) = (86#1, 94#1)%Q /\
                (Qred (rt_lo (t_prof t)), Qred (rt_hi (t_prof t))) = (1450#1, 1550#1)%Q) /\
  (exists s1 t, sys_step id_rnd false g0 s_plain (OTrain (Some window_logprob)) = (s1, OutTrain Positive) /\
                s_tcell s1 = Some t /\
                qlt (cf_hi (t_prof t)) 0 = true /\ qlt (rt_hi (t_prof t)) 0 = true /\
                within (cf_lo (t_prof t)) (cf_hi (t_prof t)) (p_cf window_logprob) = true) /\
  (forall w, In w [window_percent; window_logprob] ->
     map (fun x => match snd x with
                   | OutResp r _ => level_code (r_level r) + 10 * Z.of_nat (length (r_viol r))
                   | OutTrain res => 100 + selres_code res
                   | _ => -1 end)
         (run id_rnd false g0 s_plain
              [OTrain (Some w); OInspect (Some w); OFlag true; OInspect (Some w);
               OStore (mkSig 0 3 2 LCrit AShutdown 0 0 []); OInspect (Some slow); OInspect (Some w);
               OInspect (Some w)])
     = [100; 0; -1; 0; -1; 53; 0; 0]).
Proof.
  split; [intros x y H; exact H|].
  split; [unfold representable, id_rnd; repeat split; try reflexivity; intros a E; inversion E|].
  split; [unfold representable, id_rnd; repeat split; try reflexivity|].
  split; [eexists; eexists; split; [vm_compute; reflexivity|]; split; [reflexivity|]; split; vm_compute; reflexivity|].
  split; [eexists; eexists; split; [vm_compute; reflexivity|]; split; [reflexivity|]; repeat split; vm_compute; reflexivity|].
  intros w [<-|[<-|[]]]; vm_compute; reflexivity.
Qed.

(* why the learned interval must not be cut to an assumed range: with the confidence
   interval of the percent-scale window clamped to [0, 1] — (86, 1) — the baseline
   rejects the very window it was learned from, and the third inspection isolates
   the agent for its own baseline (REPEATED_ANOMALY) *)
Example ex_clamped_bounds_reject_own_window :
  let pr := train_profile id_rnd (2#1) window_percent in
  let clamped := mkProf (ol_lo pr) (ol_hi pr) (rt_lo pr) (rt_hi pr) (qmax (cf_lo pr) 0) (if qle (cf_hi pr) 1 then cf_hi pr else 1%Q)
                        (err_max pr) (vocab pr) (structs pr) (canary_min pr) in
  check pr window_percent = [] /\ check clamped window_percent = [3] /\
  map (fun x => match snd x with OutResp r _ => (level_code (r_level r), action_code (r_action r)) | _ => (-1, -1) end)
      (run id_rnd false g_norules (mkSys (Some (fresh_tcell clamped 3 5)) [] (Some (mkRec 0 0 false [])) 0 0)
           [OInspect (Some window_percent); OInspect (Some window_percent); OInspect (Some window_percent)])
  = [(1, 1); (1, 1); (2, 2)].
Proof. vm_compute. auto. Qed.

(* ---------------------------------------------------------------------- *)
(* the pre-repair behaviour ([legacy = true]) violates the property         *)

(* behaviour inside the baseline is reported CONFIRMED because of a remembered threat *)
Lemma c17_legacy_inside_baseline_refuted :
  exists g s t p s' r sp,
    s_tcell s = Some t /\ check (t_prof t) p = [] /\
    sys_step id_rnd true g s (OInspect (Some p)) = (s', OutResp r sp) /\ threat r.
Proof.
  exists g_norules, s_memory, watcher, inside. eexists; eexists; eexists.
  split; [reflexivity|]. split; [vm_compute; reflexivity|].
  split; [vm_compute; reflexivity|]. left. reflexivity.
Qed.

(* an anergic watcher is not silent *)
Lemma c17_legacy_anergic_refuted :
  exists g s p s' r sp,
    anergic_sys s /\ sys_step id_rnd true g s (OInspect (Some p)) = (s', OutResp r sp) /\ threat r.
Proof.
  exists g_norules, s_anergic, slow. eexists; eexists; eexists.
  split; [exists anergic_watcher; split; reflexivity|].
  split; [vm_compute; reflexivity|]. left. reflexivity.
Qed.

(* the window the agent was just retrained on is still reported CONFIRMED:
   an anomaly is confirmed (and remembered), the agent is retrained on that very
   window, and the next inspection of the same window recalls the old verdict *)
Lemma c17_legacy_self_tolerance_refuted :
  exists g s0 p,
    let tr := run id_rnd true g s0 [OFlag true; OInspect (Some p); OTrain (Some p); OInspect (Some p)] in
    map (fun x => match snd x with
                  | OutResp r _ => level_code (r_level r)
                  | OutTrain res => 10 + selres_code res
                  | _ => -1 end) tr = [-1; 2; 10; 2].
Proof.
  exists g_norules, s_plain, (mkPep (30#1) 0 (5#2) 0 (3#4) 0 0 1 1 None). vm_compute. reflexivity.
Qed.

(* the same history under the repaired behaviour: clean after retraining *)
Example ex_self_tolerance_fixed :
  let p := mkPep (30#1) 0 (5#2) 0 (3#4) 0 0 1 1 None in
  let tr := run id_rnd false g_norules s_plain [OFlag true; OInspect (Some p); OTrain (Some p); OInspect (Some p)] in
  map (fun x => match snd x with
                | OutResp r _ => level_code (r_level r)
                | OutTrain res => 10 + selres_code res
                | _ => -1 end) tr = [-1; 2; 10; 0].
Proof. vm_compute. reflexivity. Qed.

(* ---------------------------------------------------------------------- *)
(* the display: a saturated window (size 2).  Observation 0 is good, 1 is bad;
   the fingerprint oracle says a window containing a bad observation is slow.
   train on [0;0]; one bad observation + flag -> CONFIRMED; two good ones push
   it out -> NONE although the observation COUNT never changed. *)
Definition pf_demo (w : list Z) (_ : list bool) : peptide :=
  if zmem 1 w then mkPep (30#1) 0 (9#1) 0 (3#4) 0 0 1 1 None else mkPep (30#1) 0 (1#1) 0 (3#4) 0 0 1 1 None.

Example ex_current_window :
  let hist := [ARecord 0; ARecord 0; ATrain; ARecord 1; ASys (OFlag true); AInspect; ARecord 0; ARecord 0; AInspect] in
  map (fun x => match x with
                | (d, _, AInspect, OutResp r _) => (d_obs d, level_code (r_level r))
                | (d, _, _, _) => (d_obs d, -1) end)
      (api_run pf_demo id_rnd false g_norules (mkDisp 2 2 [] []) (mkSys None [] (Some (mkRec 0 0 false [])) 0 0) hist)
  = [([], -1); ([0], -1); ([0; 0], -1); ([0; 0], -1); ([0; 1], -1); ([0; 1], 2);
     ([0; 1], -1); ([1; 0], -1); ([0; 0], 0)] /\
  lastn 2 (recorded [] (firstn 8 hist)) = [0; 0].
Proof. vm_compute. auto. Qed.

(* a lowered response is remembered as lowered and recalled unchanged: CONFIRMED / monitor twice *)
Example ex_recall_not_lowered_again :
  let tr := run id_rnd false g0 s_flagged [OInspect (Some slow); OInspect (Some slow)] in
  map (fun x => match snd x with OutResp r _ => (level_code (r_level r), action_code (r_action r), r_viol r) | _ => (-1, -1, []) end) tr
  = [(2, 1, [2]); (2, 1, [9])] /\ mem_ok (s_mem s_flagged).
Proof. split; [vm_compute; reflexivity|constructor]. Qed.

(* the maintenance scenario: a threat is confirmed and stored at time 0; a day
   later prune_old(1 hour) removes it and a feed about another agent is imported;
   the same pattern, seen once, with the flag cleared: SUSPICIOUS, not recalled *)
Example ex_forgotten_threat :
  let feed := [mkSig 1 7 7 LConf AIsolate 80000 0 []] in
  let tr := run id_rnd false g_norules s_flagged
              [OInspect (Some slow); OReset; OAdvance 86400; OPruneOld 3600; OImport feed; OInspect (Some slow)] in
  map (fun x => match snd x with OutResp r _ => (level_code (r_level r), r_viol r) | _ => (-1, []) end) tr
  = [(2, [2]); (-1, []); (-1, []); (-1, []); (-1, []); (1, [2])] /\
  map m_agent (s_mem (final id_rnd false g_norules s_flagged
              [OInspect (Some slow); OReset; OAdvance 86400; OPruneOld 3600; OImport feed])) = [1].
Proof. vm_compute. auto. Qed.

(* without the pruning the threat is remembered and recalled *)
Example ex_remembered_threat :
  let tr := run id_rnd false g_norules s_flagged [OInspect (Some slow); OReset; OAdvance 86400; OInspect (Some slow)] in
  map (fun x => match snd x with OutResp r _ => (level_code (r_level r), r_viol r) | _ => (-1, []) end) tr
  = [(2, [2]); (-1, []); (-1, []); (2, [9])].
Proof. vm_compute. reflexivity. Qed.

(* capacity pruning drops the least recently accessed signature: with capacity 2,
   touching the first makes the second the victim of the next store *)
Example ex_capacity :
  let g := mkCfg [] 100 10 10 (2#1) (1#2) 2 in
  map m_vh (s_mem (final id_rnd false g s_plain
     [OStore (mkSig 0 1 1 LConf AIsolate 0 0 []); OAdvance 1; OStore (mkSig 0 2 2 LConf AIsolate 0 0 []);
      OAdvance 1; OTouch 0 1 1; OAdvance 1; OStore (mkSig 0 3 3 LConf AIsolate 0 0 [])])) = [1; 3].
Proof. vm_compute. reflexivity. Qed.

(* ---------------------------------------------------------------------- *)
(* the tolerance record: temporary tolerance after an update, tolerated violations *)

(* the canonical rule "lambda resp, rec: rec.recent_update": silent before
   mark_agent_updated, one step down (isolate -> monitor) after it, and a
   CRITICAL response is left alone although the rule's max severity is CRITICAL *)
Example ex_recent_update_rule :
  let g := mkCfg [mkRule LCrit (interp_cond CRecent)] 100 10 10 (2#1) (1#2) 1000 in
  let tr := run id_rnd false g s_flagged
              [OInspect (Some slow); OClearMem; OMarkUpdated; OInspect (Some slow); OClearMem; OInspect (Some wild)] in
  map (fun x => match snd x with
                | OutResp r _ => (level_code (r_level r), action_code (r_action r))
                | _ => (-1, -1) end) tr
  = [(2, 2); (-1, -1); (-1, -1); (2, 1); (-1, -1); (3, 3)].
Proof. vm_compute. reflexivity. Qed.

(* a rule that tolerates registered violation kinds: response_time (code 2) is
   tolerated, so the slow fingerprint is lowered one step; the level stays CONFIRMED *)
Example ex_tolerated_violation_rule :
  let g := mkCfg [mkRule LConf (interp_cond CTolerated)] 100 10 10 (2#1) (1#2) 1000 in
  let tr := run id_rnd false g s_flagged
              [OTolerate 5; OInspect (Some slow); OClearMem; OTolerate 2; OTolerate 2; OInspect (Some slow)] in
  map (fun x => match snd x with
                | OutResp r _ => (level_code (r_level r), action_code (r_action r))
                | _ => (-1, -1) end) tr
  = [(-1, -1); (2, 2); (-1, -1); (-1, -1); (-1, -1); (2, 1)] /\
  option_map rc_tolerated (s_rec (final id_rnd false g s_flagged [OTolerate 5; OTolerate 2; OTolerate 2])) = Some [2; 5].
Proof. vm_compute. auto. Qed.

(* a partial recall touches the first signature of that agent with a common
   violation type: with capacity 2 the untouched one is the victim of the next store *)
Example ex_partial_recall :
  let g := mkCfg [] 100 10 10 (2#1) (1#2) 2 in
  map m_vh (s_mem (final id_rnd false g s_plain
     [OStore (mkSig 0 1 1 LConf AIsolate 0 0 [2]); OAdvance 1; OStore (mkSig 0 2 2 LConf AIsolate 0 0 [4; 5]);
      OAdvance 1; OTouchPartial 0 [1; 2]; OAdvance 1; OStore (mkSig 0 3 3 LConf AIsolate 0 0 [])])) = [1; 3].
Proof. vm_compute. reflexivity. Qed.

(* ---------------------------------------------------------------------- *)
(* several agents: ids 0 ("a") and 2 (an id differing from it only in case) *)

Definition pf_two (w : list Z) (c : list bool) : peptide := if zl_eq w [1] then inside else slow.
Definition ag0 : agent_st := mkAg (mkDisp 1 1 [] []) (Some watcher) (Some (mkRec 0 0 false [])).
Definition world0 : world := mkWorld (fun _ => ag0) [] 0 0.
Definition two_agents_history : list (Z * aop) :=
  [ (2, ARecord 2); (2, ASys (OFlag true)); (2, AInspect);     (* agent 2: anomaly + flag: CONFIRMED, remembered *)
    (0, ARecord 2); (0, AInspect);                              (* agent 0: the same anomaly for the first time *)
    (2, ASys OReset); (2, AInspect) ].                          (* agent 2 again: answered from memory *)
Definition wsummary (x : world * Z * aop * outcome) : Z * list Z :=
  let '(_, k, _, out) := x in (k, match out with OutResp r _ => [level_code (r_level r); sig2_code (r_s2 r)] | _ => [] end).
(* agent 2 is CONFIRMED on two signals of its own and later recognised from memory; the first
   anomaly of agent 0 in between, with the very same hashes, is SUSPICIOUS with no second signal *)
Example ex_two_agents_memory_is_per_agent :
  map wsummary (wrun pf_two id_rnd false g_norules world0 two_agents_history) =
  [(2, []); (2, []); (2, [2; 4]); (0, []); (0, [1; 0]); (2, []); (2, [2; 2])].
Proof. vm_compute. reflexivity. Qed.

(* c17_two_signals_per_agent is not vacuous: the threat reported for agent 2 *)
Example ex_two_agents_threat :
  exists w r sp, In (w, 2, AInspect, OutResp r sp) (wrun pf_two id_rnd false g_norules world0 two_agents_history) /\
                 threat r /\ r_viol r = [9] /\ w_mem w <> [] /\
                 ~ remembered_of 0 (w_mem w) slow /\ remembered_of 2 (w_mem w) slow.
Proof.
  eexists. eexists. eexists. split.
  - vm_compute. do 6 right. left. reflexivity.
  - split; [left; reflexivity|]. split; [reflexivity|]. split; [discriminate|]. split.
    + intros [m [I [A _]]]. vm_compute in I. destruct I as [I|[]]. subst m. discriminate.
    + eexists. split; [left; reflexivity|]. vm_compute. auto.
Qed.

(* the other two world theorems: agent 0's state after the calls about agent 2; nothing remembered about 0 *)
Example ex_two_agents_isolation :
  w_agents (wfinal pf_two id_rnd false g_norules world0 (firstn 3 two_agents_history)) 0 = ag0 /\
  length (w_mem (wfinal pf_two id_rnd false g_norules world0 (firstn 3 two_agents_history))) = 1%nat.
Proof. split; vm_compute; reflexivity. Qed.

(* ---------------------------------------------------------------------- *)
(* a window without a single word character: no vocabulary, no structure - whatever strings the display
   reports as its hashes (here 0, the blank string, for both), training learns exactly them, the window
   just trained on is clean, also under a manual flag *)
Definition wordless_window : peptide := mkPep 0 0 (5#8) (1#8) (7#8) 0 1 0 0 None.
Example ex_training_wordless_window :
  exists s1, sys_step id_rnd false g_norules s_plain (OTrain (Some wordless_window)) = (s1, OutTrain Positive) /\
    (exists t, s_tcell s1 = Some t /\ vocab (t_prof t) = [0] /\ structs (t_prof t) = [0]) /\
    map (fun x => outcome_obs (snd x)) (run id_rnd false g_norules s1 [OInspect (Some wordless_window); OFlag true; OInspect (Some wordless_window)])
    = [[0; 0; 0; 0; 0; 0; 1; 0; 0; 0; -1]; []; [0; 0; 0; 4; 0; 0; 1; 0; 0; 0; -1]].   (* NONE / IGNORE both times; the flag is merely shown as signal 2 *)
Proof.
  eexists. split; [vm_compute; reflexivity|]. split.
  - eexists. split; [reflexivity|]. split; reflexivity.
  - vm_compute. reflexivity.
Qed.
