(* C17 — model of operon_ai/surveillance: BaselineProfile.check, TCell,
   RegulatoryTCell.evaluate, Thymus.train as used by ImmuneSystem.train_agent,
   ImmuneSystem.inspect.  Executable definitions only (no proofs).

   Numbers.  Profile bounds and fingerprint features are doubles that the code
   only COMPARES; a finite double is a rational, so they are [Q] here and the
   comparisons are exact.  Training (Thymus.train on the n copies of the current
   fingerprint that train_agent builds) does float arithmetic: every arithmetic
   result goes through a rounding function [rnd : Q -> Q]; the executable
   correspondence uses [rnd = id] (exact), the self-tolerance theorem holds for
   every monotone [rnd] that fixes the inputs.

   The display (MHCDisplay) is window bookkeeping — the last window_size
   observations since the last clear, and every canary result — plus an oracle
   [pf] from exactly that content to the fingerprint; API-level histories
   ([aop], [api_run]) lower to system-level ones ([op], [run]).

   Hashes are abstract integers.  The agent under surveillance is agent 0;
   memory entries of other agents carry another number.

   [legacy = true] is the behaviour before commit 3c377f5 (memory consulted
   before the baseline check and before anergy); the theorems are about
   [legacy = false]; the refutation of the old behaviour is in Examples.v. *)
From Coq Require Import ZArith List Bool QArith.
Import ListNotations.
Open Scope Z_scope.

Inductive level := LNone | LSusp | LConf | LCrit.
Inductive action := AIgnore | AMonitor | AIsolate | AShutdown | AAlert.
Inductive sig1 := S1Self | S1NonSelf | S1Unknown.
Inductive sig2 := S2None | S2Canary | S2Cross | S2Repeat | S2Manual.

Definition level_code (l : level) : Z :=
  match l with LNone => 0 | LSusp => 1 | LConf => 2 | LCrit => 3 end.
Definition action_code (a : action) : Z :=
  match a with AIgnore => 0 | AMonitor => 1 | AIsolate => 2 | AShutdown => 3 | AAlert => 4 end.
Definition sig1_code (s : sig1) : Z :=
  match s with S1Self => 0 | S1NonSelf => 1 | S1Unknown => 2 end.
Definition sig2_code (s : sig2) : Z :=
  match s with S2None => 0 | S2Canary => 1 | S2Cross => 2 | S2Repeat => 3 | S2Manual => 4 end.

Definition level_eqb (a b : level) : bool := level_code a =? level_code b.
Definition action_eqb (a b : action) : bool := action_code a =? action_code b.

Definition qle (a b : Q) : bool := Qle_bool a b.
Definition qlt (a b : Q) : bool := negb (Qle_bool b a).
Definition qmax (a b : Q) : Q := if Qle_bool a b then b else a.

Fixpoint zmem (x : Z) (l : list Z) : bool :=
  match l with [] => false | y :: r => (x =? y) || zmem x r end.

(* ---------------------------------------------------------------------- *)
(* fingerprints and baseline profiles                                       *)

Record peptide := mkPep {
  p_ol : Q; p_ols : Q;          (* output_length mean / std *)
  p_rt : Q; p_rts : Q;          (* response_time mean / std *)
  p_cf : Q; p_cfs : Q;          (* confidence mean / std *)
  p_err : Q;                    (* error_rate *)
  p_vh : Z; p_sh : Z;           (* vocabulary / structure hash *)
  p_canary : option Q }.

Record profile := mkProf {
  ol_lo : Q; ol_hi : Q; rt_lo : Q; rt_hi : Q; cf_lo : Q; cf_hi : Q;
  err_max : Q; vocab : list Z; structs : list Z; canary_min : Q }.

Definition viol (ok : bool) (code : Z) : list Z := if ok then [] else [code].
Definition within (lo hi v : Q) : bool := qle lo v && qle v hi.

Definition canary_failed (pr : profile) (p : peptide) : bool :=
  match p_canary p with Some a => qlt a (canary_min pr) | None => false end.

(* BaselineProfile.check: the violations, in the order the code appends them
   (1 output_length, 2 response_time, 3 confidence, 4 error_rate,
    5 vocabulary_hash, 6 structure_hash, 7 canary_accuracy) *)
Definition check (pr : profile) (p : peptide) : list Z :=
  viol (within (ol_lo pr) (ol_hi pr) (p_ol p)) 1 ++
  viol (within (rt_lo pr) (rt_hi pr) (p_rt p)) 2 ++
  viol (within (cf_lo pr) (cf_hi pr) (p_cf p)) 3 ++
  viol (negb (qlt (err_max pr) (p_err p))) 4 ++
  viol (zmem (p_vh p) (vocab pr)) 5 ++
  viol (zmem (p_sh p) (structs pr)) 6 ++
  viol (negb (canary_failed pr p)) 7.

Definition nonempty (l : list Z) : bool := match l with [] => false | _ => true end.

(* ---------------------------------------------------------------------- *)
(* T cell                                                                   *)

Record response := mkResp {
  r_level : level; r_action : action; r_s1 : sig1; r_s2 : sig2;
  r_viol : list Z; r_anergic : bool }.

Record tcell := mkT {
  t_prof : profile;
  t_rep : Z;             (* repeated_anomaly_threshold *)
  t_anergy_thr : Z;      (* anergy_threshold *)
  t_anom : Z;            (* anomaly_count *)
  t_anergy : Z;          (* anergy_count *)
  t_manual : bool;       (* manual_flag is truthy *)
  t_s1 : sig1; t_s2 : sig2   (* state.signal1 / state.signal2 of the last inspection *) }.

Definition is_anergic (t : tcell) : bool := t_anergy_thr t <=? t_anergy t.

(* TCell._determine_response *)
Definition determine_response (s1 : sig1) (s2 : sig2) (count : Z) (canary : option Q)
  : level * action :=
  match s1 with
  | S1Self => (LNone, AIgnore)
  | _ =>
    match s2 with
    | S2None => (LSusp, AMonitor)
    | _ =>
      if (3 <=? count) || match canary with Some a => qlt a (1#2) | None => false end
      then (LCrit, AShutdown) else (LConf, AIsolate)
    end
  end.

(* TCell.inspect *)
Definition tcell_inspect (t : tcell) (p : peptide) : tcell * response :=
  if is_anergic t then (t, mkResp LNone AIgnore S1Unknown S2None [] true)
  else
    let v := check (t_prof t) p in
    let s1 := if nonempty v then S1NonSelf else S1Self in
    let s2a := if t_manual t then S2Manual else S2None in
    let s2b := if canary_failed (t_prof t) p then S2Canary else s2a in
    let anom := if nonempty v then t_anom t + 1 else 0 in
    let s2 := if nonempty v && (t_rep t <=? anom) then S2Repeat else s2b in
    let '(l, a) := determine_response s1 s2 (Z.of_nat (length v)) (p_canary p) in
    (mkT (t_prof t) (t_rep t) (t_anergy_thr t) anom (t_anergy t) (t_manual t) s1 s2,
     mkResp l a s1 s2 v false).

Definition tcell_flag (t : tcell) (truthy : bool) : tcell :=
  mkT (t_prof t) (t_rep t) (t_anergy_thr t) (t_anom t) (t_anergy t) truthy (t_s1 t) (t_s2 t).

Definition tcell_reset (t : tcell) : tcell :=
  mkT (t_prof t) (t_rep t) (t_anergy_thr t) 0 (t_anergy t) false S1Self S2None.

Definition false_alarm (t : tcell) : bool :=
  match t_s1 t, t_s2 t with S1NonSelf, S2None => true | _, _ => false end.

Definition tcell_reset_nc (t : tcell) : tcell :=
  mkT (t_prof t) (t_rep t) (t_anergy_thr t) 0
      (if false_alarm t then t_anergy t + 1 else t_anergy t) (t_manual t) S1Self S2None.

Definition fresh_tcell (pr : profile) (rep anergy_thr : Z) : tcell :=
  mkT pr rep anergy_thr 0 0 false S1Self S2None.

(* ---------------------------------------------------------------------- *)
(* regulatory T cell                                                        *)

(* ToleranceRecord: the inspection counters; whether last_update is set (mark_updated was
   called: recent_update, the tolerance hour never elapses within a history); the
   tolerated_violations set as sorted violation codes *)
Record trec := mkRec { rc_clean : Z; rc_total : Z; rc_updated : bool; rc_tolerated : list Z }.
Record rule := mkRule { ru_max : level; ru_cond : response -> trec -> bool }.

Record supp := mkSupp {
  sp_suppressed : bool; sp_orig : action; sp_mod : action;
  sp_reason : Z   (* -1 none, -2 "stable_agent", i >= 0 index of the rule *) }.

(* SuppressionRule.can_suppress *)
Definition can_suppress (mx l : level) : bool := level_code l <=? level_code mx.

(* RegulatoryTCell._downgrade_action *)
Definition downgrade (a : action) : action :=
  match a with
  | AShutdown => AIsolate | AIsolate => AMonitor | AMonitor => AIgnore
  | AAlert => AMonitor | AIgnore => AIgnore
  end.

Fixpoint first_rule (rules : list rule) (r : response) (rc : trec) (i : Z) : option Z :=
  match rules with
  | [] => None
  | ru :: rest =>
      if can_suppress (ru_max ru) (r_level r) && ru_cond ru r rc then Some i
      else first_rule rest r rc (i + 1)
  end.

(* RegulatoryTCell.evaluate *)
Definition treg_evaluate (rules : list rule) (stab : Z) (r : response) (rc : trec) : supp :=
  let a := r_action r in
  match r_level r with
  | LCrit => mkSupp false a a (-1)
  | l =>
    if (stab <=? rc_clean rc) && level_eqb l LSusp then mkSupp true a AIgnore (-2)
    else match first_rule rules r rc 0 with
         | Some i => mkSupp true a (downgrade a) i
         | None => mkSupp false a a (-1)
         end
  end.

Definition record_inspection (rc : trec) (clean : bool) : trec :=
  mkRec (if clean then rc_clean rc + 1 else 0) (rc_total rc + 1) (rc_updated rc) (rc_tolerated rc).

(* ToleranceRecord.mark_updated / add_tolerated_violation (a set: sorted, no duplicates) *)
Definition rec_mark_updated (rc : trec) : trec :=
  mkRec (rc_clean rc) (rc_total rc) true (rc_tolerated rc).
Fixpoint zinsert (x : Z) (l : list Z) : list Z :=
  match l with
  | [] => [x]
  | y :: r => if x <? y then x :: l else if x =? y then l else y :: zinsert x r
  end.
Definition rec_tolerate (rc : trec) (code : Z) : trec :=
  mkRec (rc_clean rc) (rc_total rc) (rc_updated rc) (zinsert code (rc_tolerated rc)).

(* ---------------------------------------------------------------------- *)
(* immune memory                                                            *)

(* a stored ThreatSignature; times are seconds on the (virtual) clock *)
Record msig := mkSig {
  m_agent : Z; m_vh : Z; m_sh : Z; m_level : level; m_action : action;
  m_created : Z;       (* created_at *)
  m_accessed : Z;      (* last_accessed *)
  m_types : list Z     (* violation_types, as violation codes *) }.

Definition sig_matches (p : peptide) (m : msig) : bool :=
  (m_agent m =? 0) && (m_vh m =? p_vh p) && (m_sh m =? p_sh p).
Definition recall (mem : list msig) (p : peptide) : option msig := find (sig_matches p) mem.

Definition restamp (m : msig) (created accessed : Z) : msig :=
  mkSig (m_agent m) (m_vh m) (m_sh m) (m_level m) (m_action m) created accessed (m_types m).

(* ThreatSignature.matches(query, partial=True): same agent and a common violation type *)
Definition sig_matches_partial (agent : Z) (types : list Z) (m : msig) : bool :=
  (m_agent m =? agent) && existsb (fun x => zmem x types) (m_types m).

(* ThreatSignature.touch on the first signature satisfying f (recall) *)
Fixpoint touch_first (f : msig -> bool) (now : Z) (mem : list msig) : list msig :=
  match mem with
  | [] => []
  | m :: r => if f m then restamp m (m_created m) now :: r else m :: touch_first f now r
  end.

Fixpoint remove_first (f : msig -> bool) (mem : list msig) : list msig :=
  match mem with
  | [] => []
  | m :: r => if f m then r else m :: remove_first f r
  end.

(* ImmuneMemory._prune_least_accessed: drop the first signature with the smallest last_accessed *)
Definition prune_least (mem : list msig) : list msig :=
  match mem with
  | [] => []
  | m :: r =>
      let mn := fold_left Z.min (map m_accessed r) (m_accessed m) in
      remove_first (fun x => m_accessed x =? mn) mem
  end.

(* ImmuneMemory.store: prune one signature if at capacity, then append (stamped now) *)
Definition mem_store (cap now : Z) (mem : list msig) (m : msig) : list msig :=
  (if cap <=? Z.of_nat (length mem) then prune_least mem else mem) ++ [restamp m now now].

(* ImmuneMemory.prune_old(max_age): keep created_at > now - max_age *)
Definition mem_prune_old (now age : Z) (mem : list msig) : list msig :=
  filter (fun m => now - age <? m_created m) mem.

(* from_dict leaves last_accessed at its default, the WALL clock, which is later than
   every virtual time: imported signatures are the most recently accessed, in import order *)
Definition imported_base : Z := 1000000000000.

(* ImmuneMemory.import_signatures: append while below capacity; created_at comes from the data *)
Fixpoint mem_import (cap : Z) (imp : Z) (mem : list msig) (items : list msig) : list msig * Z :=
  match items with
  | [] => (mem, imp)
  | m :: r =>
      if Z.of_nat (length mem) <? cap
      then mem_import cap (imp + 1) (mem ++ [restamp m (m_created m) (imported_base + imp)]) r
      else mem_import cap imp mem r
  end.

Fixpoint remove_nth {A : Type} (i : nat) (l : list A) : list A :=
  match l, i with
  | [], _ => []
  | _ :: r, O => r
  | x :: r, S j => x :: remove_nth j r
  end.

(* ---------------------------------------------------------------------- *)
(* training: Thymus.train on [n] copies of one fingerprint                  *)

(* the doubles 0.01, 0.05, 0.9 *)
Definition c_001 : Q := 5764607523034235 # 576460752303423488.
Definition c_005 : Q := 3602879701896397 # 72057594037927936.
Definition c_09 : Q := 8106479329266893 # 9007199254740992.

(* calc_bounds on n copies: mean = the value, stdev of the copies = 0,
   mean of the reported stds = the reported std *)
Definition calc_bounds (rnd : Q -> Q) (tol x s : Q) : Q * Q :=
  let c := qmax (qmax 0%Q s) c_001 in
  let t := rnd (tol * c)%Q in
  (rnd (x - t)%Q, rnd (x + t)%Q).

Definition train_profile (rnd : Q -> Q) (tol : Q) (p : peptide) : profile :=
  let '(ol1, ol2) := calc_bounds rnd tol (p_ol p) (p_ols p) in
  let '(rt1, rt2) := calc_bounds rnd tol (p_rt p) (p_rts p) in
  let '(cf1, cf2) := calc_bounds rnd tol (p_cf p) (p_cfs p) in
  mkProf ol1 ol2 rt1 rt2 cf1 cf2
         (qmax (rnd (p_err p * 2)%Q) c_005)
         [p_vh p] [p_sh p]
         (match p_canary p with Some a => rnd (a * c_09)%Q | None => 0%Q end).

Inductive selres := Positive | Negative | Anergic | Insufficient | TrainRaises.
Definition selres_code (r : selres) : Z :=
  match r with Positive => 0 | Negative => 1 | Anergic => 2 | Insufficient => 3 | TrainRaises => 4 end.

(* ---------------------------------------------------------------------- *)
(* the immune system for one agent                                          *)

Record cfg := mkCfg {
  g_rules : list rule; g_stab : Z;     (* Treg rules, stability_threshold *)
  g_n : Z;                             (* ImmuneSystem.min_training_samples *)
  g_tmin : Z;                          (* Thymus.min_training_samples *)
  g_tol : Q; g_vt : Q;                 (* Thymus.tolerance, variance_threshold *)
  g_cap : Z                            (* ImmuneMemory.capacity *) }.

Record sys := mkSys {
  s_tcell : option tcell; s_mem : list msig; s_rec : option trec;
  s_clock : Z;         (* the clock memory.py reads (seconds) *)
  s_imp : Z            (* how many signatures have been imported so far *) }.

Definition set_tcell (s : sys) (t : option tcell) : sys := mkSys t (s_mem s) (s_rec s) (s_clock s) (s_imp s).
Definition set_mem (s : sys) (mem : list msig) : sys := mkSys (s_tcell s) mem (s_rec s) (s_clock s) (s_imp s).
Definition set_rec (s : sys) (r : option trec) : sys := mkSys (s_tcell s) (s_mem s) r (s_clock s) (s_imp s).

Inductive op :=
| OInspect (p : option peptide)    (* inspect; None = display has too few observations *)
| OFlag (truthy : bool)            (* flag_agent(reason); truthy = reason is non-empty *)
| OReset                           (* tcell.reset() *)
| OResetNC                         (* tcell.reset_without_confirmation() *)
| OStore (m : msig)                (* memory.store(signature) from outside (stamped now) *)
| OForget (i : nat)                (* del memory.signatures[i] *)
| OClearMem                        (* memory.signatures.clear() *)
| OImport (items : list msig)      (* memory.import_signatures(data) *)
| OPruneOld (age : Z)              (* memory.prune_old(timedelta(seconds=age)) *)
| OAdvance (dt : Z)                (* the clock moves on *)
| OTouch (agent vh sh : Z)         (* memory.recall(query): touches the first exact match *)
| OSetClean (k : Z)                (* record.clean_inspections := k *)
| OTrain (p : option peptide)      (* train_agent on the window whose fingerprint is p *)
| OTregEval (l : level) (a : action)   (* treg.evaluate on a hand-made response *)
| OMarkUpdated                     (* mark_agent_updated(agent) *)
| OTolerate (code : Z)             (* record.add_tolerated_violation(name of violation code) *)
| OTouchPartial (agent : Z) (types : list Z).  (* memory.recall(query, partial=True): touches the first partial match *)

Inductive outcome :=
| OutRaise                                   (* ValueError: agent not trained *)
| OutResp (r : response) (s : option supp)   (* the response, and what Treg said if asked *)
| OutTrain (r : selres)
| OutSupp (s : option supp)
| OutUnit.

Definition with_action (r : response) (a : action) : response :=
  mkResp (r_level r) a (r_s1 r) (r_s2 r) (r_viol r) false.

Definition stores (l : level) : bool :=
  match l with LConf | LCrit => true | _ => false end.

Definition sys_inspect (legacy : bool) (g : cfg) (s : sys) (po : option peptide) : sys * outcome :=
  match s_tcell s with
  | None => (s, OutRaise)
  | Some t =>
    match po with
    | None => (s, OutResp (mkResp LNone AIgnore S1Unknown S2None [] false) None)
    | Some p =>
      let consult := legacy || (negb (is_anergic t) && nonempty (check (t_prof t) p)) in
      match (if consult then recall (s_mem s) p else None) with
      | Some m => (set_mem s (touch_first (sig_matches p) (s_clock s) (s_mem s)),
                   OutResp (mkResp (m_level m) (m_action m) S1NonSelf S2Cross [9] false) None)
      | None =>
        let '(t', r) := tcell_inspect t p in
        let '(r', sp, rec') :=
          match s_rec s with
          | None => (r, None, None)
          | Some rc =>
              let sp := treg_evaluate (g_rules g) (g_stab g) r rc in
              let r' := if sp_suppressed sp then with_action r (sp_mod sp) else r in
              (r', Some sp, Some (record_inspection rc (level_eqb (r_level r') LNone)))
          end in
        let mem' := if stores (r_level r')
                    then mem_store (g_cap g) (s_clock s) (s_mem s)
                                   (mkSig 0 (p_vh p) (p_sh p) (r_level r') (r_action r') 0 0 (r_viol r'))
                    else s_mem s in
        (mkSys (Some t') mem' rec' (s_clock s) (s_imp s), OutResp r' sp)
      end
    end
  end.

(* ImmuneSystem.train_agent *)
Definition sys_train (rnd : Q -> Q) (g : cfg) (s : sys) (po : option peptide) : sys * outcome :=
  match po with
  | None => (s, OutTrain Insufficient)
  | Some p =>
    if Z.max (g_n g) 0 <? g_tmin g then (s, OutTrain Insufficient)
    else if g_n g <=? 0 then (s, OutTrain TrainRaises)
    else if (1 <? g_n g) && qlt 0%Q (p_ol p) && qlt (g_vt g) 0%Q then (s, OutTrain Anergic)
    else (set_tcell s (Some (fresh_tcell (train_profile rnd (g_tol g) p) 3 5)), OutTrain Positive)
  end.

Definition on_tcell (s : sys) (f : tcell -> tcell) : sys :=
  set_tcell s (option_map f (s_tcell s)).

Definition sys_step (rnd : Q -> Q) (legacy : bool) (g : cfg) (s : sys) (o : op) : sys * outcome :=
  match o with
  | OInspect po => sys_inspect legacy g s po
  | OFlag b => (on_tcell s (fun t => tcell_flag t b), OutUnit)
  | OReset => (on_tcell s tcell_reset, OutUnit)
  | OResetNC => (on_tcell s tcell_reset_nc, OutUnit)
  | OStore m => (set_mem s (mem_store (g_cap g) (s_clock s) (s_mem s) m), OutUnit)
  | OForget i => (set_mem s (remove_nth i (s_mem s)), OutUnit)
  | OClearMem => (set_mem s [], OutUnit)
  | OImport items =>
      let '(mem', imp') := mem_import (g_cap g) (s_imp s) (s_mem s) items in
      (mkSys (s_tcell s) mem' (s_rec s) (s_clock s) imp', OutUnit)
  | OPruneOld age => (set_mem s (mem_prune_old (s_clock s) age (s_mem s)), OutUnit)
  | OAdvance dt => (mkSys (s_tcell s) (s_mem s) (s_rec s) (s_clock s + dt) (s_imp s), OutUnit)
  | OTouch ag vh sh =>
      (set_mem s (touch_first (fun m => (m_agent m =? ag) && (m_vh m =? vh) && (m_sh m =? sh))
                              (s_clock s) (s_mem s)), OutUnit)
  | OSetClean k =>
      (set_rec s (option_map (fun rc => mkRec k (rc_total rc) (rc_updated rc) (rc_tolerated rc)) (s_rec s)), OutUnit)
  | OTrain po => sys_train rnd g s po
  | OTregEval l a =>
      (s, OutSupp (option_map
                     (treg_evaluate (g_rules g) (g_stab g) (mkResp l a S1NonSelf S2None [] false))
                     (s_rec s)))
  | OMarkUpdated => (set_rec s (option_map rec_mark_updated (s_rec s)), OutUnit)
  | OTolerate code => (set_rec s (option_map (fun rc => rec_tolerate rc code) (s_rec s)), OutUnit)
  | OTouchPartial ag types =>
      (set_mem s (touch_first (sig_matches_partial ag types) (s_clock s) (s_mem s)), OutUnit)
  end.

(* the trace of a history: state before each operation, the operation, its outcome *)
Fixpoint run (rnd : Q -> Q) (legacy : bool) (g : cfg) (s : sys) (ops : list op)
  : list (sys * op * outcome) :=
  match ops with
  | [] => []
  | o :: rest =>
      let '(s', out) := sys_step rnd legacy g s o in
      (s, o, out) :: run rnd legacy g s' rest
  end.

Fixpoint final (rnd : Q -> Q) (legacy : bool) (g : cfg) (s : sys) (ops : list op) : sys :=
  match ops with
  | [] => s
  | o :: rest => final rnd legacy g (fst (sys_step rnd legacy g s o)) rest
  end.

(* ---------------------------------------------------------------------- *)
(* MHCDisplay: the fingerprint is a function of the CURRENT window          *)

(* Observations are abstract identifiers.  The display keeps the last
   [d_size] observations and every canary result; generate_peptide is a
   function [pf] (an oracle: means, deviations, hashes) of exactly that
   content, or None below [d_min] observations. *)
Record display := mkDisp { d_size : nat; d_min : nat; d_obs : list Z; d_canary : list bool }.

(* MHCDisplay.record: append, then pop the oldest if the window overflows *)
Definition disp_record (d : display) (o : Z) : display :=
  let l := d_obs d ++ [o] in
  mkDisp (d_size d) (d_min d) (if (d_size d <? length l)%nat then tl l else l) (d_canary d).

Inductive aop :=
| ARecord (o : Z)        (* record_observation *)
| ACanary (passed : bool)(* record_canary_result *)
| AClear                 (* display.clear() *)
| AInspect               (* inspect(agent): fingerprint of the current window *)
| ATrain                 (* train_agent(agent): fingerprint of the current window *)
| ASys (o : op).         (* any other operation (flag, resets, memory, ...) *)

Definition disp_step (d : display) (a : aop) : display :=
  match a with
  | ARecord o => disp_record d o
  | ACanary b => mkDisp (d_size d) (d_min d) (d_obs d) (d_canary d ++ [b])
  | AClear => mkDisp (d_size d) (d_min d) [] []
  | _ => d
  end.

Definition fingerprint_of (pf : list Z -> list bool -> peptide) (dmin : nat)
           (w : list Z) (c : list bool) : option peptide :=
  if (length w <? dmin)%nat then None else Some (pf w c).

(* MHCDisplay.generate_peptide *)
Definition fingerprint (pf : list Z -> list bool -> peptide) (d : display) : option peptide :=
  fingerprint_of pf (d_min d) (d_obs d) (d_canary d).

(* the system-level operation an API call amounts to (None: display only) *)
Definition lower (pf : list Z -> list bool -> peptide) (d : display) (a : aop) : option op :=
  match a with
  | AInspect => Some (OInspect (fingerprint pf d))
  | ATrain => Some (OTrain (fingerprint pf d))
  | ASys o => Some o
  | _ => None
  end.

(* trace of an API history: display and system before each call, the call, its outcome *)
Fixpoint api_run (pf : list Z -> list bool -> peptide) (rnd : Q -> Q) (legacy : bool) (g : cfg)
         (d : display) (s : sys) (aops : list aop) : list (display * sys * aop * outcome) :=
  match aops with
  | [] => []
  | a :: rest =>
      match lower pf d a with
      | Some o =>
          let '(s', out) := sys_step rnd legacy g s o in
          (d, s, a, out) :: api_run pf rnd legacy g d s' rest
      | None => (d, s, a, OutUnit) :: api_run pf rnd legacy g (disp_step d a) s rest
      end
  end.

(* the system-level history an API history amounts to *)
Fixpoint lowered (pf : list Z -> list bool -> peptide) (d : display) (aops : list aop) : list op :=
  match aops with
  | [] => []
  | a :: rest =>
      match lower pf d a with
      | Some o => o :: lowered pf d rest
      | None => lowered pf (disp_step d a) rest
      end
  end.

(* ---------------------------------------------------------------------- *)
(* finite tables regenerated from the implementation (gen/Gen_C17.v)        *)

Definition sig1_of (z : Z) : sig1 := if z =? 0 then S1Self else if z =? 1 then S1NonSelf else S1Unknown.
Definition sig2_of (z : Z) : sig2 :=
  if z =? 0 then S2None else if z =? 1 then S2Canary else if z =? 2 then S2Cross
  else if z =? 3 then S2Repeat else S2Manual.
Definition level_of (z : Z) : level :=
  if z =? 0 then LNone else if z =? 1 then LSusp else if z =? 2 then LConf else LCrit.
Definition action_of (z : Z) : action :=
  if z =? 0 then AIgnore else if z =? 1 then AMonitor else if z =? 2 then AIsolate
  else if z =? 3 then AShutdown else AAlert.

(* row: signal1, signal2, violation count, canary accuracy, -> level, action (codes) *)
Definition response_row := (Z * Z * Z * option Q * Z * Z)%type.
Definition response_row_ok (row : response_row) : bool :=
  let '(s1, s2, n, c, l, a) := row in
  let '(l', a') := determine_response (sig1_of s1) (sig2_of s2) n c in
  (level_code l' =? l) && (action_code a' =? a).

(* row: rule max_severity, response level, can_suppress *)
Definition suppress_row_ok (row : Z * Z * bool) : bool :=
  let '(mx, l, b) := row in Bool.eqb (can_suppress (level_of mx) (level_of l)) b.

(* row: action, downgraded action *)
Definition downgrade_row_ok (row : Z * Z) : bool :=
  let '(a, d) := row in action_code (downgrade (action_of a)) =? d.

(* every combination must be present, so a table cannot shrink unnoticed *)
Definition tables_agree (rt : list response_row) (st : list (Z * Z * bool)) (dt : list (Z * Z)) : bool :=
  forallb response_row_ok rt && (Z.of_nat (length rt) =? 3 * 5 * 5 * 4) &&
  forallb suppress_row_ok st && (Z.of_nat (length st) =? 16) &&
  forallb downgrade_row_ok dt && (Z.of_nat (length dt) =? 5).

(* ---------------------------------------------------------------------- *)
(* concrete cases for the correspondence check                              *)

Inductive ccond :=
| CConst (b : bool) | CLevelIs (l : level) | CCleanGe (k : Z) | CActionIs (a : action)
| CViolGe (k : Z)
| CRecent            (* lambda resp, rec: rec.recent_update *)
| CTolerated.        (* some violation of the response is in rec.tolerated_violations *)

Definition interp_cond (c : ccond) : response -> trec -> bool :=
  match c with
  | CConst b => fun _ _ => b
  | CLevelIs l => fun r _ => level_eqb (r_level r) l
  | CCleanGe k => fun _ rc => k <=? rc_clean rc
  | CActionIs a => fun r _ => action_eqb (r_action r) a
  | CViolGe k => fun r _ => k <=? Z.of_nat (length (r_viol r))
  | CRecent => fun _ rc => rc_updated rc
  | CTolerated => fun r rc => existsb (fun v => zmem v (rc_tolerated rc)) (r_viol r)
  end.

Fixpoint zl_eq (a b : list Z) : bool :=
  match a, b with
  | [], [] => true
  | x :: a', y :: b' => (x =? y) && zl_eq a' b'
  | _, _ => false
  end.
Fixpoint bl_eq (a b : list bool) : bool :=
  match a, b with
  | [], [] => true
  | x :: a', y :: b' => Bool.eqb x y && bl_eq a' b'
  | _, _ => false
  end.

(* the fingerprint oracle of a case: a finite table from window contents to
   the reference fingerprint; an absent entry yields a fingerprint that cannot
   agree with anything *)
Definition fp_table := list (list Z * list bool * peptide).
Definition bad_peptide : peptide :=
  mkPep (-1#1) (-1#1) (-1#1) (-1#1) (-1#1) (-1#1) (-1#1) (-1) (-1) None.
Fixpoint table_pf (t : fp_table) (w : list Z) (c : list bool) : peptide :=
  match t with
  | [] => bad_peptide
  | (w', c', p) :: r => if zl_eq w w' && bl_eq c c' then p else table_pf r w c
  end.

Record case := mkCase {
  c_rules : list (level * ccond); c_stab : Z;
  c_tcell : option (profile * Z * Z);   (* installed watcher: profile, repeat thr, anergy thr *)
  c_record : bool;                      (* Treg has a tolerance record for the agent *)
  c_n : Z; c_tmin : Z; c_tol : Q; c_vt : Q; c_cap : Z;
  c_win : nat * nat;                    (* window_size, min_observations *)
  c_table : fp_table;                   (* reference fingerprints of the windows that get inspected *)
  c_ops : list aop }.

Definition cfg_of (c : case) : cfg :=
  mkCfg (map (fun x => mkRule (fst x) (interp_cond (snd x))) (c_rules c)) (c_stab c)
        (c_n c) (c_tmin c) (c_tol c) (c_vt c) (c_cap c).

Definition init_of (c : case) : sys :=
  mkSys (option_map (fun x => let '(pr, rep, an) := x in fresh_tcell pr rep an) (c_tcell c))
        [] (if c_record c then Some (mkRec 0 0 false []) else None) 0 0.

Definition disp_of (c : case) : display := mkDisp (fst (c_win c)) (snd (c_win c)) [] [].

Definition b2z (b : bool) : Z := if b then 1 else 0.

Definition supp_obs (s : option supp) : list Z :=
  match s with
  | None => [0; 0; 0; 0; 0]
  | Some sp => [1; b2z (sp_suppressed sp); action_code (sp_orig sp); action_code (sp_mod sp);
                sp_reason sp]
  end.

Definition outcome_obs (o : outcome) : list Z :=
  match o with
  | OutRaise => [-1]
  | OutResp r s =>
      [level_code (r_level r); action_code (r_action r); sig1_code (r_s1 r); sig2_code (r_s2 r);
       b2z (r_anergic r); Z.of_nat (length (r_viol r))] ++ r_viol r ++ supp_obs s
  | OutTrain r => [selres_code r]
  | OutSupp s => supp_obs s
  | OutUnit => []
  end.

Definition msig_obs (m : msig) : list Z :=
  [m_agent m; m_vh m; m_sh m; level_code (m_level m); action_code (m_action m); m_created m;
   if m_accessed m <? imported_base then m_accessed m else -1; Z.of_nat (length (m_types m))] ++ m_types m.

Definition state_obs (s : sys) : list Z :=
  match s_tcell s with
  | None => [0; 0; 0; 0; 0; 0; 0]
  | Some t => [1; t_anom t; t_anergy t; b2z (t_manual t); sig1_code (t_s1 t); sig2_code (t_s2 t);
               b2z (is_anergic t)]
  end ++
  match s_rec s with
  | None => [-1; -1; -1; -1]
  | Some rc => [rc_clean rc; rc_total rc; b2z (rc_updated rc); Z.of_nat (length (rc_tolerated rc))] ++ rc_tolerated rc
  end ++
  s_clock s :: Z.of_nat (length (s_mem s)) :: flat_map msig_obs (s_mem s).

Definition op_code (o : op) : Z :=
  match o with
  | OInspect _ => 1 | OFlag _ => 2 | OReset => 3 | OResetNC => 4 | OStore _ => 5
  | OForget _ => 6 | OSetClean _ => 7 | OTrain _ => 8 | OTregEval _ _ => 9
  | OClearMem => 10 | OImport _ => 11 | OPruneOld _ => 12 | OAdvance _ => 13 | OTouch _ _ _ => 14
  | OMarkUpdated => 15 | OTolerate _ => 16 | OTouchPartial _ _ => 17
  end.

Definition q_obs (q : Q) : list Z := let r := Qred q in [Qnum r; Zpos (Qden r)].

(* the fingerprint the display handed to the T cell / thymus *)
Definition pep_obs (po : option peptide) : list Z :=
  match po with
  | None => [0]
  | Some p =>
      1 :: q_obs (p_ol p) ++ q_obs (p_ols p) ++ q_obs (p_rt p) ++ q_obs (p_rts p) ++
      q_obs (p_cf p) ++ q_obs (p_cfs p) ++ q_obs (p_err p) ++ [p_vh p; p_sh p] ++
      match p_canary p with Some a => 1 :: q_obs a | None => [0; 0; 1] end
  end.

(* what a successful training shows besides its result: the violations the freshly
   learned baseline finds in the very window it was learned from (marker 88, count,
   codes).  The window may be on any scale — confidences as percentages or
   log-probabilities, latencies in milliseconds or (clock skew) negative: the
   features are arbitrary rationals, nothing is clamped to a "physical" range. *)
Definition trained_obs (s' : sys) (o : op) (out : outcome) : list Z :=
  match o, out, s_tcell s' with
  | OTrain (Some p), OutTrain Positive, Some t =>
      let v := check (t_prof t) p in 88 :: Z.of_nat (length v) :: v
  | _, _, _ => []
  end.

(* one row per system-level operation; inspections / trainings through the
   display also show the fingerprint that was used *)
Fixpoint obs_run (pf : list Z -> list bool -> peptide) (legacy : bool) (g : cfg)
         (d : display) (s : sys) (aops : list aop) : list (list Z) :=
  match aops with
  | [] => []
  | a :: rest =>
      match lower pf d a with
      | None => obs_run pf legacy g (disp_step d a) s rest
      | Some o =>
          let '(s', out) := sys_step (fun x => x) legacy g s o in
          let fp := match a, out with
                    | ASys _, _ => []
                    | _, OutRaise => [66; -5]     (* untrained: no fingerprint is generated *)
                    | _, _ => 66 :: pep_obs (fingerprint pf d)
                    end in
          (op_code o :: outcome_obs out ++ trained_obs s' o out ++ fp ++ 77 :: state_obs s') :: obs_run pf legacy g d s' rest
      end
  end.

Definition run_case (c : case) : list (list Z) :=
  obs_run (table_pf (c_table c)) false (cfg_of c) (disp_of c) (init_of c) (c_ops c).
Definition run_case_legacy (c : case) : list (list Z) :=
  obs_run (table_pf (c_table c)) true (cfg_of c) (disp_of c) (init_of c) (c_ops c).

(* ---------------------------------------------------------------------- *)
(* several agents under one ImmuneSystem                                    *)

(* Every registered agent has its own display, watcher and tolerance record;
   the immune memory, its clock and the configuration are shared.  Agents are
   numbers (the harness maps them to agent-id strings, among them ids that
   differ only in case or in outer whitespace: to the code, and here, different
   ids are different agents; number 0 is the id "a" of the one-agent cases).
   Agent [k] sees the shared memory with its own number and 0 exchanged
   ([relabel k]: an involution on the entries that keeps the order of the list),
   so the one-agent definitions above apply verbatim to its view. *)
Definition swap_agent (k z : Z) : Z := if z =? k then 0 else if z =? 0 then k else z.
Definition relabel (k : Z) (m : msig) : msig :=
  mkSig (swap_agent k (m_agent m)) (m_vh m) (m_sh m) (m_level m) (m_action m)
        (m_created m) (m_accessed m) (m_types m).

Record agent_st := mkAg { a_disp : display; a_tcell : option tcell; a_rec : option trec }.
Record world := mkWorld { w_agents : Z -> agent_st; w_mem : list msig; w_clock : Z; w_imp : Z }.

(* the one-agent system agent k lives in *)
Definition view (k : Z) (w : world) : sys :=
  mkSys (a_tcell (w_agents w k)) (map (relabel k) (w_mem w)) (a_rec (w_agents w k)) (w_clock w) (w_imp w).

Definition put (k : Z) (d : display) (s : sys) (w : world) : world :=
  mkWorld (fun j => if j =? k then mkAg d (s_tcell s) (s_rec s) else w_agents w j)
          (map (relabel k) (s_mem s)) (s_clock s) (s_imp s).

(* one call of the API about agent k (operations on the shared memory that name
   agents in their arguments are issued with k = 0, where relabel is the identity) *)
Definition world_step (pf : list Z -> list bool -> peptide) (rnd : Q -> Q) (legacy : bool) (g : cfg)
           (w : world) (k : Z) (a : aop) : world * outcome :=
  let d := a_disp (w_agents w k) in
  match lower pf d a with
  | Some o => let '(s', out) := sys_step rnd legacy g (view k w) o in (put k d s' w, out)
  | None => (put k (disp_step d a) (view k w) w, OutUnit)
  end.

(* trace of a history over several agents: world before, agent, call, outcome *)
Fixpoint wrun (pf : list Z -> list bool -> peptide) (rnd : Q -> Q) (legacy : bool) (g : cfg)
         (w : world) (ops : list (Z * aop)) : list (world * Z * aop * outcome) :=
  match ops with
  | [] => []
  | (k, a) :: rest =>
      let '(w', out) := world_step pf rnd legacy g w k a in
      (w, k, a, out) :: wrun pf rnd legacy g w' rest
  end.

(* agent k's own state next to the shared memory as it is (no relabelling) *)
Definition agent_sys (k : Z) (w : world) : sys :=
  mkSys (a_tcell (w_agents w k)) (w_mem w) (a_rec (w_agents w k)) (w_clock w) (w_imp w).

Fixpoint wobs_run (pf : list Z -> list bool -> peptide) (g : cfg) (w : world) (ops : list (Z * aop))
  : list (list Z) :=
  match ops with
  | [] => []
  | (k, a) :: rest =>
      let d := a_disp (w_agents w k) in
      let '(w', out) := world_step pf (fun x => x) false g w k a in
      match lower pf d a with
      | None => wobs_run pf g w' rest
      | Some o =>
          let fp := match a, out with
                    | ASys _, _ => []
                    | _, OutRaise => [66; -5]
                    | _, _ => 66 :: pep_obs (fingerprint pf d)
                    end in
          (op_code o :: outcome_obs out ++ trained_obs (view k w') o out ++ fp ++
           77 :: k :: state_obs (agent_sys k w')) :: wobs_run pf g w' rest
      end
  end.

(* a case is a one-agent history, or a history over several registered agents
   (all untrained at first, each with an empty display and a fresh tolerance
   record; configuration, window sizes and fingerprint oracle taken from [c]) *)
Inductive xcase := XOne (c : case) | XWorld (c : case) (ops : list (Z * aop)).

Definition world_of (c : case) : world :=
  mkWorld (fun _ => mkAg (disp_of c) None (Some (mkRec 0 0 false []))) [] 0 0.

Definition run_xcase (x : xcase) : list (list Z) :=
  match x with
  | XOne c => run_case c
  | XWorld c ops => wobs_run (table_pf (c_table c)) (cfg_of c) (world_of c) ops
  end.
