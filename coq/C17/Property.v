(* C17 — property theorems only.  Each is closed by [exact] of a lemma from
   Proofs.v (or of the generated-data obligation in gen/Gen_C17.v) and followed
   by Print Assumptions.

   [run rnd false g s0 ops] is the trace (state before, operation, outcome) of
   the operation history [ops] from an ARBITRARY initial state [s0] (any
   watcher state, any memory, any tolerance record) under an arbitrary
   configuration [g] (any rule list with arbitrary condition functions, any
   thresholds); [false] selects the code as it is now (memory consulted only on
   a current violation by a watcher that is not anergic). *)
From Coq Require Import ZArith List Bool QArith.
From Verif Require Import C17.Model C17.Proofs C17.ProofsWorld gen.Gen_C17.
Import ListNotations.
Open Scope Z_scope.

(* CONFIRMED / CRITICAL / isolate / shutdown is reported only when the current
   fingerprint violates the watcher's baseline AND a second signal is present:
   canary failure, manual flag, repeated anomaly or a remembered threat. *)
Theorem c17_two_signals :
  forall rnd g s0 ops s p r sp,
    In (s, OInspect (Some p), OutResp r sp) (run rnd false g s0 ops) -> threat r ->
    exists t, s_tcell s = Some t /\ is_anergic t = false /\ check (t_prof t) p <> [] /\
              second_signal t (s_mem s) p.
Proof. exact two_signals_proof. Qed.
Print Assumptions c17_two_signals.

(* "a remembered threat" is a signature that is in memory at that moment
   ([remembered (s_mem s) p] above is membership in the memory list AFTER all the
   maintenance operations of the history: store with capacity pruning,
   import_signatures, prune_old against the clock, direct edits).  In
   particular prune_old really forgets ... *)
Theorem c17_prune_old_forgets :
  forall rnd lg g s age s' out,
    sys_step rnd lg g s (OPruneOld age) = (s', out) ->
    forall m, In m (s_mem s') -> In m (s_mem s) /\ s_clock s - age < m_created m.
Proof. exact prune_old_forgets. Qed.
Print Assumptions c17_prune_old_forgets.

(* ... and a forgotten threat is no second signal: after prune_old has removed
   every signature matching fingerprint p (all older than max_age), whatever
   maintenance follows about other patterns (store incl. capacity pruning,
   import, prune_old, direct edits, touches, clock, flags, resets), the next
   inspection of p is not answered from memory, and it is CONFIRMED / CRITICAL /
   isolate / shutdown only with a canary failure, a manual flag or a repeated
   anomaly *)
Theorem c17_forgotten_threat_is_no_signal :
  forall rnd g s0 age ops s1 p s2 r sp,
    (forall m, In m (s_mem s0) -> sig_matches p m = true -> m_created m <= s_clock s0 - age) ->
    Forall (keeps_forgotten p) ops ->
    final rnd false g s0 (OPruneOld age :: ops) = s1 ->
    sys_step rnd false g s1 (OInspect (Some p)) = (s2, OutResp r sp) ->
    r_viol r <> [9] /\
    (threat r -> exists t, s_tcell s1 = Some t /\ check (t_prof t) p <> [] /\
                           (canary_failed (t_prof t) p = true \/ t_manual t = true \/ t_rep t <= t_anom t + 1)).
Proof. exact forgotten_threat_proof. Qed.
Print Assumptions c17_forgotten_threat_is_no_signal.

(* what the "repeated anomaly" signal counts: from a freshly installed watcher,
   in every history, the anomaly count of a watcher that is not desensitised is
   at most the number of immediately preceding consecutive anomalous inspections *)
Theorem c17_repeated_anomaly_is_a_streak :
  forall rnd g s0 ops t,
    (forall t0, s_tcell s0 = Some t0 -> t_anom t0 = 0) ->
    s_tcell (final rnd false g s0 ops) = Some t -> is_anergic t = false ->
    0 <= t_anom t <= streak (rev (run rnd false g s0 ops)).
Proof. exact repeated_anomaly_proof. Qed.
Print Assumptions c17_repeated_anomaly_is_a_streak.

(* behaviour inside the baseline is reported NONE / IGNORE with no violations,
   whatever the manual flag, canary value, anomaly count, memory, rules, history *)
Theorem c17_inside_baseline_no_threat :
  forall rnd g s0 ops s t p out,
    In (s, OInspect (Some p), out) (run rnd false g s0 ops) ->
    s_tcell s = Some t -> check (t_prof t) p = [] ->
    exists r sp, out = OutResp r sp /\ silent r /\ r_viol r = [].
Proof. exact inside_baseline_proof. Qed.
Print Assumptions c17_inside_baseline_no_threat.

(* no fingerprint (too few observations): NONE / IGNORE *)
Theorem c17_no_fingerprint_no_threat :
  forall rnd lg g s0 ops s r sp,
    In (s, OInspect None, OutResp r sp) (run rnd lg g s0 ops) -> silent r.
Proof. exact no_fingerprint_proof. Qed.
Print Assumptions c17_no_fingerprint_no_threat.

(* once a watcher is anergic it stays anergic and every inspection is NONE /
   IGNORE, for every later history that does not replace the watcher by retraining *)
Theorem c17_anergic_silent :
  forall rnd g ops s0 s o out,
    anergic_sys s0 -> Forall (fun o => replaces_watcher o = false) ops ->
    In (s, o, out) (run rnd false g s0 ops) ->
    anergic_sys s /\
    (forall po, o = OInspect po -> exists r sp, out = OutResp r sp /\ silent r).
Proof. exact anergic_silent_proof. Qed.
Print Assumptions c17_anergic_silent.

(* whenever Treg is consulted during an inspection: the reported action is what
   Treg returned, it is the T cell's action or exactly one step below it, the
   level / signals / violations are the T cell's, and an unsuppressed response
   is the T cell's response unchanged *)
Theorem c17_treg_one_step :
  forall rnd g s0 ops s po r sp,
    In (s, OInspect po, OutResp r (Some sp)) (run rnd false g s0 ops) ->
    exists t p t' r0 rc,
      po = Some p /\ s_tcell s = Some t /\ s_rec s = Some rc /\ tcell_inspect t p = (t', r0) /\
      sp = treg_evaluate (g_rules g) (g_stab g) r0 rc /\
      sp_orig sp = r_action r0 /\
      r_action r = sp_mod sp /\
      same_or_one_lower (r_action r0) (r_action r) /\
      (sp_suppressed sp = false -> r = r0) /\
      r_level r = r_level r0 /\ r_s1 r = r_s1 r0 /\ r_s2 r = r_s2 r0 /\ r_viol r = r_viol r0.
Proof. exact treg_pipeline_proof. Qed.
Print Assumptions c17_treg_one_step.

(* across memory: in every history whose externally stored signatures are
   themselves within one step, every reported action is the action that belongs
   to the reported level or exactly one step below it — a remembered (already
   lowered) response is not lowered again on recall *)
Theorem c17_action_within_one_step_of_level :
  forall rnd g ops s0 s p r sp,
    mem_ok (s_mem s0) -> Forall op_ok ops ->
    In (s, OInspect (Some p), OutResp r sp) (run rnd false g s0 ops) ->
    within_one_step (r_level r) (r_action r).
Proof. exact within_one_step_proof. Qed.
Print Assumptions c17_action_within_one_step_of_level.

(* RegulatoryTCell.evaluate on ANY response record (also ones the T cell never
   produces): original action reported faithfully; unsuppressed = unchanged; at
   most one step down unless the response is ALERT or a SUSPICIOUS response
   carrying an action above monitor (the stable-agent shortcut goes to ignore);
   outside that shortcut the result is the action or its table downgrade *)
Theorem c17_treg_evaluate_one_step :
  forall rules stab r rc,
    let sp := treg_evaluate rules stab r rc in
    sp_orig sp = r_action r /\
    (sp_suppressed sp = false -> sp_mod sp = r_action r) /\
    (r_action r <> AAlert ->
     (r_level r = LSusp -> r_action r = AMonitor \/ r_action r = AIgnore) ->
     same_or_one_lower (r_action r) (sp_mod sp)) /\
    (sp_reason sp <> -2 -> sp_mod sp = r_action r \/ sp_mod sp = downgrade (r_action r)).
Proof. exact treg_evaluate_proof. Qed.
Print Assumptions c17_treg_evaluate_one_step.

(* a CRITICAL response is never suppressed or modified, whatever the rules and record *)
Theorem c17_critical_untouched :
  forall rules stab r rc,
    r_level r = LCrit ->
    treg_evaluate rules stab r rc = mkSupp false (r_action r) (r_action r) (-1).
Proof. exact treg_critical. Qed.
Print Assumptions c17_critical_untouched.

(* ... and in the pipeline a CRITICAL report that went through Treg is the
   T cell's own response, action shutdown *)
Theorem c17_critical_untouched_in_pipeline :
  forall rnd g s0 ops s po r sp,
    In (s, OInspect po, OutResp r (Some sp)) (run rnd false g s0 ops) ->
    r_level r = LCrit ->
    sp_suppressed sp = false /\ sp_mod sp = sp_orig sp /\ r_action r = AShutdown /\
    exists t p t', po = Some p /\ s_tcell s = Some t /\ tcell_inspect t p = (t', r).
Proof. exact critical_pipeline_proof. Qed.
Print Assumptions c17_critical_untouched_in_pipeline.

(* immediately after successful training on a window, inspecting that window
   reports NONE / IGNORE, no violations, signal 1 = self — from any prior state
   (any memory, any previous watcher, any rules), for exact arithmetic and for
   every monotone rounding [rnd] that fixes the window's feature values *)
Theorem c17_self_tolerance_after_training :
  forall rnd : Q -> Q,
    (forall x y, (x <= y)%Q -> (rnd x <= rnd y)%Q) ->
    forall g s p s1,
      (0 <= g_tol g)%Q -> representable rnd p ->
      (forall a, p_canary p = Some a -> (0 <= a)%Q) ->
      sys_step rnd false g s (OTrain (Some p)) = (s1, OutTrain Positive) ->
      exists s2 r sp,
        sys_step rnd false g s1 (OInspect (Some p)) = (s2, OutResp r sp) /\
        silent r /\ r_viol r = [] /\ r_s1 r = S1Self.
Proof. exact self_tolerance_proof. Qed.
Print Assumptions c17_self_tolerance_after_training.

(* what "successful training on a window" learns, on ANY scale: the features of a
   window are arbitrary rationals (a confidence reported as a percentage or as a
   log-probability, a latency in milliseconds or made negative by clock skew — the
   recording API accepts them all and training accepts such windows); each learned
   interval contains the window's own value, the learned baseline finds no violation
   in the window, the watcher starts fresh, memory and tolerance record are untouched *)
Theorem c17_trained_baseline_contains_window :
  forall rnd : Q -> Q,
    (forall x y, (x <= y)%Q -> (rnd x <= rnd y)%Q) ->
    forall g s p s1,
      (0 <= g_tol g)%Q -> representable rnd p ->
      (forall a, p_canary p = Some a -> (0 <= a)%Q) ->
      sys_step rnd false g s (OTrain (Some p)) = (s1, OutTrain Positive) ->
      exists t, s_tcell s1 = Some t /\ t_prof t = train_profile rnd (g_tol g) p /\
                check (t_prof t) p = [] /\
                within (ol_lo (t_prof t)) (ol_hi (t_prof t)) (p_ol p) = true /\
                within (rt_lo (t_prof t)) (rt_hi (t_prof t)) (p_rt p) = true /\
                within (cf_lo (t_prof t)) (cf_hi (t_prof t)) (p_cf p) = true /\
                is_anergic t = false /\ t_anom t = 0 /\ t_manual t = false /\
                s_mem s1 = s_mem s /\ s_rec s1 = s_rec s /\
                trained_obs s1 (OTrain (Some p)) (OutTrain Positive) = [88; 0].
Proof. exact trained_baseline_proof. Qed.
Print Assumptions c17_trained_baseline_contains_window.

(* ... and the agent is never reported, let alone isolated, for its own baseline: after
   successful training on a window, in EVERY later history that does not retrain —
   manual flags, stored / imported / recalled threats carrying the window's own
   hashes, resets, false-alarm resets, tolerance-record edits, inspections of other
   fingerprints in between, any rules — every inspection of that same window (the
   first, the third, the hundredth) is NONE / IGNORE with no violations *)
Theorem c17_trained_window_stays_no_threat :
  forall rnd : Q -> Q,
    (forall x y, (x <= y)%Q -> (rnd x <= rnd y)%Q) ->
    forall g s p s1 ops s2 out,
      (0 <= g_tol g)%Q -> representable rnd p ->
      (forall a, p_canary p = Some a -> (0 <= a)%Q) ->
      sys_step rnd false g s (OTrain (Some p)) = (s1, OutTrain Positive) ->
      Forall (fun o => replaces_watcher o = false) ops ->
      In (s2, OInspect (Some p), out) (run rnd false g s1 ops) ->
      exists r sp, out = OutResp r sp /\ silent r /\ r_viol r = [].
Proof. exact trained_window_stays_proof. Qed.
Print Assumptions c17_trained_window_stays_no_threat.

(* The display.  For every history of API calls (record_observation,
   record_canary_result, clear, inspect, train_agent, and any other operation)
   from any display whose window is not over-full, and every fingerprint
   function [pf] (the statistics / hashes oracle): the inspection (training) at
   any position judges exactly [pf] of the CURRENT window — the last
   [window_size] observations recorded so far (since the last clear) and the
   canary results so far — or no fingerprint below [min_observations]; and that
   verdict is an element of the system-level trace [run ...], so every theorem
   above applies to the current window. *)
Theorem c17_inspect_uses_current_window :
  forall pf rnd lg g d0 s0 pre post,
    (length (d_obs d0) <= d_size d0)%nat ->
    let w := lastn (d_size d0) (recorded (d_obs d0) pre) in
    let c := canaries (d_canary d0) pre in
    let fp := fingerprint_of pf (d_min d0) w c in
    (exists d s out s',
       nth_error (api_run pf rnd lg g d0 s0 (pre ++ AInspect :: post)) (length pre) = Some (d, s, AInspect, out) /\
       d_obs d = w /\ d_canary d = c /\
       sys_step rnd lg g s (OInspect fp) = (s', out) /\
       In (s, OInspect fp, out) (run rnd lg g s0 (lowered pf d0 (pre ++ AInspect :: post)))) /\
    (exists d s out s',
       nth_error (api_run pf rnd lg g d0 s0 (pre ++ ATrain :: post)) (length pre) = Some (d, s, ATrain, out) /\
       d_obs d = w /\ d_canary d = c /\
       sys_step rnd lg g s (OTrain fp) = (s', out) /\
       In (s, OTrain fp, out) (run rnd lg g s0 (lowered pf d0 (pre ++ ATrain :: post)))).
Proof. exact current_window_proof. Qed.
Print Assumptions c17_inspect_uses_current_window.

(* Several agents under one ImmuneSystem (each with its own display, watcher and
   tolerance record; memory, clock and configuration shared): [wrun pf rnd false g
   w0 ops] is the trace of a history of API calls [(agent, call)] from an ARBITRARY
   world [w0].  Agents are numbers; the harness maps them to id strings, among them
   ids that differ only in case or outer whitespace — different ids are different
   agents.  An inspection of agent k reports CONFIRMED / CRITICAL / isolate /
   shutdown only when the fingerprint of k's OWN current window violates k's OWN
   baseline and a second signal OF AGENT k is present: its own canary results, its
   own manual flag, its own anomaly streak, or a threat remembered under its own
   id ([remembered_of k]: a signature in the shared memory whose agent is k) — a
   threat remembered about any other agent is not a signal *)
Theorem c17_two_signals_per_agent :
  forall pf rnd g w0 ops w k r sp,
    In (w, k, AInspect, OutResp r sp) (wrun pf rnd false g w0 ops) -> threat r ->
    exists t p, a_tcell (w_agents w k) = Some t /\
                fingerprint pf (a_disp (w_agents w k)) = Some p /\
                is_anergic t = false /\ check (t_prof t) p <> [] /\
                (canary_failed (t_prof t) p = true \/ t_manual t = true \/ t_rep t <= t_anom t + 1 \/
                 exists m, In m (w_mem w) /\ m_agent m = k /\ m_vh m = p_vh p /\ m_sh m = p_sh p).
Proof. exact world_two_signals_proof. Qed.
Print Assumptions c17_two_signals_per_agent.

(* ... and nothing another agent does can create such a signal: any history of
   calls about OTHER agents (their observations, canaries, trainings, flags,
   resets, inspections that confirm and remember threats) leaves agent k's
   display, watcher (flag, streak, anergy) and tolerance record exactly as they
   were ... *)
Theorem c17_calls_about_other_agents_leave_agent_alone :
  forall pf rnd lg g ops w k,
    Forall (fun ka => fst ka <> k) ops -> w_agents (wfinal pf rnd lg g w ops) k = w_agents w k.
Proof. exact world_others_leave_agent. Qed.
Print Assumptions c17_calls_about_other_agents_leave_agent_alone.

(* ... and no call about agent j other than an explicit memory.store /
   import_signatures (in particular no inspection of j, however it ends) adds to
   what is remembered about another agent k: whatever is remembered about k with
   the hashes of p afterwards was remembered about k before *)
Theorem c17_calls_about_other_agents_remember_nothing_about_agent :
  forall pf rnd lg g w j a w' out k p,
    world_step pf rnd lg g w j a = (w', out) -> no_memory_edit a = true -> k <> j ->
    remembered_of k (w_mem w') p -> remembered_of k (w_mem w) p.
Proof. exact world_step_no_new_memory_of_others. Qed.
Print Assumptions c17_calls_about_other_agents_remember_nothing_about_agent.

(* the finite decision tables enumerated from the implementation on this run
   (TCell._determine_response over signal1 x signal2 x 0..4 violations x canary
   {None, 1/4, 1/2, 3/4}; can_suppress 4x4; _downgrade_action on the 5 actions)
   are the model's *)
Theorem c17_generated_tables_agree :
  tables_agree gen_response_table gen_suppress_table gen_downgrade_table = true.
Proof. exact Gen_C17_ok. Qed.
Print Assumptions c17_generated_tables_agree.
