(* C15 — deadlock detection agrees with the real wait-for relation.
   The controller, locks, dependency graph, detect_cycle (the recursive DFS,
   with fuel) and the watchdog are C14's model (C14/Model.v).  This file adds
   the history alphabet of the property and the REFERENCE wait-for relation as a
   ghost component next to the controller state.  Executable definitions only.

   READING.  W is "currently blocked on r" iff W's latest acquisition attempt on
   r returned BLOCKED, W has not obtained r since, W is still active and r has
   been owned ever since (possibly by a new owner after a preemption).  The
   reference relation has the edge  W -(r)-> owner(r)  for each such (W, r). *)
From Coq Require Import ZArith List Bool.
From Verif Require Import C14.Model.
Import ListNotations.
Open Scope Z_scope.

Inductive hop :=
| HStart (o p : Z)
| HAcquire (o r : Z)
| HRelease (o r : Z)
| HComplete (o : Z)
| HAbort (o : Z)
| HWatchdog.

Definition to_fop (h : hop) : fop :=
  match h with
  | HStart o p => FStart o p false
  | HAcquire o r => FAcquire o r
  | HRelease o r => FRelease o r
  | HComplete o => FComplete o
  | HAbort o => FAbort o
  | HWatchdog => FWatchdog
  end.

(* ghost: the (waiter, resource) pairs that are currently blocked *)
Definition waits := list (Z * Z).
Definition gstate := (st * waits)%type.

Definition owned (s : st) (r : Z) : bool :=
  match owner s r with Some _ => true | None => false end.

Definition rm_wait (ws : waits) (o r : Z) : waits :=
  filter (fun x => negb (pair_eqb x (o, r))) ws.

(* the attempt of this step: BLOCKED records the pair, obtaining the resource clears it *)
Definition note_attempt (fl : flags) (s : st) (h : hop) (ws : waits) : waits :=
  match h with
  | HAcquire o r =>
      if is_active s o then
        match acquire fl s o r with
        | (_, AOk LBlocked) => (o, r) :: rm_wait ws o r
        | (_, AOk _) => rm_wait ws o r
        | _ => ws
        end
      else ws
  | _ => ws
  end.

(* a blocked attempt is stale once the waiter ended or the resource became free *)
Definition still_blocked (s : st) (ws : waits) : waits :=
  filter (fun x => is_active s (fst x) && owned s (snd x)) ws.

Definition gstep (fl : flags) (w : wcfg) (gs : gstate) (h : hop) : gstate * list Z :=
  let '(s, ws) := gs in
  let '(s', ret) := fstep fl w s (to_fop h) in
  ((s', still_blocked s' (note_attempt fl s h ws)), ret).

Fixpoint grun (fl : flags) (w : wcfg) (gs : gstate) (hs : list hop) : gstate :=
  match hs with
  | [] => gs
  | h :: rest => grun fl w (fst (gstep fl w gs h)) rest
  end.

Definition ginit (res : list (Z * bool)) : gstate := (init_state res, []).

(* the reference wait-for relation: (waiter, owner of the resource, resource) *)
Definition ref_edges (gs : gstate) : list (Z * Z * Z) :=
  flat_map (fun x : Z * Z =>
              match owner (fst gs) (snd x) with
              | Some b => [(fst x, b, snd x)]
              | None => [] end) (snd gs).

(* the recorded relation, same shape *)
Definition rec_edges (s : st) : list (Z * Z * Z) :=
  flat_map (fun kv : Z * list (Z * Z) =>
              map (fun e : Z * Z => (fst kv, fst e, snd e)) (snd kv)) (edges s).

(* ------------------------------------------------------------------ *)
(* canonical observations                                               *)

Definition tri_leb (a b : Z * Z * Z) : bool :=
  let '(a1, a2, a3) := a in let '(b1, b2, b3) := b in
  Z.ltb a1 b1 || (Z.eqb a1 b1 && (Z.ltb a2 b2 || (Z.eqb a2 b2 && Z.leb a3 b3))).
Fixpoint tri_ins (x : Z * Z * Z) (l : list (Z * Z * Z)) : list (Z * Z * Z) :=
  match l with
  | [] => [x]
  | y :: l' => if tri_leb x y then x :: l else y :: tri_ins x l'
  end.
Definition tri_sort (l : list (Z * Z * Z)) : list (Z * Z * Z) := fold_right tri_ins [] l.
Definition tri_flat (l : list (Z * Z * Z)) : list Z :=
  flat_map (fun t : Z * Z * Z => let '(a, b, c) := t in [a; b; c]) l.

Fixpoint grun_obs (fl : flags) (w : wcfg) (gs : gstate) (hs : list hop) : list (list Z) :=
  match hs with
  | [] => []
  | h :: rest =>
      let '(gs', ret) := gstep fl w gs h in
      [100 :: ret] ++ obs_state (fst gs')
        ++ [201 :: tri_flat (tri_sort (rec_edges (fst gs')));
            204 :: tri_flat (tri_sort (ref_edges gs'))]
        ++ grun_obs fl w gs' rest
  end.

(* registered resources (id, allow_preemption), deadlock strategy, history *)
Definition case := (list (Z * bool) * strategy * list hop)%type.

Definition run_case_with (fl : flags) (c : case) : list (list Z) :=
  let '(res, strat, hs) := c in grun_obs fl (mkW None None None strat) (ginit res) hs.

Definition run_case (c : case) : list (list Z) := run_case_with current c.
