(* C15 — deadlock detection agrees with the real wait-for relation.
   The controller, locks, dependency graph, detect_cycle (the recursive DFS,
   with fuel) and the watchdog are C14's model (C14/Model.v).  This file adds
   the history alphabet of the property and the REFERENCE wait-for relation as a
   ghost component next to the controller state.  Executable definitions only.

   Priorities are not fixed for the life of an operation: priority.py
   (PriorityInheritance.check_and_boost / restore_priority / clear_all, the first
   also run by CoordinationSystem.run_maintenance right before the watchdog)
   rewrites OperationContext.priority, any caller may assign it, and
   ResourceLock.allow_preemption is a plain attribute.  None of these calls is an
   acquisition, so none of them may change the wait-for relation, but they decide
   what LATER acquisitions return (a waiter that was BLOCKED on r can come back
   and PREEMPT r).  They are the extended alphabet [xop] at the end of this file;
   PriorityInheritance.active_boosts is the third component of the state.

   Further public calls on the same objects are in the alphabet because they decide
   what a later Watchdog.execute does or are other ways to end an operation: the
   watchdog's three time-outs ([wcfg], part of a case) with time passing ([XTick]),
   controller.advance ([XAdvance]: G0 -> G1, where starvation is watched), a start
   with the watchdog_exempt mark ([HStartExempt]), CoordinationSystem.kill_operation
   ([HKill]), ResourceLock.pop_next_waiter ([XPopWaiter]).

   The remaining public operations of the controller / the system that release or end
   operations, or register resources, are in the alphabet as well:
   controller.release_all_resources on an operation that STAYS ALIVE ([XReleaseAll]: the
   bulk release behind complete / abort is itself public), CoordinationSystem.shutdown
   ([XShutdown]: every active operation aborted, then clear_all),
   CoordinationSystem.run_maintenance ([XMaintain]: check_and_boost, then the watchdog, as
   ONE call) and the registration of a further resource while the history runs
   ([XRegister]).

   READING.  W is "currently blocked on r" iff W's latest acquisition attempt on
   r returned BLOCKED, W has not obtained r since, W is still active and r has
   been owned ever since (possibly by a new owner after a preemption).  The
   reference relation has the edge  W -(r)-> owner(r)  for each such (W, r). *)
From Coq Require Import ZArith List Bool.
From Verif Require Import C14.Model.
Import ListNotations.
Open Scope Z_scope.

Inductive hop :=
| HStart (o p : Z)
| HAcquire (o r : Z)
| HRelease (o r : Z)
| HComplete (o : Z)
| HAbort (o : Z)
| HWatchdog
| HKill (o : Z)              (* CoordinationSystem.kill_operation / Watchdog.manual_kill: an abort through another entry point *)
| HStartExempt (o p : Z).    (* start_operation, then ctx.metadata["watchdog_exempt"] = True: no time-out applies to it *)

Definition to_fop (h : hop) : fop :=
  match h with
  | HStart o p => FStart o p false
  | HAcquire o r => FAcquire o r
  | HRelease o r => FRelease o r
  | HComplete o => FComplete o
  | HAbort o => FAbort o
  | HWatchdog => FWatchdog
  | HKill o => FKill o
  | HStartExempt o p => FStart o p true
  end.

(* ghost: the (waiter, resource) pairs that are currently blocked *)
Definition waits := list (Z * Z).
Definition gstate := (st * waits)%type.

Definition owned (s : st) (r : Z) : bool :=
  match owner s r with Some _ => true | None => false end.

Definition rm_wait (ws : waits) (o r : Z) : waits :=
  filter (fun x => negb (pair_eqb x (o, r))) ws.

(* the attempt of this step: BLOCKED records the pair, obtaining the resource clears it *)
Definition note_attempt (fl : flags) (s : st) (h : hop) (ws : waits) : waits :=
  match h with
  | HAcquire o r =>
      if is_active s o then
        match acquire fl s o r with
        | (_, AOk LBlocked) => (o, r) :: rm_wait ws o r
        | (_, AOk _) => rm_wait ws o r
        | _ => ws
        end
      else ws
  | _ => ws
  end.

(* a blocked attempt is stale once the waiter ended or the resource became free *)
Definition still_blocked (s : st) (ws : waits) : waits :=
  filter (fun x => is_active s (fst x) && owned s (snd x)) ws.

Definition gstep (fl : flags) (w : wcfg) (gs : gstate) (h : hop) : gstate * list Z :=
  let '(s, ws) := gs in
  let '(s', ret) := fstep fl w s (to_fop h) in
  ((s', still_blocked s' (note_attempt fl s h ws)), ret).

Fixpoint grun (fl : flags) (w : wcfg) (gs : gstate) (hs : list hop) : gstate :=
  match hs with
  | [] => gs
  | h :: rest => grun fl w (fst (gstep fl w gs h)) rest
  end.

Definition ginit (res : list (Z * bool)) : gstate := (init_state res, []).

(* the reference wait-for relation: (waiter, owner of the resource, resource) *)
Definition ref_edges (gs : gstate) : list (Z * Z * Z) :=
  flat_map (fun x : Z * Z =>
              match owner (fst gs) (snd x) with
              | Some b => [(fst x, b, snd x)]
              | None => [] end) (snd gs).

(* the recorded relation, same shape *)
Definition rec_edges (s : st) : list (Z * Z * Z) :=
  flat_map (fun kv : Z * list (Z * Z) =>
              map (fun e : Z * Z => (fst kv, fst e, snd e)) (snd kv)) (edges s).

(* ------------------------------------------------------------------ *)
(* canonical observations                                               *)

Definition tri_leb (a b : Z * Z * Z) : bool :=
  let '(a1, a2, a3) := a in let '(b1, b2, b3) := b in
  Z.ltb a1 b1 || (Z.eqb a1 b1 && (Z.ltb a2 b2 || (Z.eqb a2 b2 && Z.leb a3 b3))).
Fixpoint tri_ins (x : Z * Z * Z) (l : list (Z * Z * Z)) : list (Z * Z * Z) :=
  match l with
  | [] => [x]
  | y :: l' => if tri_leb x y then x :: l else y :: tri_ins x l'
  end.
Definition tri_sort (l : list (Z * Z * Z)) : list (Z * Z * Z) := fold_right tri_ins [] l.
Definition tri_flat (l : list (Z * Z * Z)) : list Z :=
  flat_map (fun t : Z * Z * Z => let '(a, b, c) := t in [a; b; c]) l.

Fixpoint grun_obs (fl : flags) (w : wcfg) (gs : gstate) (hs : list hop) : list (list Z) :=
  match hs with
  | [] => []
  | h :: rest =>
      let '(gs', ret) := gstep fl w gs h in
      [100 :: ret] ++ obs_state (fst gs')
        ++ [201 :: tri_flat (tri_sort (rec_edges (fst gs')));
            204 :: tri_flat (tri_sort (ref_edges gs'))]
        ++ grun_obs fl w gs' rest
  end.

(* ------------------------------------------------------------------ *)
(* priority.py and the other calls that change what a later acquisition
   returns without being an acquisition themselves                      *)

Definition c_set_prio (c : ctx) (p : Z) : ctx :=
  mkCtx p (c_phase c) (c_phase_at c) (c_acq c) (c_racq c) (c_exec c) (c_valid c) (c_created c) (c_exempt c).

Definition l_set_preempt (l : lock) (b : bool) : lock :=
  mkLock (l_owner l) (l_prio l) (l_hold l) b (l_wait l).

(* ctx.priority = p *)
Definition set_prio (s : st) (o p : Z) : st :=
  match get_ctx s o with Some c => put_ctx s o (c_set_prio c p) | None => s end.

(* controller.active_operations.get(o) *)
Definition active_ctx (s : st) (o : Z) : option ctx :=
  if is_active s o then get_ctx s o else None.

(* PriorityInheritance.active_boosts: operation -> (original_priority, boosted_priority),
   a dict in insertion order *)
Definition boosts := list (Z * (Z * Z)).

(* DependencyGraph.get_blocking_chain(agent)[1:]: follow the FIRST recorded edge
   until a node without edges or an already visited node.  [None] = out of fuel
   (excluded by c15_blocking_chain_fuel_suffices). *)
Fixpoint chain_walk (fuel : nat) (g : graph) (cur : Z) (visited : list Z) : option (list Z) :=
  match fuel with
  | O => None
  | S f =>
      match succs g cur with
      | [] => Some []
      | (b, _) :: _ =>
          if memz b visited then Some []
          else match chain_walk f g b (b :: visited) with
               | Some l => Some (b :: l)
               | None => None
               end
      end
  end.

Definition blocking_tail (g : graph) (a : Z) : option (list Z) :=
  chain_walk (S (length g)) g a [a].

(* the inner loop of check_and_boost over chain[1:] *)
Fixpoint boost_chain (s : st) (bs : boosts) (maxp : Z) (ch : list Z)
  : st * boosts * list (Z * Z * Z) :=
  match ch with
  | [] => (s, bs, [])
  | o :: rest =>
      match active_ctx s o with
      | None => boost_chain s bs maxp rest
      | Some c =>
          if Z.ltb (c_prio c) maxp then
            let orig := match aget bs o with Some ob => fst ob | None => c_prio c end in
            let '(s2, bs2, nb) :=
              boost_chain (put_ctx s o (c_set_prio c maxp)) (aset bs o (orig, maxp)) maxp rest in
            (s2, bs2, (o, orig, maxp) :: nb)
          else boost_chain s bs (Z.max maxp (c_prio c)) rest
      end
  end.

(* the outer loop: for waiter_id in list(graph.edges.keys()) *)
Fixpoint boost_waiters (g : graph) (keys : list Z) (s : st) (bs : boosts)
  : option (st * boosts * list (Z * Z * Z)) :=
  match keys with
  | [] => Some (s, bs, [])
  | wt :: rest =>
      match active_ctx s wt with
      | None => boost_waiters g rest s bs
      | Some c =>
          match blocking_tail g wt with
          | None => None
          | Some ch =>
              let '(s1, bs1, nb1) := boost_chain s bs (c_prio c) ch in
              match boost_waiters g rest s1 bs1 with
              | Some (s2, bs2, nb2) => Some (s2, bs2, nb1 ++ nb2)
              | None => None
              end
          end
      end
  end.

(* PriorityInheritance.check_and_boost(controller) -> new boosts (operation, original, boosted) *)
Definition check_and_boost (s : st) (bs : boosts) : option (st * boosts * list (Z * Z * Z)) :=
  boost_waiters (edges s) (map fst (edges s)) s bs.

(* PriorityInheritance.clear_all(controller): restore every boosted operation that is still active *)
Definition clear_boosts (s : st) (bs : boosts) : st :=
  fold_left (fun s (kv : Z * (Z * Z)) =>
               if is_active s (fst kv) then set_prio s (fst kv) (fst (snd kv)) else s) bs s.

Inductive xop :=
| XHop (h : hop)
| XBoost                          (* priority_manager.check_and_boost(controller) *)
| XRestore (o : Z)                (* ctx = active_operations.get(o); priority_manager.restore_priority(ctx) *)
| XClearBoosts                    (* priority_manager.clear_all(controller) *)
| XSetPrio (o p : Z)              (* active_operations.get(o).priority = p *)
| XSetPreempt (r : Z) (b : bool)  (* controller.resources[r].allow_preemption = b *)
(* other public calls on the same objects that are no acquisition / release / end of an operation:
   they decide what a later Watchdog.execute does (time-outs), never the wait-for relation *)
| XTick (d : Z)                   (* d seconds pass *)
| XAdvance (o : Z)                (* ctx = active_operations.get(o); controller.advance(ctx) (default checkpoints) *)
| XPopWaiter (r : Z)              (* controller.resources[r].pop_next_waiter() *)
(* the remaining public calls that RELEASE or END: they do change the wait-for relation *)
| XReleaseAll (o : Z)             (* ctx = active_operations.get(o); controller.release_all_resources(ctx) -
                                     the operation stays alive *)
| XShutdown                       (* system.shutdown(): abort every active operation, then priority_manager.clear_all *)
| XMaintain                       (* system.run_maintenance(): check_and_boost, then watchdog.execute *)
(* a resource registered while the history runs (an id that is not registered yet) *)
| XRegister (r : Z) (b : bool).   (* system.register_resource(r, allow_preemption=b) *)

Definition xstate := (gstate * boosts)%type.

(* a step-API call of C14's model that leaves the ghost relation alone *)
Definition xfop (fl : flags) (w : wcfg) (xs : xstate) (a : fop) : xstate * list Z :=
  let '(gs, bs) := xs in
  let '(s, ws) := gs in
  let '(s', ret) := fstep fl w s a in (((s', ws), bs), ret).

(* [-1] = the driver did not make the call (operation not active / resource not registered);
   [-7] = out of fuel *)
Definition xstep (fl : flags) (w : wcfg) (xs : xstate) (a : xop) : xstate * list Z :=
  let '(gs, bs) := xs in
  let '(s, ws) := gs in
  match a with
  | XHop h => let '(gs', ret) := gstep fl w gs h in ((gs', bs), ret)
  | XBoost =>
      match check_and_boost s bs with
      | Some (s', bs', nb) => (((s', ws), bs'), tri_flat nb)
      | None => (xs, [-7])
      end
  | XRestore o =>
      if is_active s o then
        match aget bs o with
        | Some ob => (((set_prio s o (fst ob), ws), adel bs o), [1; fst ob])
        | None => (xs, [0])
        end
      else (xs, [-1])
  | XClearBoosts => (((clear_boosts s bs, ws), []), [Z.of_nat (length bs)])
  | XSetPrio o p => if is_active s o then (((set_prio s o p, ws), bs), [0]) else (xs, [-1])
  | XSetPreempt r b =>
      match get_lock s r with
      | Some l => (((put_lock s r (l_set_preempt l b), ws), bs), [0])
      | None => (xs, [-1])
      end
  | XTick d => xfop fl w xs (FTick d)
  | XAdvance o => xfop fl w xs (FAdvance o)
  | XPopWaiter r => xfop fl w xs (FPopWaiter r)
  | XReleaseAll o =>
      if is_active s o then
        let s' := release_all fl s o in (((s', still_blocked s' ws), bs), [0])
      else (xs, [-1])
  | XShutdown =>
      let s1 := shutdown fl s in
      let s' := clear_boosts s1 bs in
      (((s', still_blocked s' ws), []), [0])
  | XMaintain =>
      (* [number of new boosts; (operation, original, boosted)*; (operation, reason)*] *)
      match check_and_boost s bs with
      | Some (s1, bs1, nb) =>
          let '(gs', ret) := gstep fl w (s1, ws) HWatchdog in
          ((gs', bs1), Z.of_nat (length nb) :: tri_flat nb ++ ret)
      | None => (xs, [-7])
      end
  | XRegister r b =>
      match get_lock s r with
      | Some _ => (xs, [-1])      (* the driver registers an id once *)
      | None => (((put_lock s r (mkLock None 0 0 b []), ws), bs), [0])
      end
  end.

Fixpoint xrun (fl : flags) (w : wcfg) (xs : xstate) (hs : list xop) : xstate :=
  match hs with
  | [] => xs
  | a :: rest => xrun fl w (fst (xstep fl w xs a)) rest
  end.

Definition xinit (res : list (Z * bool)) : xstate := (ginit res, []).

(* the current priority of every active operation, the active boosts, the preemption flags *)
Definition obs_prio (xs : xstate) : list (list Z) :=
  let s := fst (fst xs) in
  [205 :: flat_map (fun o => [o; prio_of s o]) (active s);
   206 :: flat_map (fun kv : Z * (Z * Z) => [fst kv; fst (snd kv); snd (snd kv)]) (snd xs);
   207 :: flat_map (fun rl : Z * lock => [fst rl; b2z (l_preempt (snd rl))]) (resources s)].

Fixpoint xrun_obs (fl : flags) (w : wcfg) (xs : xstate) (hs : list xop) : list (list Z) :=
  match hs with
  | [] => []
  | a :: rest =>
      let '(xs', ret) := xstep fl w xs a in
      [100 :: ret] ++ obs_state (fst (fst xs'))
        ++ [201 :: tri_flat (tri_sort (rec_edges (fst (fst xs'))));
            204 :: tri_flat (tri_sort (ref_edges (fst xs')))]
        ++ obs_prio xs'
        ++ xrun_obs fl w xs' rest
  end.

(* registered resources (id, allow_preemption), watchdog configuration (the three time-outs and the
   deadlock strategy), history *)
Definition case := (list (Z * bool) * wcfg * list xop)%type.

Definition run_case_with (fl : flags) (c : case) : list (list Z) :=
  let '(res, w, hs) := c in xrun_obs fl w (xinit res) hs.

Definition run_case (c : case) : list (list Z) := run_case_with current c.
