(* C15 — non-vacuity examples and refutations of the pre-repair behaviours *)
From Coq Require Import ZArith List Bool.
From Verif Require Import C14.Model C14.Proofs C15.Model C15.Proofs.
Import ListNotations.
Open Scope Z_scope.

Definition res3 : list (Z * bool) := [(1, false); (2, false); (3, true)].
Definition wprio : wcfg := mkW None None None SPriority.
Definition l_prio_of (xs : xstate) (r : Z) : Z :=
  match get_lock (fst (fst xs)) r with Some l => l_prio l | None => -1 end.

(* a three-party deadlock: op i holds r i and waits for r (i+1) *)
Definition hist_ring : list hop :=
  [HStart 1 2; HStart 2 1; HStart 3 1;
   HAcquire 1 1; HAcquire 2 2; HAcquire 3 3;
   HAcquire 1 2; HAcquire 2 3; HAcquire 3 1].
Definition gs_ring : gstate := grun current wprio (ginit res3) hist_ring.

Example ex_ring_edges :
  rec_edges (fst gs_ring) = [(1, 2, 2); (2, 3, 3); (3, 1, 1)] /\
  ref_edges gs_ring = [(3, 1, 1); (2, 3, 3); (1, 2, 2)] /\
  detect_cycle (edges (fst gs_ring)) = Some [1; 2; 3].
Proof. vm_compute. auto. Qed.

(* the victim is the FIRST member with the lowest priority (op2, not op3);
   afterwards it owns nothing and no deadlock is left *)
Example ex_ring_victim :
  let gs' := fst (gstep current wprio gs_ring HWatchdog) in
  select_victim wprio (fst gs_ring) [1; 2; 3] = Some 2 /\
  snd (gstep current wprio gs_ring HWatchdog) = [2; 3] /\
  owner (fst gs') 2 = None /\ active (fst gs') = [1; 3] /\
  rec_edges (fst gs') = [(3, 1, 1)] /\ ref_edges gs' = [(3, 1, 1)] /\
  detect_cycle (edges (fst gs')) = None.
Proof. vm_compute. auto 10. Qed.

(* preemption retargets the waiters of the resource; a full release clears them *)
Example ex_preempt_retarget :
  let hs := [HStart 1 0; HStart 2 0; HStart 3 5; HAcquire 1 3; HAcquire 2 3; HAcquire 3 3] in
  let gs := grun current wprio (ginit res3) hs in
  rec_edges (fst gs) = [(2, 3, 3)] /\ ref_edges gs = [(2, 3, 3)] /\
  let gs2 := grun current wprio gs [HRelease 3 3] in
  rec_edges (fst gs2) = [] /\ ref_edges gs2 = [] /\ snd gs2 = [].
Proof. vm_compute. auto 10. Qed.

(* ---- priorities that change during the history ---- *)
Definition res_pi : list (Z * bool) := [(1, false); (2, true)].

(* O = op1 (priority 4) owns the preemptable r2; H = op2 (3) owns r1 and is BLOCKED on r2;
   W = op3 (5) is BLOCKED on r1.  check_and_boost raises H and O to 5 along W -> H -> O. *)
Definition hist_inversion : list xop :=
  map XHop [HStart 1 4; HStart 2 3; HStart 3 5;
            HAcquire 1 2; HAcquire 2 1; HAcquire 2 2; HAcquire 3 1].
Definition xs_inversion : xstate := xrun current wprio (xinit res_pi) hist_inversion.

Example ex_inversion_boost :
  rec_edges (fst (fst xs_inversion)) = [(2, 1, 2); (3, 2, 1)] /\
  snd (xstep current wprio xs_inversion XBoost) = [2; 3; 5; 1; 4; 5] /\
  let xs1 := fst (xstep current wprio xs_inversion XBoost) in
  snd xs1 = [(2, (3, 5)); (1, (4, 5))] /\
  prio_of (fst (fst xs1)) 2 = 5 /\ l_prio_of xs1 2 = 4 /\
  rec_edges (fst (fst xs1)) = [(2, 1, 2); (3, 2, 1)] /\ ref_edges (fst xs1) = ref_edges (fst xs_inversion).
Proof. vm_compute. auto 10. Qed.

(* H retries r2 with the inherited priority: PREEMPTED (code 3) although it was recorded as a
   waiter of r2; afterwards only W waits (for H), H waits for nothing, no deadlock is reported
   and the watchdog kills nobody  (non-vacuity of c15_obtained_not_waiting / c15_no_self_wait) *)
Example ex_former_waiter_preempts :
  let xs1 := fst (xstep current wprio xs_inversion XBoost) in
  In (2, 2) (snd (fst xs1)) /\
  snd (xstep current wprio xs1 (XHop (HAcquire 2 2))) = [3] /\
  let xs2 := fst (xstep current wprio xs1 (XHop (HAcquire 2 2))) in
  owner (fst (fst xs2)) 1 = Some 2 /\ owner (fst (fst xs2)) 2 = Some 2 /\
  rec_edges (fst (fst xs2)) = [(3, 2, 1)] /\ ref_edges (fst xs2) = [(3, 2, 1)] /\
  detect_cycle (edges (fst (fst xs2))) = None /\
  snd (xstep current wprio xs2 (XHop HWatchdog)) = [] /\
  (* restore_priority gives H its own priority back; the relation does not move *)
  snd (xstep current wprio xs2 (XRestore 2)) = [1; 3] /\
  let xs3 := fst (xstep current wprio xs2 (XRestore 2)) in
  prio_of (fst (fst xs3)) 2 = 3 /\ snd xs3 = [(1, (4, 5))] /\ rec_edges (fst (fst xs3)) = [(3, 2, 1)].
Proof. vm_compute. auto 20. Qed.

(* the same through a plain assignment, and through allow_preemption switched on later *)
Example ex_setprio_and_setpreempt :
  let hs := map XHop [HStart 1 0; HStart 2 1; HAcquire 2 1; HAcquire 1 1] in
  let xs := xrun current wprio (xinit [(1, true); (2, false)]) hs in
  rec_edges (fst (fst xs)) = [(1, 2, 1)] /\
  let xs' := xrun current wprio xs [XSetPrio 1 2; XHop (HAcquire 1 1)] in
  owner (fst (fst xs')) 1 = Some 1 /\ rec_edges (fst (fst xs')) = [] /\ snd (fst xs') = [] /\
  let ys := xrun current wprio (xinit [(1, false)]) (map XHop [HStart 1 2; HStart 2 1; HAcquire 2 1; HAcquire 1 1]) in
  rec_edges (fst (fst ys)) = [(1, 2, 1)] /\
  let ys' := xrun current wprio ys [XSetPreempt 1 true; XHop (HAcquire 1 1)] in
  owner (fst (fst ys')) 1 = Some 1 /\ rec_edges (fst (fst ys')) = [].
Proof. vm_compute. auto 10. Qed.

(* a deadlock whose members were boosted: the victim is chosen by the priorities as they are then *)
Example ex_victim_after_boost :
  let hs := map XHop [HStart 1 0; HStart 2 1; HStart 3 7; HAcquire 1 1; HAcquire 2 2; HAcquire 1 2; HAcquire 2 1;
                      HAcquire 3 1] ++ [XBoost] in
  let xs := xrun current wprio (xinit [(1, false); (2, false)]) hs in
  detect_cycle (edges (fst (fst xs))) = Some [1; 2] /\
  prio_of (fst (fst xs)) 1 = 7 /\ prio_of (fst (fst xs)) 2 = 7 /\
  snd (xstep current wprio xs (XHop HWatchdog)) = [1; 3].
Proof. vm_compute. auto. Qed.

(* ---- time-outs configured: the watchdog pass that handles a deadlock also reaps overdue operations ---- *)
(* max_operation_time = 2 s; op1 (started at 0) and op2 (started at 3) deadlock; at time 4 only op1 is
   overdue.  Strategy "oldest": the victim IS op1 - it is terminated as TIMEOUT (code 0), no DEADLOCK
   event is added, it owns nothing afterwards and the cycle is gone.  With op1 exempt from time-outs it
   is still the deadlock victim (code 3). *)
Definition wmax2 : wcfg := mkW (Some 2) None None SOldest.
Example ex_victim_already_overdue :
  let hs s1 := [XHop s1; XTick 3; XHop (HStart 2 0); XHop (HAcquire 1 1); XHop (HAcquire 2 2);
                XHop (HAcquire 1 2); XHop (HAcquire 2 1); XTick 1] in
  let xs := xrun current wmax2 (xinit [(1, false); (2, false)]) (hs (HStart 1 5)) in
  detect_cycle (edges (fst (fst xs))) = Some [1; 2] /\
  select_victim wmax2 (fst (fst xs)) [1; 2] = Some 1 /\
  snd (xstep current wmax2 xs (XHop HWatchdog)) = [1; 0] /\
  let xs' := fst (xstep current wmax2 xs (XHop HWatchdog)) in
  active (fst (fst xs')) = [2] /\ owner (fst (fst xs')) 1 = None /\ rec_edges (fst (fst xs')) = [] /\
  let ys := xrun current wmax2 (xinit [(1, false); (2, false)]) (hs (HStartExempt 1 5)) in
  snd (xstep current wmax2 ys (XHop HWatchdog)) = [1; 3].
Proof. vm_compute. auto 10. Qed.

(* starvation: op2 advanced to G1 and blocked for longer than starvation_timeout is reaped; the
   wait-for edge goes with it; advance / tick / pop_next_waiter themselves never touch the relation *)
Example ex_starvation_and_quiet_calls :
  let w := mkW None (Some 1) None SPriority in
  let xs := xrun current w (xinit [(1, false)])
              [XHop (HStart 1 0); XHop (HStart 2 0); XHop (HAcquire 1 1); XAdvance 2; XHop (HAcquire 2 1)] in
  rec_edges (fst (fst xs)) = [(2, 1, 1)] /\
  let xs1 := xrun current w xs [XTick 2; XAdvance 1; XPopWaiter 1] in
  rec_edges (fst (fst xs1)) = [(2, 1, 1)] /\ ref_edges (fst xs1) = [(2, 1, 1)] /\
  snd (xstep current w xs (XPopWaiter 1)) = [1; 2; 0] /\
  snd (xstep current w xs1 (XHop HWatchdog)) = [2; 1] /\
  rec_edges (fst (fst (fst (xstep current w xs1 (XHop HWatchdog))))) = [] /\
  snd (xstep current w xs1 (XHop (HKill 1))) = [1] /\
  ref_edges (fst (fst (xstep current w xs1 (XHop (HKill 1))))) = [].
Proof. vm_compute. auto 10. Qed.

(* ------------------------------------------------------------------ *)
(* before e0df91f a successful acquisition by X dropped the edges of operations
   still waiting on X: a real two-party deadlock was not reported *)
Lemma c15_legacy_graph_missed_deadlock_refuted :
  exists res w hs,
    let gs := grun (mkF false true false) w (ginit res) hs in
    (exists c, is_rcycle (ref_graph_edge gs) c) /\ detect_cycle (edges (fst gs)) = None.
Proof.
  exists res3, wprio,
    [HStart 1 0; HStart 2 0; HAcquire 1 1; HAcquire 2 2; HAcquire 2 1; HAcquire 1 3; HAcquire 1 2].
  split; [|reflexivity].
  exists [1; 2]. unfold is_rcycle, ref_graph_edge. simpl app. cbn [rchain].
  split; [exists 2 | split; [exists 1 | exact I]]; vm_compute; auto.
Qed.

(* before b431062 a partial release forgot the resource: after the owner's abort
   the waiter still waits (the lock is owned by a dead operation) but its edge is gone *)
Lemma c15_legacy_partial_release_refuted :
  exists res w hs,
    let gs := grun (mkF false false true) w (ginit res) hs in
    exists t, In t (ref_edges gs) /\ ~ In t (rec_edges (fst gs)).
Proof.
  exists [(1, false)], wprio,
    [HStart 1 0; HStart 2 0; HAcquire 1 1; HAcquire 1 1; HRelease 1 1; HAcquire 2 1; HAbort 1].
  exists (2, 1, 1). vm_compute. split; [auto | tauto].
Qed.

(* ---- the other public calls that release or end operations ---- *)
Definition res2 : list (Z * bool) := [(1, false); (2, false)].

(* op1 owns r1, op2 owns r2 and is BLOCKED on r1.  op1 gives everything back through
   release_all_resources and stays alive: nobody waits on it any more.  It then blocks on r2: the
   only wait is op1 -> op2, no deadlock (non-vacuity of c15_release_all_of_live_operation) *)
Definition hist_bulk : list xop :=
  map XHop [HStart 1 1; HStart 2 2; HAcquire 1 1; HAcquire 2 2; HAcquire 2 1].
Definition xs_bulk : xstate := xrun current wprio (xinit res2) hist_bulk.

Example ex_release_all_live :
  In 1 (active (fst (fst xs_bulk))) /\
  rec_edges (fst (fst xs_bulk)) = [(2, 1, 1)] /\
  snd (xstep current wprio xs_bulk (XReleaseAll 1)) = [0] /\
  let xs1 := fst (xstep current wprio xs_bulk (XReleaseAll 1)) in
  active (fst (fst xs1)) = [1; 2] /\ owner (fst (fst xs1)) 1 = None /\ owner (fst (fst xs1)) 2 = Some 2 /\
  rec_edges (fst (fst xs1)) = [] /\ ref_edges (fst xs1) = [] /\
  snd (xstep current wprio xs1 (XHop (HAcquire 1 2))) = [1] /\
  let xs2 := fst (xstep current wprio xs1 (XHop (HAcquire 1 2))) in
  rec_edges (fst (fst xs2)) = [(1, 2, 2)] /\ ref_edges (fst xs2) = [(1, 2, 2)] /\
  detect_cycle (edges (fst (fst xs2))) = None /\
  (* re-entrant holds are dropped too; the releaser's own wait survives *)
  let hs3 := map XHop [HStart 1 1; HStart 2 2; HAcquire 1 1; HAcquire 1 1; HAcquire 2 2; HAcquire 2 1; HAcquire 1 2] in
  let xs3 := xrun current wprio (xinit res2) (hs3 ++ [XReleaseAll 1]) in
  owner (fst (fst xs3)) 1 = None /\ rec_edges (fst (fst xs3)) = [(1, 2, 2)] /\ ref_edges (fst xs3) = [(1, 2, 2)] /\
  detect_cycle (edges (fst (fst (xrun current wprio (xinit res2) hs3)))) = Some [2; 1].
Proof. vm_compute. auto 20. Qed.

(* shutdown in the three-party deadlock, with a boost outstanding *)
Example ex_shutdown_clears :
  let xs := xrun current wprio (xinit res3) (map XHop hist_ring ++ [XBoost]) in
  snd xs <> [] /\ detect_cycle (edges (fst (fst xs))) = Some [1; 2; 3] /\
  let xs' := fst (xstep current wprio xs XShutdown) in
  active (fst (fst xs')) = [] /\ rec_edges (fst (fst xs')) = [] /\ snd (fst xs') = [] /\ snd xs' = [] /\
  detect_cycle (edges (fst (fst xs'))) = None /\
  map (fun rl : Z * lock => l_owner (snd rl)) (resources (fst (fst xs'))) = [None; None; None].
Proof. vm_compute. repeat split; auto; discriminate. Qed.

(* run_maintenance in the ring: op2 and op3 (priority 1) inherit 2 from op1, then the watchdog
   finds all keys equal and takes the FIRST member, op1 - not op2 as without the boost
   (ex_ring_victim): the keys are the priorities at the moment of the pass *)
Example ex_maintenance :
  let xs := xrun current wprio (xinit res3) (map XHop hist_ring) in
  snd (xstep current wprio xs XMaintain) = [2; 2; 1; 2; 3; 1; 2; 1; 3] /\
  let xs' := fst (xstep current wprio xs XMaintain) in
  active (fst (fst xs')) = [2; 3] /\ rec_edges (fst (fst xs')) = [(2, 3, 3)] /\
  ref_edges (fst xs') = [(2, 3, 3)] /\ detect_cycle (edges (fst (fst xs'))) = None /\
  xs' = fst (xstep current wprio (fst (xstep current wprio xs XBoost)) (XHop HWatchdog)).
Proof. vm_compute. auto 10. Qed.

(* a resource registered while the history runs: unknown (code 9) before, acquired after;
   registering changes no relation (prio_call) *)
Example ex_register_late :
  prio_call (XRegister 3 true) /\
  snd (xstep current wprio xs_bulk (XHop (HAcquire 2 3))) = [9] /\
  snd (xstep current wprio xs_bulk (XRegister 3 true)) = [0] /\
  snd (xstep current wprio xs_bulk (XRegister 2 true)) = [-1] /\
  let xs1 := fst (xstep current wprio xs_bulk (XRegister 3 true)) in
  rec_edges (fst (fst xs1)) = [(2, 1, 1)] /\
  snd (xstep current wprio xs1 (XHop (HAcquire 2 3))) = [0].
Proof. vm_compute. auto 10. Qed.
