(* C15 — non-vacuity examples and refutations of the pre-repair behaviours *)
From Coq Require Import ZArith List Bool.
From Verif Require Import C14.Model C14.Proofs C15.Model C15.Proofs.
Import ListNotations.
Open Scope Z_scope.

Definition res3 : list (Z * bool) := [(1, false); (2, false); (3, true)].
Definition wprio : wcfg := mkW None None None SPriority.

(* a three-party deadlock: op i holds r i and waits for r (i+1) *)
Definition hist_ring : list hop :=
  [HStart 1 2; HStart 2 1; HStart 3 1;
   HAcquire 1 1; HAcquire 2 2; HAcquire 3 3;
   HAcquire 1 2; HAcquire 2 3; HAcquire 3 1].
Definition gs_ring : gstate := grun current wprio (ginit res3) hist_ring.

Example ex_ring_edges :
  rec_edges (fst gs_ring) = [(1, 2, 2); (2, 3, 3); (3, 1, 1)] /\
  ref_edges gs_ring = [(3, 1, 1); (2, 3, 3); (1, 2, 2)] /\
  detect_cycle (edges (fst gs_ring)) = Some [1; 2; 3].
Proof. vm_compute. auto. Qed.

(* the victim is the FIRST member with the lowest priority (op2, not op3);
   afterwards it owns nothing and no deadlock is left *)
Example ex_ring_victim :
  let gs' := fst (gstep current wprio gs_ring HWatchdog) in
  select_victim wprio (fst gs_ring) [1; 2; 3] = Some 2 /\
  snd (gstep current wprio gs_ring HWatchdog) = [2; 3] /\
  owner (fst gs') 2 = None /\ active (fst gs') = [1; 3] /\
  rec_edges (fst gs') = [(3, 1, 1)] /\ ref_edges gs' = [(3, 1, 1)] /\
  detect_cycle (edges (fst gs')) = None.
Proof. vm_compute. auto 10. Qed.

(* preemption retargets the waiters of the resource; a full release clears them *)
Example ex_preempt_retarget :
  let hs := [HStart 1 0; HStart 2 0; HStart 3 5; HAcquire 1 3; HAcquire 2 3; HAcquire 3 3] in
  let gs := grun current wprio (ginit res3) hs in
  rec_edges (fst gs) = [(2, 3, 3)] /\ ref_edges gs = [(2, 3, 3)] /\
  let gs2 := grun current wprio gs [HRelease 3 3] in
  rec_edges (fst gs2) = [] /\ ref_edges gs2 = [] /\ snd gs2 = [].
Proof. vm_compute. auto 10. Qed.

(* ------------------------------------------------------------------ *)
(* before e0df91f a successful acquisition by X dropped the edges of operations
   still waiting on X: a real two-party deadlock was not reported *)
Lemma c15_legacy_graph_missed_deadlock_refuted :
  exists res w hs,
    let gs := grun (mkF false true false) w (ginit res) hs in
    (exists c, is_rcycle (ref_graph_edge gs) c) /\ detect_cycle (edges (fst gs)) = None.
Proof.
  exists res3, wprio,
    [HStart 1 0; HStart 2 0; HAcquire 1 1; HAcquire 2 2; HAcquire 2 1; HAcquire 1 3; HAcquire 1 2].
  split; [|reflexivity].
  exists [1; 2]. unfold is_rcycle, ref_graph_edge. simpl app. cbn [rchain].
  split; [exists 2 | split; [exists 1 | exact I]]; vm_compute; auto.
Qed.

(* before b431062 a partial release forgot the resource: after the owner's abort
   the waiter still waits (the lock is owned by a dead operation) but its edge is gone *)
Lemma c15_legacy_partial_release_refuted :
  exists res w hs,
    let gs := grun (mkF false false true) w (ginit res) hs in
    exists t, In t (ref_edges gs) /\ ~ In t (rec_edges (fst gs)).
Proof.
  exists [(1, false)], wprio,
    [HStart 1 0; HStart 2 0; HAcquire 1 1; HAcquire 1 1; HRelease 1 1; HAcquire 2 1; HAbort 1].
  exists (2, 1, 1). vm_compute. split; [auto | tauto].
Qed.
