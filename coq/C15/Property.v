(* C15 — property theorems only.  Each is closed by [exact] of a lemma from
   Proofs.v and followed by Print Assumptions.

   Histories [hs] are lists over {start (also with the watchdog_exempt mark),
   acquire, release, complete, abort, manual kill, watchdog.execute} ([XHop])
   interleaved with the calls that change what a later acquisition or watchdog
   pass does without being one: PriorityInheritance.check_and_boost /
   restore_priority / clear_all, an assignment to OperationContext.priority, an
   assignment to ResourceLock.allow_preemption, time passing, controller.advance,
   ResourceLock.pop_next_waiter, and with the remaining public calls that release or end
   operations or register resources: controller.release_all_resources on an operation that
   stays alive, CoordinationSystem.shutdown, CoordinationSystem.run_maintenance, the
   registration of a further resource ([xop] in Model.v) - of ANY length
   over any number of operations and resources ([res] = registered resources with
   their initial allow_preemption flag, [w] = the watchdog configuration: the three
   time-outs and the victim strategy).  [fst (xrun current w (xinit res) hs)] is the pair (controller
   state, ghost set of currently blocked (waiter, resource) pairs) after the
   history (its second component is PriorityInheritance.active_boosts);
   histories over the basic alphabet are the special case [map XHop hs]
   (c15_basic_histories_embed); [rec_edges] are the triples (waiter, blocking,
   resource) recorded in DependencyGraph.edges, [ref_edges] the reference
   wait-for relation  { (W, owner(r), r) | (W, r) currently blocked }  of the
   READING in Model.v. *)
From Coq Require Import ZArith List Bool.
From Verif Require Import C14.Model C14.Proofs C15.Model C15.Proofs.
Import ListNotations.
Open Scope Z_scope.

(* the recorded dependency edges are exactly the reference wait-for relation,
   in every reachable state *)
Theorem c15_edges_exact :
  forall res w hs,
    let gs := fst (xrun current w (xinit res) hs) in
    forall wt b r, In (wt, b, r) (rec_edges (fst gs)) <-> In (wt, b, r) (ref_edges gs).
Proof. exact x_edges_exact_proof. Qed.
Print Assumptions c15_edges_exact.

(* what "currently blocked" means in every reachable state: the waiter is a
   live operation, the resource is owned by ANOTHER live operation *)
Theorem c15_blocked_are_live :
  forall res w hs,
    let gs := fst (xrun current w (xinit res) hs) in
    forall wt r, In (wt, r) (snd gs) ->
      In wt (active (fst gs)) /\
      exists b, owner (fst gs) r = Some b /\ b <> wt /\ In b (active (fst gs)).
Proof. exact x_blocked_live_proof. Qed.
Print Assumptions c15_blocked_are_live.

(* the DFS never runs out of its fuel (|nodes| + 1), on any graph *)
Theorem c15_detect_fuel_suffices : forall g, detect g <> DOutOfFuel.
Proof. exact detect_fuel_proof. Qed.
Print Assumptions c15_detect_fuel_suffices.

(* a reported cycle x1 .. xn is a real cycle of the recorded edges:
   x1 -> x2 -> ... -> xn -> x1, without repetitions — on any graph *)
Theorem c15_cycle_sound :
  forall g c, detect_cycle g = Some c -> is_cycle g c /\ NoDup c.
Proof. exact cycle_sound_proof. Qed.
Print Assumptions c15_cycle_sound.

(* if the recorded edges contain a cycle, detect_cycle reports one — on any graph *)
Theorem c15_cycle_complete :
  forall g, (exists c, is_cycle g c) -> detect_cycle g <> None.
Proof. exact cycle_complete_proof. Qed.
Print Assumptions c15_cycle_complete.

(* together: in every reachable state check_deadlock() reports a cycle exactly
   when the REFERENCE wait-for relation has one, and the reported cycle is a
   cycle of the reference relation whose members are live operations that
   really wait on a resource owned by another live operation *)
Theorem c15_deadlock_iff_reference_cycle :
  forall res w hs,
    let gs := fst (xrun current w (xinit res) hs) in
    (detect_cycle (edges (fst gs)) <> None <-> exists c, is_rcycle (ref_graph_edge gs) c) /\
    (forall c, detect_cycle (edges (fst gs)) = Some c ->
       is_rcycle (ref_graph_edge gs) c /\ NoDup c /\
       forall m, In m c ->
         In m (active (fst gs)) /\
         exists r b, In (m, r) (snd gs) /\ owner (fst gs) r = Some b /\ b <> m /\ In b (active (fst gs))).
Proof. exact x_deadlock_iff_reference_proof. Qed.
Print Assumptions c15_deadlock_iff_reference_cycle.

(* Watchdog.execute on a reported deadlock c = l1 ++ v :: l2: the victim v is a
   member, it is the FIRST member with the smallest key (priority for strategy
   "priority", created_at for "oldest"; the first member for any other
   strategy), it is among the terminated operations, afterwards it is not
   active, owns nothing, c is no longer a cycle of the recorded edges, and the
   edges are again exactly the reference relation ([Inv]).  The keys are the
   priorities as they are at that moment (after any inheritance boost).  With
   time-outs configured the same pass may terminate further operations, and the
   victim itself may be terminated as overdue instead of as DEADLOCK victim: it is
   terminated either way. *)
Theorem c15_victim_minimal_and_released :
  forall res w hs c,
    let gs := fst (xrun current w (xinit res) hs) in
    detect_cycle (edges (fst gs)) = Some c ->
    let s := fst gs in
    let gs' := fst (gstep current w gs HWatchdog) in
    exists v l1 l2,
      select_victim w s c = Some v /\ c = l1 ++ v :: l2 /\ In v (active s) /\
      match victim_key w s with
      | Some key => (forall m, In m l1 -> key v < key m) /\ (forall m, In m l2 -> key v <= key m)
      | None => l1 = []
      end /\
      In v (map fst (snd (wd_execute current w s))) /\
      ~ In v (active (fst gs')) /\ (forall r, owner (fst gs') r <> Some v) /\
      ~ is_cycle (edges (fst gs')) c /\ Inv gs'.
Proof. exact x_victim_reachable_proof. Qed.
Print Assumptions c15_victim_minimal_and_released.

(* ---- priorities that change during the history ---- *)

(* nobody is ever recorded as waiting for itself *)
Theorem c15_no_self_wait :
  forall res w hs,
    let gs := fst (xrun current w (xinit res) hs) in
    forall wt r, ~ In (wt, wt, r) (rec_edges (fst gs)).
Proof. exact x_no_self_wait_proof. Qed.
Print Assumptions c15_no_self_wait.

(* an acquisition that returns ACQUIRED, REENTRANT or PREEMPTED (return codes 0, 2, 3) ends
   the operation's wait for that resource, in the reference relation and in the recorded
   edges - also when the operation had been BLOCKED on it before and comes back with a
   higher (inherited) priority *)
Theorem c15_obtained_not_waiting :
  forall res w hs o r,
    let xs := xrun current w (xinit res) hs in
    let xs' := fst (xstep current w xs (XHop (HAcquire o r))) in
    let ret := snd (xstep current w xs (XHop (HAcquire o r))) in
    (ret = [0] \/ ret = [2] \/ ret = [3]) ->
    ~ In (o, r) (snd (fst xs')) /\ forall b, ~ In (o, b, r) (rec_edges (fst (fst xs'))).
Proof. exact x_obtained_not_waiting_proof. Qed.
Print Assumptions c15_obtained_not_waiting.

(* a call that is not a start, acquisition, release (also release_all_resources), completion,
   abort, kill, shutdown, watchdog or maintenance run
   (priority inheritance, its undoing, a priority or allow_preemption assignment, time passing,
   controller.advance, pop_next_waiter, the registration of a further resource) changes neither
   the recorded nor the reference relation nor the verdict of check_deadlock - in ANY state *)
Theorem c15_priority_calls_keep_relation :
  forall fl w xs a,
    prio_call a ->
    let xs' := fst (xstep fl w xs a) in
    rec_edges (fst (fst xs')) = rec_edges (fst (fst xs)) /\
    ref_edges (fst xs') = ref_edges (fst xs) /\
    detect_cycle (edges (fst (fst xs'))) = detect_cycle (edges (fst (fst xs))) /\
    active (fst (fst xs')) = active (fst (fst xs)) /\
    (forall r, owner (fst (fst xs')) r = owner (fst (fst xs)) r).
Proof. exact prio_call_keeps_relation_proof. Qed.
Print Assumptions c15_priority_calls_keep_relation.

(* get_blocking_chain / check_and_boost never run out of the model's fuel (|edges| + 1) *)
Theorem c15_boost_fuel_suffices : forall s bs, check_and_boost s bs <> None.
Proof. exact boost_fuel_proof. Qed.
Print Assumptions c15_boost_fuel_suffices.

(* a manual kill ends an operation exactly as an abort does (state and ghost relation) *)
Theorem c15_kill_is_abort :
  forall fl w gs o, fst (gstep fl w gs (HKill o)) = fst (gstep fl w gs (HAbort o)).
Proof. exact kill_is_abort_proof. Qed.
Print Assumptions c15_kill_is_abort.

(* histories over the basic alphabet are exactly the extended histories without priority calls *)
Theorem c15_basic_histories_embed :
  forall fl w hs gs bs, xrun fl w (gs, bs) (map XHop hs) = (grun fl w gs hs, bs).
Proof. exact xrun_hops_proof. Qed.
Print Assumptions c15_basic_histories_embed.

(* ---- the other public calls that release or end operations ---- *)

(* controller.release_all_resources(ctx) called on an operation o that STAYS ALIVE (the bulk
   release behind complete / abort is public API and a release): o is still active, owns
   nothing, NOBODY is recorded as waiting on o any more, the others own exactly what they
   owned and every recorded wait on somebody else - also o's own waits - is exactly as before.
   (That the recorded edges are again the reference relation is c15_edges_exact: the call is
   part of the histories.) *)
Theorem c15_release_all_of_live_operation :
  forall res w hs o,
    let xs := xrun current w (xinit res) hs in
    In o (active (fst (fst xs))) ->
    let xs' := fst (xstep current w xs (XReleaseAll o)) in
    snd (xstep current w xs (XReleaseAll o)) = [0] /\
    active (fst (fst xs')) = active (fst (fst xs)) /\
    (forall r, owner (fst (fst xs')) r <> Some o) /\
    (forall r b, b <> o -> (owner (fst (fst xs')) r = Some b <-> owner (fst (fst xs)) r = Some b)) /\
    (forall wt r, ~ In (wt, o, r) (rec_edges (fst (fst xs')))) /\
    (forall wt b r, b <> o ->
       (In (wt, b, r) (rec_edges (fst (fst xs'))) <-> In (wt, b, r) (rec_edges (fst (fst xs))))) /\
    snd xs' = snd xs.
Proof. exact x_release_all_live_proof. Qed.
Print Assumptions c15_release_all_of_live_operation.

(* CoordinationSystem.shutdown() in any reachable state: no active operation, no owner, no
   recorded and no reference wait, no boost and no reported deadlock are left *)
Theorem c15_shutdown_clears_everything :
  forall res w hs,
    let xs' := fst (xstep current w (xrun current w (xinit res) hs) XShutdown) in
    active (fst (fst xs')) = [] /\ (forall r, owner (fst (fst xs')) r = None) /\
    rec_edges (fst (fst xs')) = [] /\ ref_edges (fst xs') = [] /\ snd (fst xs') = [] /\ snd xs' = [] /\
    detect_cycle (edges (fst (fst xs'))) = None.
Proof. exact x_shutdown_clears_proof. Qed.
Print Assumptions c15_shutdown_clears_everything.

(* CoordinationSystem.run_maintenance() is check_and_boost followed by watchdog.execute, in ANY
   state: c15_victim_minimal_and_released speaks about its watchdog pass too (the state after
   the boost is reachable, the keys are the inherited priorities) *)
Theorem c15_maintenance_is_boost_then_watchdog :
  forall fl w xs,
    fst (xstep fl w xs XMaintain) = fst (xstep fl w (fst (xstep fl w xs XBoost)) (XHop HWatchdog)).
Proof. exact maintain_is_boost_then_watchdog_proof. Qed.
Print Assumptions c15_maintenance_is_boost_then_watchdog.
