(* C15 — lemmas.  Part 1: detect_cycle (the DFS) is sound and complete and its
   fuel suffices.  Part 2: the dependency graph operations.  Part 3: the
   invariant "recorded edges = reference wait-for relation".  Part 4: the
   watchdog's victim. *)
From Coq Require Import ZArith List Bool Lia ZifyBool.
From Verif Require Import C14.Model C14.Proofs C15.Model.
Import ListNotations.
Local Open Scope Z_scope.

(* ================================================================== *)
(* Part 1: the DFS                                                      *)

Definition gedge (g : graph) (x y : Z) : Prop := exists r, In (y, r) (succs g x).

Fixpoint chain (g : graph) (l : list Z) : Prop :=
  match l with
  | x :: ((y :: _) as t) => gedge g x y /\ chain g t
  | _ => True
  end.

(* c = [x1; ...; xn] with x1 -> x2 -> ... -> xn -> x1 *)
Definition is_cycle (g : graph) (c : list Z) : Prop :=
  match c with [] => False | x :: _ => chain g (c ++ [x]) end.

Inductive reach (g : graph) : Z -> Z -> Prop :=
| reach1 x y : gedge g x y -> reach g x y
| reachS x z y : gedge g x z -> reach g z y -> reach g x y.

Definition black (vis path : list Z) (x : Z) : Prop := In x vis /\ ~ In x path.

(* finished nodes: closed under successors and on no cycle *)
Definition good (g : graph) (B : Z -> Prop) : Prop :=
  (forall x y, B x -> gedge g x y -> B y) /\ (forall x, B x -> ~ reach g x x).

Lemma closed_reach g (B : Z -> Prop) :
  (forall x y, B x -> gedge g x y -> B y) -> forall x y, reach g x y -> B x -> B y.
Proof. intros C x y R. induction R; intros Bx; eauto. Qed.

Lemma chain_cons2 g a b t : chain g (a :: b :: t) <-> gedge g a b /\ chain g (b :: t).
Proof. reflexivity. Qed.

Lemma chain_app_edge g l x y : chain g (l ++ [x]) -> gedge g x y -> chain g ((l ++ [x]) ++ [y]).
Proof.
  induction l as [|a l IH]; intros C E.
  - simpl. split; auto.
  - destruct l as [|b l].
    + simpl in *. destruct C as [C1 _]. repeat split; auto.
    + change (chain g (a :: b :: ((l ++ [x]) ++ [y]))).
      change (chain g (a :: b :: (l ++ [x]))) in C.
      apply chain_cons2 in C. destruct C as [C1 C2]. apply chain_cons2. split; auto.
Qed.

Lemma chain_tail g a l : chain g (a :: l) -> chain g l.
Proof. destruct l; simpl; tauto. Qed.

Lemma last_default {A} (l : list A) d d' : l <> [] -> last l d = last l d'.
Proof.
  induction l as [|a l IH]; [congruence|]. intros _. destruct l as [|b l]; auto.
  change (last (b :: l) d = last (b :: l) d'). apply IH. discriminate.
Qed.

Lemma chain_reach g : forall l x, l <> [] -> chain g (x :: l) -> reach g x (last l x).
Proof.
  induction l as [|a l IH]; [congruence|]. intros x _ C. destruct l as [|b l].
  - simpl in *. apply reach1. tauto.
  - destruct C as [E C]. eapply reachS; eauto.
    change (last (a :: b :: l) x) with (last (b :: l) x).
    rewrite (last_default (b :: l) x a) by discriminate. apply IH; [discriminate | exact C].
Qed.

Lemma is_cycle_reach g c : is_cycle g c -> exists x, In x c /\ reach g x x.
Proof.
  destruct c as [|x c]; simpl; [tauto|]. intros C. exists x. split; auto.
  assert (R : reach g x (last (c ++ [x]) x)).
  { apply chain_reach; auto. destruct c; discriminate. }
  now rewrite last_last in R.
Qed.

(* from_first b path = the suffix of path starting at b *)
Lemma from_first_spec b : forall path, In b path ->
  exists pre suf, path = pre ++ b :: suf /\ from_first b path = b :: suf.
Proof.
  induction path as [|x p IH]; simpl; [tauto|]. intros H.
  destruct (Z.eqb x b) eqn:E.
  - assert (x = b) by lia. subst. exists [], p. auto.
  - destruct H as [H|H]; [lia|]. destruct (IH H) as (pre & suf & -> & Hf).
    exists (x :: pre), suf. auto.
Qed.

Lemma chain_app_r g l1 l2 : chain g (l1 ++ l2) -> chain g l2.
Proof. induction l1 as [|a l1 IH]; simpl; auto. intros C. apply IH. eapply chain_tail; eauto. Qed.

Lemma NoDup_app_r {A} (l1 l2 : list A) : NoDup (l1 ++ l2) -> NoDup l2.
Proof. induction l1; simpl; auto. intros H. inversion H; auto. Qed.

Lemma found_is_cycle g path node b :
  chain g (path ++ [node]) -> gedge g node b -> In b (path ++ [node]) -> NoDup (path ++ [node]) ->
  is_cycle g (from_first b (path ++ [node])) /\ NoDup (from_first b (path ++ [node])) /\
  incl (from_first b (path ++ [node])) (path ++ [node]).
Proof.
  intros C E Hin ND. destruct (from_first_spec b _ Hin) as (pre & suf & Hp & ->).
  assert (Hlast : exists suf', b :: suf = suf' ++ [node]).
  { destruct suf as [|a suf] using rev_ind.
    - exists []. simpl. f_equal.
      assert (X : path ++ [node] = pre ++ [b]) by exact Hp.
      apply app_inj_tail in X. symmetry. tauto.
    - exists (b :: suf). simpl. f_equal.
      rewrite app_comm_cons, app_assoc in Hp. apply app_inj_tail in Hp. destruct Hp as [_ ->]. reflexivity. }
  destruct Hlast as (suf' & Hs).
  split; [|split].
  - change (chain g ((b :: suf) ++ [b])). rewrite Hs. apply chain_app_edge; auto.
    rewrite <- Hs. rewrite Hp in C. eapply chain_app_r; eauto.
  - rewrite Hp in ND. eapply NoDup_app_r; eauto.
  - rewrite Hp. apply incl_appr, incl_refl.
Qed.

Lemma succ_in_nodes g x b r : In (b, r) (succs g x) -> In b (graph_nodes g).
Proof.
  unfold succs, graph_nodes. destruct (aget g x) as [l|] eqn:E; [|intros []].
  intros H. apply in_or_app. right. apply in_flat_map. exists (x, l). split.
  - now apply aget_In.
  - simpl. change b with (fst (b, r)). now apply in_map.
Qed.

Lemma key_in_nodes g k : In k (map fst g) -> In k (graph_nodes g).
Proof. intros H. apply in_or_app. auto. Qed.

Lemma gedge_key g x y : gedge g x y -> In x (map fst g).
Proof.
  intros (r & H). unfold succs in H. destruct (aget g x) as [l|] eqn:E; [|destruct H].
  eapply aget_Some_in; eauto.
Qed.

Definition dpost (g : graph) (vis path : list Z) (node : Z) (res : dres) : Prop :=
  match res with
  | DOutOfFuel => False
  | DFound c => is_cycle g c /\ NoDup c
  | DNone vis' => incl (node :: vis) vis' /\ good g (black vis' path)
  end.

Definition dpre (g : graph) (fuel : nat) (vis path : list Z) (node : Z) : Prop :=
  incl path vis /\ ~ In node vis /\ NoDup path /\ incl (path ++ [node]) (graph_nodes g) /\
  chain g (path ++ [node]) /\ good g (black vis path) /\
  (length (graph_nodes g) < fuel + length path)%nat.

Lemma black_mono vis vis' path x : incl vis vis' -> black vis path x -> black vis' path x.
Proof. intros I [A B]. split; auto. Qed.

Section Loop.
Variables (g : graph) (f : nat) (path : list Z) (node : Z).
Let path1 := path ++ [node].
Variable rec : Z -> list Z -> dres.
Hypothesis rec_ok : forall b v, dpre g f v path1 b -> dpost g v path1 b (rec b v).
Hypothesis ND1 : NoDup path1.
Hypothesis IN1 : incl path1 (graph_nodes g).
Hypothesis CH1 : chain g path1.
Hypothesis FU : (length (graph_nodes g) < f + length path1)%nat.

Lemma dfs_loop_spec : forall es vis,
  incl es (succs g node) -> incl path1 vis -> good g (black vis path1) ->
  match dfs_loop rec path1 es vis with
  | DOutOfFuel => False
  | DFound c => is_cycle g c /\ NoDup c
  | DNone vis' => incl vis vis' /\ good g (black vis' path1) /\
                  forall b r, In (b, r) es -> black vis' path1 b
  end.
Proof.
  induction es as [|[b r] es IH]; intros vis Hes Hpv Hg; simpl.
  - split; [apply incl_refl|]. split; auto. intros b r [].
  - assert (Hes' : incl es (succs g node)) by (intros x X; apply Hes; simpl; auto).
    assert (Eb : gedge g node b) by (exists r; apply Hes; simpl; auto).
    destruct (memz b vis) eqn:Mv; simpl.
    + apply memz_In in Mv. destruct (memz b path1) eqn:Mp.
      * apply memz_In in Mp. destruct (found_is_cycle g path node b CH1 Eb Mp ND1) as (A & B & _). auto.
      * apply memz_false in Mp. specialize (IH vis Hes' Hpv Hg).
        destruct (dfs_loop rec path1 es vis) as [c|vis'|]; auto.
        destruct IH as (I1 & G1 & P1). split; auto. split; auto.
        intros b0 r0 [X|X]; [|eauto]. inversion X; subst. split; auto.
    + apply memz_false in Mv.
      assert (Pre : dpre g f vis path1 b).
      { split; auto. split; auto. split; auto.
        split. { intros x X. apply in_app_or in X as [X|[<-|[]]]; auto. eapply succ_in_nodes. apply Hes. simpl. eauto. }
        split. { apply chain_app_edge; auto. }
        split; auto. }
      pose proof (rec_ok b vis Pre) as Post. destruct (rec b vis) as [c|vis1|]; simpl in Post; auto.
      destruct Post as (I1 & G1).
      assert (Hpv1 : incl path1 vis1) by (intros x X; apply I1; simpl; auto).
      specialize (IH vis1 Hes' Hpv1 G1).
      destruct (dfs_loop rec path1 es vis1) as [c|vis'|]; auto.
      destruct IH as (I2 & G2 & P2).
      split. { intros x X. apply I2, I1. simpl. auto. }
      split; auto.
      intros b0 r0 [X|X]; [|eauto]. inversion X; subst. split.
      * apply I2, I1. simpl. auto.
      * intros Y. apply Mv. auto.
Qed.
End Loop.

Lemma NoDup_app_intro_one (l : list Z) x : NoDup l -> ~ In x l -> NoDup (l ++ [x]).
Proof.
  induction l as [|a l IH]; simpl; intros ND N.
  - constructor; auto.
  - inversion ND; subst. constructor.
    + rewrite in_app_iff. simpl. intuition.
    + apply IH; auto.
Qed.

Lemma dfs_spec g : forall fuel node vis path,
  dpre g fuel vis path node -> dpost g vis path node (dfs fuel g node vis path).
Proof.
  induction fuel as [|f IH]; intros node vis path (Hpv & Hnv & ND & HN & CH & HG & HF).
  - exfalso. (* the path cannot be longer than the number of nodes *)
    assert (ND1 : NoDup (path ++ [node])).
    { apply NoDup_app_intro_one; auto. }
    pose proof (NoDup_incl_length ND1 HN) as L. rewrite app_length in L. simpl in *. lia.
  - assert (Hnp : ~ In node path) by (intros X; apply Hnv; auto).
    assert (ND1 : NoDup (path ++ [node])) by (apply NoDup_app_intro_one; auto).
    simpl.
    assert (Hb : forall x, black (node :: vis) (path ++ [node]) x <-> black vis path x).
    { intros x. unfold black. rewrite in_app_iff. simpl. split.
      - intros [[<-|X] Y]; [tauto|]. tauto.
      - intros [X Y]. split; auto. intros [Z|[<-|[]]]; auto. }
    assert (HG1 : good g (black (node :: vis) (path ++ [node]))).
    { destruct HG as [C A]. split.
      - intros x y Bx E. apply Hb. apply Hb in Bx. eauto.
      - intros x Bx. apply Hb in Bx. auto. }
    assert (HF1 : (length (graph_nodes g) < f + length (path ++ [node]))%nat).
    { rewrite app_length. simpl. lia. }
    pose proof (dfs_loop_spec g f path node (fun b v => dfs f g b v (path ++ [node]))
                  (fun b v P => IH b v (path ++ [node]) P) ND1 HN CH HF1
                  (succs g node) (node :: vis) (incl_refl _)) as L.
    assert (Hp1 : incl (path ++ [node]) (node :: vis)).
    { intros x X. apply in_app_or in X as [X|[<-|[]]]; simpl; auto. }
    specialize (L Hp1 HG1).
    destruct (dfs_loop _ (path ++ [node]) (succs g node) (node :: vis)) as [c|vis'|]; simpl; auto.
    destruct L as (I & [C A] & P). split; auto.
    (* node becomes black *)
    assert (Hsplit : forall x, black vis' path x -> x = node \/ black vis' (path ++ [node]) x).
    { intros x [X Y]. destruct (Z.eq_dec x node); auto. right. split; auto.
      rewrite in_app_iff. simpl. intuition. }
    assert (Hsub : forall x, black vis' (path ++ [node]) x -> black vis' path x).
    { intros x [X Y]. split; auto. intros Z. apply Y. apply in_or_app. auto. }
    assert (Hnode_succ : forall y, gedge g node y -> black vis' (path ++ [node]) y).
    { intros y (r & E). eapply P; eauto. }
    split.
    + intros x y Bx E. destruct (Hsplit x Bx) as [->|B1].
      * apply Hsub. auto.
      * apply Hsub. eauto.
    + intros x Bx R. destruct (Hsplit x Bx) as [->|B1].
      * assert (Bn : black vis' (path ++ [node]) node).
        { inversion R; subst.
          - auto.
          - eapply (closed_reach g _ C); eauto. }
        destruct Bn as [_ Y]. apply Y. apply in_or_app. simpl. auto.
      * eapply A; eauto.
Qed.

Lemma black_nil vis x : black vis [] x <-> In x vis.
Proof. unfold black. simpl. tauto. Qed.

Lemma dfs_top_spec g fuel : (length (graph_nodes g) < fuel)%nat -> forall keys vis,
  incl keys (map fst g) -> good g (black vis []) ->
  match dfs_top fuel g keys vis with
  | DOutOfFuel => False
  | DFound c => is_cycle g c /\ NoDup c
  | DNone vis' => incl vis vis' /\ incl keys vis' /\ good g (black vis' [])
  end.
Proof.
  intros HF. induction keys as [|k keys IH]; intros vis Hk HG; simpl dfs_top.
  - split; [apply incl_refl|]. split; auto. intros x [].
  - assert (Hk' : incl keys (map fst g)) by (intros x X; apply Hk; simpl; auto).
    destruct (memz k vis) eqn:M.
    + apply memz_In in M. specialize (IH vis Hk' HG).
      destruct (dfs_top fuel g keys vis) as [c|vis'|]; auto.
      destruct IH as (A & B & C). split; auto. split; auto.
      intros x [<-|X]; auto.
    + apply memz_false in M.
      assert (Pre : dpre g fuel vis [] k).
      { split. { intros x []. } split; auto. split. { constructor. }
        split. { intros x [<-|[]]. apply key_in_nodes, Hk. simpl. auto. }
        split. { simpl. auto. } split; auto. simpl. lia. }
      pose proof (dfs_spec g _ _ _ _ Pre) as Post.
      destruct (dfs fuel g k vis []) as [c|vis1|]; simpl in Post; auto.
      destruct Post as (I1 & G1). specialize (IH vis1 Hk' G1).
      destruct (dfs_top fuel g keys vis1) as [c|vis'|]; auto.
      destruct IH as (A & B & C).
      split. { intros x X. apply A, I1. simpl. auto. }
      split; auto. intros x [<-|X]; auto. apply A, I1. simpl. auto.
Qed.

Lemma detect_spec g :
  match detect g with
  | DOutOfFuel => False
  | DFound c => is_cycle g c /\ NoDup c
  | DNone vis => forall c, ~ is_cycle g c
  end.
Proof.
  unfold detect.
  assert (G0 : good g (black [] [])).
  { split; intros x; intros; unfold black in *; simpl in *; tauto. }
  pose proof (dfs_top_spec g (S (length (graph_nodes g))) (Nat.lt_succ_diag_r _) (map fst g) [] (incl_refl _) G0) as S.
  destruct (dfs_top _ g (map fst g) []) as [c|vis|]; auto.
  destruct S as (_ & K & [C A]). intros c Hc.
  destruct (is_cycle_reach g c Hc) as (x & _ & R).
  assert (Kx : In x (map fst g)).
  { inversion R; subst; eapply gedge_key; eauto. }
  apply (A x); auto. apply black_nil. auto.
Qed.

Lemma detect_fuel_proof g : detect g <> DOutOfFuel.
Proof. pose proof (detect_spec g) as S. intros E. now rewrite E in S. Qed.

Lemma cycle_sound_proof g c : detect_cycle g = Some c -> is_cycle g c /\ NoDup c.
Proof.
  unfold detect_cycle. pose proof (detect_spec g) as S.
  destruct (detect g); intros H; inversion H; subst. exact S.
Qed.

Lemma cycle_complete_proof g : (exists c, is_cycle g c) -> detect_cycle g <> None.
Proof.
  intros (c & Hc). unfold detect_cycle. pose proof (detect_spec g) as S.
  destruct (detect g) as [c'|vis|]; try discriminate.
  - exfalso. eapply S; eauto.
  - destruct S.
Qed.

(* ================================================================== *)
(* Part 2: the dependency graph operations, on graphs with unique keys  *)

Definition gwf (g : graph) : Prop := NoDup (map fst g).

Definition map_vals (f : list (Z * Z) -> list (Z * Z)) (g : graph) : graph :=
  map (fun kv : Z * list (Z * Z) => (fst kv, f (snd kv))) g.

Lemma keys_map_vals f g : map fst (map_vals f g) = map fst g.
Proof. unfold map_vals. rewrite map_map. reflexivity. Qed.

Lemma NoDup_keys_filter (P : Z * list (Z * Z) -> bool) g : gwf g -> gwf (filter P g).
Proof.
  unfold gwf. induction g as [|kv g IH]; simpl; auto. intros ND. inversion ND; subst.
  destruct (P kv); simpl; auto. constructor; auto.
  intros X. apply H1. apply in_map_iff in X as (y & <- & Hy). apply filter_In in Hy as [Hy _].
  now apply in_map.
Qed.

Lemma keys_filter_incl (P : Z * list (Z * Z) -> bool) g : incl (map fst (filter P g)) (map fst g).
Proof.
  intros x X. apply in_map_iff in X as (y & <- & Hy). apply filter_In in Hy as [Hy _]. now apply in_map.
Qed.

Lemma succs_prune_map f g w :
  gwf g -> f [] = [] -> succs (filter nonempty (map_vals f g)) w = f (succs g w).
Proof.
  unfold succs, gwf. intros ND F0. induction g as [|[k l] g IH]; simpl; auto.
  inversion ND; subst. specialize (IH H2).
  unfold nonempty at 1. simpl.
  destruct (Z.eqb k w) eqn:E.
  - assert (k = w) by lia. subst.
    destruct (f l) eqn:Fl; simpl.
    + (* pruned: no later entry has this key *)
      assert (N : aget (filter nonempty (map_vals f g)) w = None).
      { destruct (aget (filter nonempty (map_vals f g)) w) eqn:A; auto. exfalso.
        apply aget_Some_in in A. apply keys_filter_incl in A. rewrite keys_map_vals in A. auto. }
      rewrite N. reflexivity.
    + now rewrite Z.eqb_refl.
  - destruct (f l) eqn:Fl; simpl; auto. now rewrite E.
Qed.

Lemma succs_adel g a w : succs (adel g a) w = if Z.eqb a w then [] else succs g w.
Proof. unfold succs. rewrite aget_adel. now destruct (Z.eqb a w). Qed.

Lemma succs_aset g k l w : succs (aset g k l) w = if Z.eqb k w then l else succs g w.
Proof. unfold succs. rewrite aget_aset. now destruct (Z.eqb k w). Qed.

Lemma keys_aset {A} (m : list (Z * A)) k v :
  map fst (aset m k v) = if match aget m k with Some _ => true | None => false end
                         then map fst m else map fst m ++ [k].
Proof.
  induction m as [|[k0 v0] m IH]; simpl; auto.
  destruct (Z.eqb k0 k) eqn:E; simpl.
  - f_equal. lia.
  - rewrite IH. destruct (aget m k); reflexivity.
Qed.

Lemma gwf_aset g k l : gwf g -> gwf (aset g k l).
Proof.
  unfold gwf. intros ND. rewrite keys_aset. destruct (aget g k) eqn:E; auto.
  apply NoDup_app_intro_one; auto. now apply aget_None_notin.
Qed.

Lemma gwf_adel g a : gwf g -> gwf (adel g a).
Proof. apply NoDup_keys_filter. Qed.

Lemma aget_app_none {A} (m1 m2 : list (Z * A)) k :
  aget (m1 ++ m2) k = match aget m1 k with Some v => Some v | None => aget m2 k end.
Proof. induction m1 as [|[k0 v0] m1 IH]; simpl; auto. destruct (Z.eqb k0 k); auto. Qed.

Lemma mem2_In x l : mem2 x l = true <-> In x l.
Proof.
  unfold mem2. rewrite existsb_exists. split.
  - intros (y & Hy & E). unfold pair_eqb in E. destruct x, y. simpl in *.
    assert (z = z1 /\ z0 = z2) as [-> ->] by lia. auto.
  - intros H. exists x. split; auto. unfold pair_eqb. lia.
Qed.

Lemma add_dependency_spec g w b r :
  gwf g ->
  gwf (add_dependency g w b r) /\
  forall w' e, In e (succs (add_dependency g w b r) w') <->
               (In e (succs g w') \/ (w' = w /\ e = (b, r))).
Proof.
  intros ND. unfold add_dependency. destruct (aget g w) as [l|] eqn:A.
  - destruct (mem2 (b, r) l) eqn:M.
    + split; auto. intros w' e. split; auto. intros [X|[-> ->]]; auto.
      unfold succs. rewrite A. now apply mem2_In.
    + split. { now apply gwf_aset. }
      intros w' e. rewrite succs_aset. destruct (Z.eqb w w') eqn:E.
      * assert (w = w') by lia. subst. unfold succs. rewrite A. rewrite in_app_iff. simpl.
        split; intros [X|X]; auto.
        -- destruct X as [<-|[]]. auto.
        -- destruct X as [_ ->]. auto.
      * split; auto. intros [X|[-> _]]; auto. lia.
  - split.
    + unfold gwf. rewrite map_app. simpl. apply NoDup_app_intro_one; auto. now apply aget_None_notin.
    + intros w' e. unfold succs. rewrite aget_app_none. simpl.
      destruct (aget g w') as [l'|] eqn:A'.
      * split; auto. intros [X|[-> _]]; auto. congruence.
      * destruct (Z.eqb w w') eqn:E; simpl.
        -- assert (w = w') by lia. subst. split.
           ++ intros [<-|[]]. auto.
           ++ intros [[]|[_ ->]]. auto.
        -- split; [intros []|]. intros [[]|[-> _]]. lia.
Qed.

Lemma remove_wait_spec g w r :
  gwf g ->
  gwf (remove_wait g w r) /\
  forall w' e, In e (succs (remove_wait g w r) w') <->
               (In e (succs g w') /\ ~ (w' = w /\ snd e = r)).
Proof.
  intros ND. unfold remove_wait. destruct (aget g w) as [l|] eqn:A.
  - set (l' := filter (fun e : Z * Z => negb (Z.eqb (snd e) r)) l).
    assert (Hl' : forall e, In e l' <-> In e l /\ snd e <> r).
    { intros e. unfold l'. rewrite filter_In. split; intros [X Y]; split; auto; lia. }
    destruct l' as [|x l''] eqn:El.
    + split. { now apply gwf_adel. }
      intros w' e. rewrite succs_adel. destruct (Z.eqb w w') eqn:E.
      * assert (w = w') by lia. subst. unfold succs. rewrite A. split; [intros []|].
        intros [X N]. destruct (Z.eq_dec (snd e) r) as [Y|Y]; [tauto|].
        apply (proj2 (Hl' e)). auto.
      * split; [intros X; split; auto; intros [-> _]; lia | tauto].
    + split. { now apply gwf_aset. }
      intros w' e. rewrite succs_aset. destruct (Z.eqb w w') eqn:E.
      * assert (w = w') by lia. subst. unfold succs. rewrite A. rewrite Hl'. split.
        -- intros [X Y]. split; auto. tauto.
        -- intros [X N]. split; auto.
      * split; [intros X; split; auto; intros [-> _]; lia | tauto].
  - split; auto. intros w' e. split; [|tauto]. intros X. split; auto. intros [-> _].
    unfold succs in X. now rewrite A in X.
Qed.

Definition frt (r : Z) (owner : option Z) (l : list (Z * Z)) : list (Z * Z) :=
  match owner with
  | Some o => map (fun e : Z * Z => if Z.eqb (snd e) r then (o, snd e) else e) l
  | None => filter (fun e : Z * Z => negb (Z.eqb (snd e) r)) l
  end.

Lemma retarget_eq g r owner : retarget g r owner = filter nonempty (map_vals (frt r owner) g).
Proof. reflexivity. Qed.

Lemma gwf_retarget g r owner : gwf g -> gwf (retarget g r owner).
Proof.
  intros ND. rewrite retarget_eq. apply NoDup_keys_filter. unfold gwf. now rewrite keys_map_vals.
Qed.

Lemma retarget_none_spec g r w' e :
  gwf g -> (In e (succs (retarget g r None) w') <-> (In e (succs g w') /\ snd e <> r)).
Proof.
  intros ND. rewrite retarget_eq, succs_prune_map by auto. simpl. rewrite filter_In.
  split; intros [X Y]; split; auto; lia.
Qed.

Lemma retarget_some_spec g r o w' b' r' :
  gwf g ->
  (In (b', r') (succs (retarget g r (Some o)) w') <->
   ((r' <> r /\ In (b', r') (succs g w')) \/
    (r' = r /\ b' = o /\ exists b0, In (b0, r) (succs g w')))).
Proof.
  intros ND. rewrite retarget_eq, succs_prune_map by auto. simpl. rewrite in_map_iff. split.
  - intros ([b0 r0] & X & Hin). simpl in X. destruct (Z.eqb r0 r) eqn:E.
    + inversion X; subst. assert (r' = r) by lia. subst. right. eauto.
    + inversion X; subst. left. split; auto. lia.
  - intros [[N Hin]|(-> & -> & b0 & Hin)].
    + exists (b', r'). simpl. split; auto. destruct (Z.eqb r' r) eqn:E; auto. lia.
    + exists (b0, r). simpl. split; auto. now rewrite Z.eqb_refl.
Qed.

Lemma remove_all_eq g a :
  remove_all_for_agent g a =
  filter nonempty (map_vals (filter (fun e : Z * Z => negb (Z.eqb (fst e) a))) (adel g a)).
Proof. reflexivity. Qed.

Lemma remove_all_spec g a :
  gwf g ->
  gwf (remove_all_for_agent g a) /\
  forall w' e, In e (succs (remove_all_for_agent g a) w') <->
               (w' <> a /\ fst e <> a /\ In e (succs g w')).
Proof.
  intros ND. rewrite remove_all_eq. split.
  - apply NoDup_keys_filter. unfold gwf. rewrite keys_map_vals. now apply gwf_adel.
  - intros w' e. rewrite succs_prune_map by (auto using gwf_adel).
    rewrite filter_In, succs_adel. destruct (Z.eqb a w') eqn:E.
    + split; [intros [[] _]|]. intros (N & _). lia.
    + split.
      * intros [X Y]. split; [lia|]. split; auto. lia.
      * intros (_ & Y & X). split; auto. lia.
Qed.

(* ================================================================== *)
(* Part 3: recorded edges = reference wait-for relation                 *)

Lemma acquire_edges s o r s' lr :
  acquire current s o r = (s', AOk lr) ->
  edges s' = match lr with
             | LBlocked => match owner s r with
                           | Some b => add_dependency (edges s) o b r
                           | None => edges s end
             | LPreempted => retarget (remove_wait (edges s) o r) r (Some o)
             | _ => remove_wait (edges s) o r
             end.
Proof.
  unfold acquire. destruct (get_ctx s o) as [c|]; [|discriminate].
  rewrite owner_def. destruct (get_lock s r) as [l|] eqn:Hl; [|discriminate].
  destruct (try_acquire l o (c_prio c)) as [l' res] eqn:Ht.
  pose proof (try_acquire_cases _ _ _ _ _ Ht) as C.
  destruct res; intros H; inversion H; subst; simpl; auto.
  destruct C as [(X&_)|[(X&_)|[(X&_)|(_ & _ & -> & _)]]]; try discriminate. reflexivity.
Qed.

Lemma release_edges s o r s' b :
  release current s o r = (s', b) ->
  edges s' = if b then match owner s' r with None => retarget (edges s) r None | Some _ => edges s end
             else edges s.
Proof.
  unfold release. destruct (get_ctx s o) as [c|]; [|intros H; inversion H; auto].
  destruct (negb (memz r (c_acq c))); [intros H; inversion H; auto|].
  destruct (get_lock s r) as [l|] eqn:Hl; [|intros H; inversion H; auto].
  destruct (lock_release l o) as [l' ok] eqn:Hr. destruct ok; [|intros H; inversion H; auto].
  intros H; inversion H; subst; clear H. simpl f_graph. simpl f_forget. cbv iota. simpl orb.
  rewrite owner_def.
  destruct (negb (oeqb (l_owner l') o)); simpl; autorewrite with st; rewrite Z.eqb_refl;
    destruct (l_owner l'); reflexivity.
Qed.

Lemma release_one_edges s o r :
  WF s ->
  let s' := release_one current s o r in
  (owner s r = Some o /\ owner s' r = None /\ edges s' = retarget (edges s) r None) \/
  (owner s r <> Some o /\ edges s' = edges s).
Proof.
  intros W. destruct (release_one_spec s o r W) as (W' & Q & N). cbv zeta.
  unfold release_one in *. simpl f_reentrant in *. cbv iota in *.
  destruct (get_lock s r) as [l|] eqn:Hl.
  2:{ right. split. { rewrite owner_def, Hl. discriminate. }
      destruct (release current s o r) as [s' b] eqn:Hr. simpl.
      apply release_shape in Hr as [[_ ->]|(_ & c & l & l' & g & _ & _ & X & _)]; congruence. }
  destruct (classic_owner l o) as [Ho|Ho].
  2:{ right. split. { rewrite owner_def, Hl. auto. }
      rewrite drop_reentrant_other by auto. rewrite put_lock_same by auto.
      destruct (release current s o r) as [s' b] eqn:Hr. simpl.
      apply release_shape in Hr as [[_ ->]|(_ & c & l0 & l' & g & _ & _ & X & Y & _)]; auto.
      assert (l0 = l) by congruence. subst.
      apply lock_release_cases in Y as [(?&_)|[(_&?&_)|(_&?&_)]]; congruence. }
  left. split. { rewrite owner_def, Hl. auto. }
  assert (Hfree : owner (fst (release current
            (put_lock s r (drop_reentrant (Z.to_nat (l_hold l)) o l)) o r)) r = None).
  { assert (X : owner s r = Some o) by (rewrite owner_def, Hl; auto).
    destruct (q_freed _ _ _ Q r X) as [Y|Y]; [now apply N in Y | exact Y]. }
  split; auto.
  destruct (release current (put_lock s r (drop_reentrant (Z.to_nat (l_hold l)) o l)) o r) as [s' b] eqn:Hr.
  simpl in *. pose proof (release_edges _ _ _ _ _ Hr) as E. rewrite Hfree in E.
  destruct b; auto.
  (* the release cannot have been refused *)
  exfalso. apply release_shape in Hr as [[_ ->]|(X & _)]; [|discriminate].
  rewrite owner_def in Hfree. autorewrite with st in Hfree. rewrite Z.eqb_refl in Hfree.
  pose proof (wf_lock s W r l Hl) as Lok. unfold lock_ok in Lok. rewrite Ho in Lok.
  rewrite drop_reentrant_owned in Hfree by (auto; lia). discriminate.
Qed.

(* [E s ws]: the recorded edges are exactly the blocked pairs of live waiters,
   pointing at the current owner *)
Definition E (s : st) (ws : waits) : Prop :=
  forall w b r, In (b, r) (succs (edges s) w) <->
                (In (w, r) ws /\ In w (active s) /\ owner s r = Some b).

(* nobody waits for something it owns *)
Definition NS (s : st) (ws : waits) : Prop := forall w r, In (w, r) ws -> owner s r <> Some w.

Record Inv (gs : gstate) : Prop := mkInv {
  inv_wf : WF (fst gs);
  inv_keys : gwf (edges (fst gs));
  inv_E : E (fst gs) (snd gs);
  inv_ns : NS (fst gs) (snd gs);
  inv_live : forall w r, In (w, r) (snd gs) ->
               In w (active (fst gs)) /\ owner (fst gs) r <> None }.

Record Mid (s : st) (ws : waits) : Prop := mkMid {
  mid_wf : WF s; mid_keys : gwf (edges s); mid_E : E s ws; mid_ns : NS s ws }.

Lemma still_blocked_In s ws w r :
  In (w, r) (still_blocked s ws) <-> In (w, r) ws /\ In w (active s) /\ owner s r <> None.
Proof.
  unfold still_blocked. rewrite filter_In. simpl. unfold owned. rewrite andb_true_iff, is_active_In.
  destruct (owner s r); intuition congruence.
Qed.

Lemma mid_inv s ws : Mid s ws -> Inv (s, still_blocked s ws).
Proof.
  intros [W K He Hn]. constructor; simpl; auto.
  - intros w b r. destruct (He w b r) as [H1 H2]. rewrite still_blocked_In. split.
    + intros X. apply H1 in X as (A & B & C). repeat split; auto. congruence.
    + intros ((A & _ & _) & B & C). apply H2. auto.
  - intros w r X. apply still_blocked_In in X. apply Hn. tauto.
  - intros w r X. apply still_blocked_In in X. tauto.
Qed.

Lemma rm_wait_In ws o r w r0 : In (w, r0) (rm_wait ws o r) <-> In (w, r0) ws /\ ~ (w = o /\ r0 = r).
Proof.
  unfold rm_wait. rewrite filter_In. unfold pair_eqb. simpl. split; intros [X Y]; split; auto; lia.
Qed.

(* ---- start ---- *)
Lemma start_op_edges s o p ex : edges (start_op s o p ex) = edges s.
Proof. reflexivity. Qed.
Lemma start_op_owner s o p ex r : owner (start_op s o p ex) r = owner s r.
Proof. reflexivity. Qed.
Lemma start_op_active_fresh s o p ex :
  ~ In o (active s) -> active (start_op s o p ex) = active s ++ [o].
Proof. intros N. apply memz_false in N. unfold start_op. rewrite N. reflexivity. Qed.

Lemma start_mid s ws o p ex : Inv (s, ws) -> get_ctx s o = None -> Mid (start_op s o p ex) ws.
Proof.
  intros [W K He Hn Hl] F. simpl in *.
  assert (Na : ~ In o (active s)) by now apply wf_fresh_not_active.
  constructor.
  - now apply start_op_wf.
  - exact K.
  - intros w b r. rewrite start_op_edges, start_op_owner, start_op_active_fresh by auto.
    destruct (He w b r) as [H1 H2]. rewrite in_app_iff. simpl. split.
    + intros X. apply H1 in X. tauto.
    + intros (A & [B|[<-|[]]] & C); auto. exfalso. apply Na. now apply (Hl o r).
  - intros w r X. rewrite start_op_owner. auto.
Qed.

(* ---- acquire ---- *)
Definition note_res (res : ares) (ws : waits) (o r : Z) : waits :=
  match res with
  | AOk LBlocked => (o, r) :: rm_wait ws o r
  | AOk _ => rm_wait ws o r
  | _ => ws
  end.

Lemma acquire_mid s ws o r s' res :
  Inv (s, ws) -> In o (active s) -> acquire current s o r = (s', res) ->
  Mid s' (note_res res ws o r).
Proof.
  intros [W K He Hn Hl] Ha H. simpl in *.
  destruct res as [lr| |].
  2:{ apply acquire_shape in H as [-> _]. constructor; auto. }
  2:{ apply acquire_shape in H as [-> _]. constructor; auto. }
  pose proof (acquire_wf _ _ _ _ _ W Ha H) as W'.
  pose proof (acquire_active _ _ _ _ _ _ H) as A.
  pose proof (acquire_edges _ _ _ _ _ H) as Ed.
  assert (Fo : forall r0, r0 <> r -> owner s' r0 = owner s r0).
  { intros r0 N. rewrite !owner_def. now rewrite (acquire_lock_frame _ _ _ _ _ _ r0 H N). }
  destruct (acquire_lock_self _ _ _ _ _ _ H) as (l & l' & Hl0 & Hl1 & S).
  assert (Os : owner s r = l_owner l) by (rewrite owner_def, Hl0; auto).
  assert (Os' : owner s' r = l_owner l') by (rewrite owner_def, Hl1; auto).
  destruct lr; simpl note_res.
  - (* ACQUIRED *)
    destruct S as (S1 & S2 & _). rewrite S1 in Os. rewrite S2 in Os'.
    destruct (remove_wait_spec (edges s) o r K) as (K' & Sp).
    constructor; auto.
    + now rewrite Ed.
    + intros w b r0. rewrite Ed, Sp, rm_wait_In, A. destruct (He w b r0) as [H1 H2]. simpl. split.
      * intros (X & N). apply H1 in X as (X1 & X2 & X3).
        destruct (Z.eq_dec r0 r) as [->|Nr]; [congruence|]. rewrite Fo by auto. tauto.
      * intros ((X1 & N) & X2 & X3). destruct (Z.eq_dec r0 r) as [->|Nr].
        -- exfalso. destruct (Hl w r X1) as [_ Y]. congruence.
        -- rewrite Fo in X3 by auto. split; auto; intros [? ?]; tauto.
    + intros w r0 X. apply rm_wait_In in X as (X & N). destruct (Z.eq_dec r0 r) as [->|Nr].
      * rewrite Os'. intros Y. inversion Y. subst. tauto.
      * rewrite Fo by auto. auto.
  - (* BLOCKED *)
    destruct S as (S1 & _ & _ & S4 & S5).
    assert (Oeq : forall r0, owner s' r0 = owner s r0).
    { intros r0. destruct (Z.eq_dec r0 r) as [->|Nr]; [congruence | auto]. }
    destruct (owner s r) as [b0|] eqn:Ob; [|congruence].
    destruct (add_dependency_spec (edges s) o b0 r K) as (K' & Sp).
    constructor; auto.
    + now rewrite Ed.
    + intros w b r0. rewrite Ed, Sp, A, Oeq. destruct (He w b r0) as [H1 H2]. simpl. split.
      * intros [X|(-> & Y)].
        -- apply H1 in X as (X1 & X2 & X3). split; auto.
           destruct (Z.eq_dec w o) as [->|Nw]; destruct (Z.eq_dec r0 r) as [->|Nr]; auto;
             right; apply rm_wait_In; split; auto; tauto.
        -- inversion Y; subst. auto.
      * intros ([X|X] & X2 & X3).
        -- inversion X; subst. right. split; auto. congruence.
        -- apply rm_wait_In in X as (X & _). left. apply H2. auto.
    + intros w r0 [X|X]; rewrite Oeq.
      * inversion X; subst. congruence.
      * apply rm_wait_In in X as (X & _). auto.
  - (* REENTRANT *)
    destruct S as (S1 & S2). rewrite S1 in Os. rewrite S2 in Os'.
    assert (Oeq : forall r0, owner s' r0 = owner s r0).
    { intros r0. destruct (Z.eq_dec r0 r) as [->|Nr]; [congruence | auto]. }
    destruct (remove_wait_spec (edges s) o r K) as (K' & Sp).
    constructor; auto.
    + now rewrite Ed.
    + intros w b r0. rewrite Ed, Sp, rm_wait_In, A, Oeq. destruct (He w b r0) as [H1 H2]. simpl. split.
      * intros (X & N). apply H1 in X. tauto.
      * intros ((X1 & N) & X2 & X3). split; auto; intros [? ?]; tauto.
    + intros w r0 X. apply rm_wait_In in X as (X & N). rewrite Oeq. auto.
  - (* PREEMPTED *)
    destruct S as (S1 & _ & S3 & S4). rewrite S1 in Os'.
    destruct (owner s r) as [old|] eqn:Ob; [|congruence].
    destruct (remove_wait_spec (edges s) o r K) as (K1 & Sp1).
    pose proof (gwf_retarget _ r (Some o) K1) as K'.
    constructor; auto.
    + now rewrite Ed.
    + intros w b r0. rewrite Ed, (retarget_some_spec _ r o w b r0 K1), rm_wait_In, A.
      destruct (He w b r0) as [H1 H2]. split.
      * intros [(Nr & X)|(-> & -> & b0 & X)].
        -- apply Sp1 in X as (X & N). apply H1 in X as (X1 & X2 & X3). rewrite Fo by auto.
           repeat split; auto; intros [? ?]; tauto.
        -- apply Sp1 in X as (X & N). simpl in N. destruct (He w b0 r) as [H3 _].
           apply H3 in X as (X1 & X2 & X3). repeat split; auto; intros [? ?]; tauto.
      * intros ((X1 & N) & X2 & X3). destruct (Z.eq_dec r0 r) as [->|Nr].
        -- right. split; auto. split; [congruence|]. exists old. apply Sp1. split.
           ++ destruct (He w old r) as [_ H4]. apply H4. auto.
           ++ simpl. intros [? ?]. tauto.
        -- left. split; auto. apply Sp1. split.
           ++ apply H2. rewrite Fo in X3 by auto. auto.
           ++ simpl. intros [? ?]. tauto.
    + intros w r0 X. apply rm_wait_In in X as (X & N). destruct (Z.eq_dec r0 r) as [->|Nr].
      * rewrite Os'. intros Y. inversion Y. subst. tauto.
      * rewrite Fo by auto. auto.
Qed.

Lemma inv_mid s ws : Inv (s, ws) -> Mid s ws.
Proof. intros [W K He Hn _]. constructor; auto. Qed.

(* ---- release ---- *)
Lemma release_mid s ws o r s' b :
  Mid s ws -> release current s o r = (s', b) -> Mid s' ws.
Proof.
  intros [W K He Hn] H.
  pose proof (release_wf _ _ _ _ _ W H) as W'.
  pose proof (release_active _ _ _ _ _ H) as A.
  pose proof (release_edges _ _ _ _ _ H) as Ed.
  assert (Fo : forall r0, r0 <> r -> owner s' r0 = owner s r0).
  { intros r0 N. rewrite !owner_def. now rewrite (release_lock_frame _ _ _ _ _ r0 H N). }
  destruct b.
  2:{ apply release_shape in H as [[_ ->]|[X _]]; [constructor; auto | discriminate]. }
  assert (Hc : owner s' r = None \/ owner s' r = owner s r).
  { destruct (get_lock s r) as [l|] eqn:Hl.
    - destruct (release_lock_self _ _ _ _ _ _ H Hl) as (l' & Hl' & [(X & _)|(_ & Hr)]); [discriminate|].
      rewrite !owner_def, Hl, Hl'.
      apply lock_release_cases in Hr as [(X & _)|[(_ & _ & _ & ->)|(_ & _ & _ & ->)]];
        [discriminate | left | right]; reflexivity.
    - apply release_shape in H as [[X _]|(_ & c & l & l' & g & _ & _ & X & _)]; congruence. }
  destruct Hc as [Hc|Hc].
  - (* the lock became free: its waiters are dropped *)
    rewrite Hc in Ed. constructor; auto.
    + rewrite Ed. now apply gwf_retarget.
    + intros w b r0. rewrite Ed, (retarget_none_spec _ r w (b, r0) K), A. simpl.
      destruct (He w b r0) as [H1 H2]. split.
      * intros (X & N). rewrite Fo by auto. auto.
      * intros (X1 & X2 & X3). destruct (Z.eq_dec r0 r) as [->|N]; [congruence|].
        rewrite Fo in X3 by auto. auto.
    + intros w r0 X Y. destruct (Z.eq_dec r0 r) as [->|N]; [congruence|].
      rewrite Fo in Y by auto. eapply Hn; eauto.
  - (* a re-entrant hold remains *)
    assert (Oeq : forall r0, owner s' r0 = owner s r0).
    { intros r0. destruct (Z.eq_dec r0 r) as [->|N]; auto. }
    assert (Ed' : edges s' = edges s).
    { rewrite Ed. destruct (owner s' r) eqn:X; auto.
      (* owner None = owner s r: nothing labelled r is recorded; retarget is still applied *)
      exfalso. apply release_shape in H as [[X0 _]|(_ & c & l & l' & g & _ & _ & Hl & Hr & _)]; [discriminate|].
      rewrite owner_def, Hl in Hc.
      apply lock_release_cases in Hr as [(X0 & _)|[(_ & Ho & _)|(_ & Ho & _)]]; congruence. }
    constructor; auto.
    + now rewrite Ed'.
    + intros w b r0. rewrite Ed', A, Oeq. apply He.
    + intros w r0 X. rewrite Oeq. auto.
Qed.

(* ---- complete / abort ---- *)
Lemma release_one_lock_frame s o r r0 :
  r0 <> r -> get_lock (release_one current s o r) r0 = get_lock s r0.
Proof.
  intros N. unfold release_one. simpl f_reentrant. cbv iota.
  destruct (get_lock s r) as [l|] eqn:Hl.
  - destruct (release current (put_lock s r (drop_reentrant (Z.to_nat (l_hold l)) o l)) o r) as [s' b] eqn:Hr.
    simpl. rewrite (release_lock_frame _ _ _ _ _ r0 Hr N). autorewrite with st.
    destruct (Z.eqb r r0) eqn:E; auto. lia.
  - destruct (release current s o r) as [s' b] eqn:Hr. simpl. apply (release_lock_frame _ _ _ _ _ r0 Hr N).
Qed.

Lemma release_one_mid s ws o r : Mid s ws -> Mid (release_one current s o r) ws.
Proof.
  intros [W K He Hn].
  destruct (release_one_spec s o r W) as (W' & Q & N).
  pose proof (release_one_edges s o r W) as Ed. cbv zeta in Ed.
  set (s' := release_one current s o r) in *.
  assert (Fo : forall r0, r0 <> r -> owner s' r0 = owner s r0).
  { intros r0 Nr. rewrite !owner_def. unfold s'. now rewrite release_one_lock_frame. }
  pose proof (q_active _ _ _ Q) as A.
  destruct Ed as [(O1 & O2 & Ed)|(O1 & Ed)].
  - constructor; auto.
    + rewrite Ed. now apply gwf_retarget.
    + intros w b r0. rewrite Ed, (retarget_none_spec _ r w (b, r0) K), A. simpl.
      destruct (He w b r0) as [H1 H2]. split.
      * intros (X & Nr). rewrite Fo by auto. auto.
      * intros (X1 & X2 & X3). destruct (Z.eq_dec r0 r) as [->|Nr]; [congruence|].
        rewrite Fo in X3 by auto. auto.
    + intros w r0 X Y. destruct (Z.eq_dec r0 r) as [->|Nr]; [congruence|].
      rewrite Fo in Y by auto. eapply Hn; eauto.
  - assert (Oeq : forall r0, owner s' r0 = owner s r0).
    { intros r0. destruct (Z.eq_dec r0 r) as [->|Nr]; auto.
      rewrite !owner_def. now rewrite (q_lock _ _ _ Q r O1). }
    constructor; auto.
    + now rewrite Ed.
    + intros w b r0. rewrite Ed, A, Oeq. apply He.
    + intros w r0 X. rewrite Oeq. auto.
Qed.

Lemma release_fold_mid ws o (L : list Z) : forall s,
  Mid s ws -> Mid (fold_left (fun s r => release_one current s o r) L s) ws.
Proof. induction L as [|r L IH]; intros s M; simpl; auto. apply IH, release_one_mid, M. Qed.

Lemma finish_edges s o :
  edges (finish current s o) = remove_all_for_agent (edges (release_all current s o)) o.
Proof. unfold finish. simpl. destruct (get_ctx _ o); reflexivity. Qed.
Lemma finish_owner s o r : owner (finish current s o) r = owner (release_all current s o) r.
Proof. unfold finish. simpl. destruct (get_ctx _ o); reflexivity. Qed.
Lemma finish_active s o : active (finish current s o) = remz o (active (release_all current s o)).
Proof. unfold finish. simpl. destruct (get_ctx _ o); reflexivity. Qed.

Lemma finish_mid s ws o : Mid s ws -> Mid (finish current s o) ws.
Proof.
  intros M. pose proof (mid_wf _ _ M) as W.
  destruct (finish_spec s o W) as (W' & _).
  assert (M1 : Mid (release_all current s o) ws).
  { unfold release_all. destruct (get_ctx s o); auto. now apply release_fold_mid. }
  destruct (release_all_spec s o W) as (_ & _ & N1).
  destruct M1 as [W1 K1 He1 Hn1].
  destruct (remove_all_spec (edges (release_all current s o)) o K1) as (K' & Sp).
  constructor; auto.
  - now rewrite finish_edges.
  - intros w b r. rewrite finish_edges, Sp, finish_active, finish_owner, remz_In. simpl.
    destruct (He1 w b r) as [H1 H2]. split.
    + intros (X1 & X2 & X3). apply H1 in X3. tauto.
    + intros (X1 & (X2 & X3) & X4). split; auto. split.
      * intros ->. apply (N1 r). auto.
      * apply H2. auto.
  - intros w r X. rewrite finish_owner. auto.
Qed.

Lemma abort_if_active_mid s ws o : Mid s ws -> Mid (abort_if_active current s o) ws.
Proof. intros M. unfold abort_if_active. destruct (is_active s o); auto. now apply finish_mid. Qed.

Lemma abort_fold_mid ws (L : list Z) : forall s,
  Mid s ws -> Mid (fold_left (abort_if_active current) L s) ws.
Proof. induction L as [|o L IH]; intros s M; simpl; auto. apply IH, abort_if_active_mid, M. Qed.

(* ---- one step of a history; all histories ---- *)
Lemma gstep_inv w gs h : Inv gs -> Inv (fst (gstep current w gs h)).
Proof.
  destruct gs as [s ws]. intros I. pose proof (inv_mid _ _ I) as M.
  unfold gstep. destruct h as [o p|o r|o r|o|o| |o|o p]; cbn [to_fop fstep note_attempt].
  - destruct (has_ctx s o) eqn:E; simpl; apply mid_inv; auto.
    apply start_mid; auto. now apply has_ctx_false.
  - destruct (is_active s o) eqn:E; simpl; [|apply mid_inv; auto].
    destruct (acquire current s o r) as [s' res] eqn:Ha.
    pose proof (acquire_mid _ _ _ _ _ _ I (proj1 (is_active_In s o) E) Ha) as M'.
    destruct res as [lr| |]; simpl; apply mid_inv; auto; destruct lr; auto.
  - destruct (is_active s o) eqn:E; simpl; [|apply mid_inv; auto].
    destruct (release current s o r) as [s' b] eqn:Hr. simpl. apply mid_inv. eapply release_mid; eauto.
  - destruct (is_active s o); simpl; apply mid_inv; auto. now apply finish_mid.
  - destruct (is_active s o); simpl; apply mid_inv; auto. now apply finish_mid.
  - unfold wd_execute. rewrite fold_abort_events. simpl. apply mid_inv. now apply abort_fold_mid.
  - (* manual kill: an abort *)
    destruct (is_active s o); simpl; apply mid_inv; auto. now apply finish_mid.
  - (* a start with the watchdog_exempt mark *)
    destruct (has_ctx s o) eqn:E; simpl; apply mid_inv; auto.
    apply start_mid; auto. now apply has_ctx_false.
Qed.

Lemma ginit_inv res : Inv (ginit res).
Proof.
  constructor; simpl.
  - apply wf_init.
  - constructor.
  - intros w b r. simpl. split; [intros [] | intros ([] & _)].
  - intros w r [].
  - intros w r [].
Qed.

Lemma grun_inv w hs : forall gs, Inv gs -> Inv (grun current w gs hs).
Proof. induction hs as [|h hs IH]; intros gs I; simpl; auto. apply IH, gstep_inv, I. Qed.

Lemma reachable_inv res w hs : Inv (grun current w (ginit res) hs).
Proof. apply grun_inv, ginit_inv. Qed.

(* the two relations as lists of triples *)
Lemma In_aget_nodup (g : graph) k l : gwf g -> In (k, l) g -> aget g k = Some l.
Proof.
  unfold gwf. induction g as [|[k0 l0] g IH]; simpl; [tauto|]. intros ND [X|X].
  - inversion X; subst. now rewrite Z.eqb_refl.
  - inversion ND; subst. destruct (Z.eqb k0 k) eqn:E; auto.
    assert (k0 = k) by lia. subst. exfalso. apply H1. change k with (fst (k, l)). now apply in_map.
Qed.

Lemma rec_edges_In s w b r :
  gwf (edges s) -> (In (w, b, r) (rec_edges s) <-> In (b, r) (succs (edges s) w)).
Proof.
  intros K. unfold rec_edges. rewrite in_flat_map. split.
  - intros ([k l] & Hin & X). simpl in X. apply in_map_iff in X as ([b0 r0] & Y & Z).
    simpl in Y. inversion Y; subst. unfold succs. now rewrite (In_aget_nodup _ _ _ K Hin).
  - intros X. unfold succs in X. destruct (aget (edges s) w) as [l|] eqn:A; [|destruct X].
    exists (w, l). split. { now apply aget_In. }
    simpl. apply in_map_iff. exists (b, r). auto.
Qed.

Lemma ref_edges_In gs w b r :
  In (w, b, r) (ref_edges gs) <-> (In (w, r) (snd gs) /\ owner (fst gs) r = Some b).
Proof.
  unfold ref_edges. rewrite in_flat_map. split.
  - intros ([w0 r0] & Hin & X). simpl in X. destruct (owner (fst gs) r0) eqn:O; [|destruct X].
    destruct X as [X|[]]. inversion X; subst. auto.
  - intros (X & O). exists (w, r). split; auto. simpl. rewrite O. simpl. auto.
Qed.

Lemma edges_exact_inv gs w b r :
  Inv gs -> (In (w, b, r) (rec_edges (fst gs)) <-> In (w, b, r) (ref_edges gs)).
Proof.
  intros I. rewrite rec_edges_In by apply I. rewrite ref_edges_In.
  destruct (inv_E _ I w b r) as [H1 H2]. split.
  - intros X. apply H1 in X. tauto.
  - intros (X & O). apply H2. split; auto. split; auto. now apply (inv_live _ I w r).
Qed.

Lemma edges_exact_proof res w hs :
  let gs := grun current w (ginit res) hs in
  forall wt b r, In (wt, b, r) (rec_edges (fst gs)) <-> In (wt, b, r) (ref_edges gs).
Proof. intros gs wt b r. apply edges_exact_inv, reachable_inv. Qed.

(* what the ghost relation means in every reachable state *)
Lemma blocked_live_proof res w hs :
  let gs := grun current w (ginit res) hs in
  forall wt r, In (wt, r) (snd gs) ->
    In wt (active (fst gs)) /\ exists b, owner (fst gs) r = Some b /\ b <> wt /\ In b (active (fst gs)).
Proof.
  intros gs wt r X. pose proof (reachable_inv res w hs) as I. fold gs in I.
  destruct (inv_live _ I wt r X) as (A & O). split; auto.
  destruct (owner (fst gs) r) as [b|] eqn:Ob; [|congruence].
  exists b. split; auto. split.
  - intros ->. now apply (inv_ns _ I wt r X).
  - eapply wf_owner_active; eauto. apply I.
Qed.

(* ================================================================== *)
(* Part 4: the watchdog's victim                                        *)

(* min(xs, key=...) returns the FIRST element with the smallest key *)
Lemma min_by_spec key : forall l best,
  exists l1 l2, best :: l = l1 ++ min_by key best l :: l2 /\
    (forall m, In m l1 -> key (min_by key best l) < key m) /\
    (forall m, In m l2 -> key (min_by key best l) <= key m).
Proof.
  induction l as [|x l IH]; intros best; simpl.
  - exists [], []. split; auto. split; intros m [].
  - destruct (Z.ltb (key x) (key best)) eqn:E.
    + destruct (IH x) as (l1 & l2 & Heq & H1 & H2).
      set (r := min_by key x l) in *.
      assert (Hx : key r <= key x).
      { assert (X : In x (l1 ++ r :: l2)) by (rewrite <- Heq; simpl; auto).
        apply in_app_or in X as [X|[X|X]].
        - specialize (H1 x X). lia.
        - rewrite X. lia.
        - now apply H2. }
      exists (best :: l1), l2. split. { simpl. now rewrite Heq. }
      split; auto. intros m [<-|X]; [lia | auto].
    + destruct (IH best) as (l1 & l2 & Heq & H1 & H2).
      set (r := min_by key best l) in *.
      destruct l1 as [|b l1].
      * simpl in Heq. inversion Heq. exists [], (x :: l2). split.
        { simpl. congruence. }
        split; [intros m []|]. intros m [<-|X]; [rewrite <- H0; lia | auto].
      * simpl in Heq. inversion Heq. subst b. exists (best :: x :: l1), l2. split.
        { simpl. congruence. }
        split; auto. intros m [<-|[<-|X]].
        -- apply H1. simpl. auto.
        -- assert (key r < key best) by (apply H1; simpl; auto). lia.
        -- apply H1. simpl. auto.
Qed.

Lemma filter_all {A} (f : A -> bool) l : (forall x, In x l -> f x = true) -> filter f l = l.
Proof.
  induction l as [|a l IH]; simpl; auto. intros H. rewrite (H a) by auto. f_equal. apply IH. auto.
Qed.

Lemma chain_members_succ g z : forall l, chain g (l ++ [z]) -> forall m, In m l -> exists y, gedge g m y.
Proof.
  induction l as [|a l IH]; intros C m []; subst.
  - destruct l as [|b l]; simpl in C; destruct C as [C _]; eauto.
  - apply IH; auto. eapply chain_tail; eauto.
Qed.

Lemma cycle_members_succ g c m : is_cycle g c -> In m c -> exists y, gedge g m y.
Proof. destruct c as [|x c]; simpl; [tauto|]. intros C. now apply (chain_members_succ g x (x :: c)). Qed.

(* members of a cycle of the recorded graph are live, blocked operations *)
Lemma cycle_members_live gs c m :
  Inv gs -> is_cycle (edges (fst gs)) c -> In m c ->
  In m (active (fst gs)) /\
  exists r b, In (m, r) (snd gs) /\ owner (fst gs) r = Some b /\ b <> m /\ In b (active (fst gs)).
Proof.
  intros I C Hm. destruct (cycle_members_succ _ _ _ C Hm) as (y & r & Hy).
  apply (inv_E _ I) in Hy as (X1 & X2 & X3). split; auto.
  exists r, y. split; auto. split; auto. split.
  - intros ->. now apply (inv_ns _ I m r X1).
  - eapply wf_owner_active; eauto. apply I.
Qed.

Definition victim_key (w : wcfg) (s : st) : option (Z -> Z) :=
  match w_strategy w with
  | SPriority => Some (prio_of s)
  | SOldest => Some (created_of s)
  | SOther => None
  end.

Lemma select_victim_spec w s c :
  c <> [] -> (forall m, In m c -> In m (active s)) ->
  exists v l1 l2, select_victim w s c = Some v /\ c = l1 ++ v :: l2 /\
    match victim_key w s with
    | Some key => (forall m, In m l1 -> key v < key m) /\ (forall m, In m l2 -> key v <= key m)
    | None => l1 = []
    end.
Proof.
  intros Hne Hact. unfold select_victim, victim_key.
  rewrite filter_all by (intros x X; apply is_active_In; auto).
  destruct c as [|x l]; [congruence|].
  destruct (w_strategy w).
  - destruct (min_by_spec (prio_of s) l x) as (l1 & l2 & A & B & C). eauto 10.
  - destruct (min_by_spec (created_of s) l x) as (l1 & l2 & A & B & C). eauto 10.
  - exists x, [], l. auto.
Qed.

Lemma wd_check_has_victim w s c v :
  detect_cycle (edges s) = Some c -> select_victim w s c = Some v -> In v (active s) ->
  In v (map fst (wd_check w s)).
Proof.
  intros D S A. unfold wd_check. rewrite D, S.
  destruct (memz v (map fst _)) eqn:M.
  - now apply memz_In.
  - assert (Ia : is_active s v = true) by now apply is_active_In.
    rewrite Ia. rewrite map_app, in_app_iff. simpl. auto.
Qed.

Lemma gstep_watchdog_state w gs :
  fst (fst (gstep current w gs HWatchdog)) = fst (wd_execute current w (fst gs)).
Proof.
  destruct gs as [s ws]. unfold gstep. cbn [to_fop fstep fst].
  destruct (wd_execute current w s) as [s' evs]. reflexivity.
Qed.

Lemma victim_proof w gs c :
  Inv gs -> detect_cycle (edges (fst gs)) = Some c ->
  let s := fst gs in
  let gs' := fst (gstep current w gs HWatchdog) in
  exists v l1 l2,
    select_victim w s c = Some v /\ c = l1 ++ v :: l2 /\ In v (active s) /\
    match victim_key w s with
    | Some key => (forall m, In m l1 -> key v < key m) /\ (forall m, In m l2 -> key v <= key m)
    | None => l1 = []
    end /\
    In v (map fst (snd (wd_execute current w s))) /\
    ~ In v (active (fst gs')) /\ (forall r, owner (fst gs') r <> Some v) /\
    ~ is_cycle (edges (fst gs')) c /\ Inv gs'.
Proof.
  intros I D. cbv zeta. destruct (cycle_sound_proof _ _ D) as (C & ND).
  assert (Hne : c <> []) by (destruct c; simpl in C; [tauto | discriminate]).
  assert (Hact : forall m, In m c -> In m (active (fst gs))).
  { intros m Hm. now apply (cycle_members_live gs c m I C Hm). }
  destruct (select_victim_spec w (fst gs) c Hne Hact) as (v & l1 & l2 & S & Hc & K).
  assert (Hv : In v c) by (rewrite Hc; apply in_or_app; simpl; auto).
  exists v, l1, l2. split; auto. split; auto. split; auto. split; auto.
  pose proof (wd_check_has_victim w (fst gs) c v D S (Hact v Hv)) as Hev.
  split. { exact Hev. }
  pose proof (gstep_inv w gs HWatchdog I) as I'.
  pose proof (wd_execute_spec w (fst gs) (inv_wf _ I)) as X.
  rewrite gstep_watchdog_state.
  destruct (wd_execute current w (fst gs)) as [s' evs] eqn:Ew.
  assert (Hev' : In v (map fst evs)).
  { unfold wd_execute in Ew. inversion Ew; subst. exact Hev. }
  destruct X as (W' & _ & _ & N). destruct (N v Hev') as (Na & No).
  simpl fst. split; auto. split; auto. split; auto.
  (* the victim has no outgoing edge any more *)
  intros C'.
  assert (Es : fst (fst (gstep current w gs HWatchdog)) = s').
  { rewrite gstep_watchdog_state, Ew. reflexivity. }
  rewrite <- Es in C'.
  destruct (cycle_members_live _ c v I' C' Hv) as (A' & _).
  rewrite Es in A'. apply Na. exact A'.
Qed.

Lemma victim_reachable_proof res w hs c :
  let gs := grun current w (ginit res) hs in
  detect_cycle (edges (fst gs)) = Some c ->
  let s := fst gs in
  let gs' := fst (gstep current w gs HWatchdog) in
  exists v l1 l2,
    select_victim w s c = Some v /\ c = l1 ++ v :: l2 /\ In v (active s) /\
    match victim_key w s with
    | Some key => (forall m, In m l1 -> key v < key m) /\ (forall m, In m l2 -> key v <= key m)
    | None => l1 = []
    end /\
    In v (map fst (snd (wd_execute current w s))) /\
    ~ In v (active (fst gs')) /\ (forall r, owner (fst gs') r <> Some v) /\
    ~ is_cycle (edges (fst gs')) c /\ Inv gs'.
Proof. intros gs D. apply victim_proof; auto. apply reachable_inv. Qed.

(* detection is exact on the REFERENCE relation in every reachable state *)
Definition ref_graph_edge (gs : gstate) (x y : Z) : Prop :=
  exists r, In (x, y, r) (ref_edges gs).

Lemma gedge_ref gs x y : Inv gs -> (gedge (edges (fst gs)) x y <-> ref_graph_edge gs x y).
Proof.
  intros I. unfold gedge, ref_graph_edge. split; intros (r & X); exists r.
  - apply edges_exact_inv; auto. apply rec_edges_In; auto. apply I.
  - apply edges_exact_inv in X; auto. apply rec_edges_In in X; auto. apply I.
Qed.

(* cycles of an arbitrary relation, to speak about the REFERENCE relation *)
Fixpoint rchain (R : Z -> Z -> Prop) (l : list Z) : Prop :=
  match l with
  | x :: ((y :: _) as t) => R x y /\ rchain R t
  | _ => True
  end.
Definition is_rcycle (R : Z -> Z -> Prop) (c : list Z) : Prop :=
  match c with [] => False | x :: _ => rchain R (c ++ [x]) end.

Lemma chain_rchain g R : (forall x y, gedge g x y <-> R x y) -> forall l, chain g l <-> rchain R l.
Proof.
  intros H. induction l as [|a l IH]; simpl; [tauto|].
  destruct l as [|b l]; [tauto|]. rewrite (H a b). tauto.
Qed.

Lemma is_cycle_rcycle g R c : (forall x y, gedge g x y <-> R x y) -> (is_cycle g c <-> is_rcycle R c).
Proof. intros H. destruct c as [|x c]; [simpl; tauto|]. unfold is_cycle, is_rcycle. now apply chain_rchain. Qed.

Lemma deadlock_iff_reference_proof res w hs :
  let gs := grun current w (ginit res) hs in
  (detect_cycle (edges (fst gs)) <> None <-> exists c, is_rcycle (ref_graph_edge gs) c) /\
  (forall c, detect_cycle (edges (fst gs)) = Some c ->
     is_rcycle (ref_graph_edge gs) c /\ NoDup c /\
     forall m, In m c ->
       In m (active (fst gs)) /\
       exists r b, In (m, r) (snd gs) /\ owner (fst gs) r = Some b /\ b <> m /\ In b (active (fst gs))).
Proof.
  intros gs. pose proof (reachable_inv res w hs) as I. fold gs in I.
  assert (H : forall x y, gedge (edges (fst gs)) x y <-> ref_graph_edge gs x y)
    by (intros; now apply gedge_ref).
  split; [split|].
  - intros N. destruct (detect_cycle (edges (fst gs))) as [c|] eqn:D; [|congruence].
    exists c. apply (is_cycle_rcycle _ _ c H). now apply cycle_sound_proof.
  - intros (c & C). apply cycle_complete_proof. exists c. now apply (is_cycle_rcycle _ _ c H).
  - intros c D. destruct (cycle_sound_proof _ _ D) as (C & ND).
    split. { now apply (is_cycle_rcycle _ _ c H). }
    split; auto. intros m Hm. now apply (cycle_members_live gs c m I C Hm).
Qed.

(* ================================================================== *)
(* Part 5: priorities that change during the history                    *)
(* (priority inheritance, plain assignments, allow_preemption toggled)  *)

(* -- get_blocking_chain terminates within its fuel ------------------- *)
Lemma chain_walk_fuel g : forall fuel cur rest,
  NoDup (cur :: rest) -> incl rest (map fst g) -> (length g < fuel + length rest)%nat ->
  chain_walk fuel g cur (cur :: rest) <> None.
Proof.
  induction fuel as [|f IH]; intros cur rest ND I L.
  - exfalso. inversion ND; subst. pose proof (NoDup_incl_length H2 I) as X.
    rewrite map_length in X. simpl in L. lia.
  - cbn [chain_walk]. destruct (succs g cur) as [|[b r0] t] eqn:S; [discriminate|].
    destruct (memz b (cur :: rest)) eqn:M; [discriminate|].
    apply memz_false in M.
    assert (K : In cur (map fst g)).
    { unfold succs in S. destruct (aget g cur) eqn:A; [|discriminate]. eapply aget_Some_in; eauto. }
    assert (X : chain_walk f g b (b :: cur :: rest) <> None).
    { apply IH.
      - constructor; auto.
      - intros x [<-|Hx]; auto.
      - simpl. lia. }
    destruct (chain_walk f g b (b :: cur :: rest)); [discriminate | congruence].
Qed.

Lemma blocking_tail_fuel g a : blocking_tail g a <> None.
Proof.
  unfold blocking_tail. apply chain_walk_fuel.
  - constructor; [intros [] | constructor].
  - intros x [].
  - simpl. lia.
Qed.

Lemma boost_waiters_fuel g : forall keys s bs, boost_waiters g keys s bs <> None.
Proof.
  induction keys as [|k keys IH]; intros s bs; cbn [boost_waiters]; [discriminate|].
  destruct (active_ctx s k) as [c|]; auto.
  destruct (blocking_tail g k) as [ch|] eqn:B; [|now apply blocking_tail_fuel in B].
  destruct (boost_chain s bs (c_prio c) ch) as [[s1 bs1] nb1].
  specialize (IH s1 bs1). destruct (boost_waiters g keys s1 bs1) as [[[s2 bs2] nb2]|]; [discriminate | congruence].
Qed.

Lemma boost_fuel_proof s bs : check_and_boost s bs <> None.
Proof. apply boost_waiters_fuel. Qed.

(* -- calls that leave locks' owners, the active set and the graph alone -- *)
Record same_rel (s s' : st) : Prop := mkSame {
  sr_wf : WF s -> WF s';
  sr_active : active s' = active s;
  sr_edges : edges s' = edges s;
  sr_owner : forall r, owner s' r = owner s r }.

Lemma same_rel_refl s : same_rel s s.
Proof. constructor; auto. Qed.

Lemma same_rel_trans s1 s2 s3 : same_rel s1 s2 -> same_rel s2 s3 -> same_rel s1 s3.
Proof.
  intros [A1 B1 C1 D1] [A2 B2 C2 D2]. constructor; auto; try congruence.
Qed.

Lemma put_prio_same s o c p : get_ctx s o = Some c -> same_rel s (put_ctx s o (c_set_prio c p)).
Proof.
  intros Hc. constructor; auto.
  intros W. apply (wf_put_ctx s o c _ W Hc). apply incl_refl.
Qed.

Lemma set_prio_same s o p : same_rel s (set_prio s o p).
Proof.
  unfold set_prio. destruct (get_ctx s o) as [c|] eqn:Hc; [now apply put_prio_same | apply same_rel_refl].
Qed.

Lemma set_preempt_same s r l b : get_lock s r = Some l -> same_rel s (put_lock s r (l_set_preempt l b)).
Proof.
  intros Hl. constructor; auto.
  - intros W. constructor.
    + intros r' l'. rewrite get_lock_put_lock. destruct (Z.eqb r r') eqn:E.
      * intros X. inversion X; subst. assert (r = r') by lia. subst.
        exact (wf_lock s W r' l Hl).
      * apply (wf_lock s W).
    + intros r' l' o'. rewrite get_lock_put_lock, get_ctx_put_lock, active_put_lock.
      destruct (Z.eqb r r') eqn:E.
      * intros X Ho. inversion X; subst. assert (r = r') by lia. subst.
        exact (wf_own s W r' l o' Hl Ho).
      * apply (wf_own s W).
    + intros o'. rewrite active_put_lock, get_ctx_put_lock. apply (wf_act s W).
  - intros r'. rewrite !owner_def, get_lock_put_lock. destruct (Z.eqb r r') eqn:E; auto.
    assert (r = r') by lia. subst. now rewrite Hl.
Qed.

(* the other calls of the step API that are no acquisition / release / end of an operation:
   time passing, controller.advance, ResourceLock.pop_next_waiter *)
Definition quiet_fop (a : fop) : Prop :=
  match a with FTick _ | FAdvance _ | FPopWaiter _ => True | _ => False end.

Lemma quiet_fop_same fl w s a : quiet_fop a -> same_rel s (fst (fstep fl w s a)).
Proof.
  intros Q. destruct a; try destruct Q.
  - (* time passes *)
    constructor; auto. intros W. exact (fstep_wf w s (FTick d) W).
  - (* advance: only ctx.phase / phase_entered_at change *)
    constructor.
    + intros W. exact (fstep_wf w s (FAdvance o) W).
    + cbn [fstep]. unfold advance. destruct (is_active s o); auto.
      destruct (get_ctx s o) as [c|]; auto. destruct (default_cond c); auto.
    + cbn [fstep]. unfold advance. destruct (is_active s o); auto.
      destruct (get_ctx s o) as [c|]; auto. destruct (default_cond c); auto.
    + intros r. cbn [fstep]. unfold advance. destruct (is_active s o); auto.
      destruct (get_ctx s o) as [c|]; auto. destruct (default_cond c); auto.
  - (* pop_next_waiter: only the waiting list of r changes *)
    constructor.
    + intros W. exact (fstep_wf w s (FPopWaiter r) W).
    + cbn [fstep]. destruct (get_lock s r) as [l|]; auto. destruct (l_wait l); auto.
    + cbn [fstep]. destruct (get_lock s r) as [l|]; auto. destruct (l_wait l); auto.
    + intros r'. cbn [fstep]. destruct (get_lock s r) as [l|] eqn:Hl; auto. destruct (l_wait l); auto.
      cbn [fst]. rewrite !owner_def, get_lock_put_lock. destruct (Z.eqb r r') eqn:E; auto.
      assert (r = r') by lia. subst. now rewrite Hl.
Qed.

Lemma boost_chain_same : forall ch s bs maxp, same_rel s (fst (fst (boost_chain s bs maxp ch))).
Proof.
  induction ch as [|o ch IH]; intros s bs maxp; cbn [boost_chain]; [apply same_rel_refl|].
  unfold active_ctx. destruct (is_active s o); [|apply IH].
  destruct (get_ctx s o) as [c|] eqn:Hc; [|apply IH].
  destruct (Z.ltb (c_prio c) maxp); [|apply IH].
  set (orig := match aget bs o with Some ob => fst ob | None => c_prio c end).
  pose proof (IH (put_ctx s o (c_set_prio c maxp)) (aset bs o (orig, maxp)) maxp) as X.
  destruct (boost_chain (put_ctx s o (c_set_prio c maxp)) (aset bs o (orig, maxp)) maxp ch) as [[s2 bs2] nb].
  simpl in *. eapply same_rel_trans; [|exact X]. now apply put_prio_same.
Qed.

Lemma boost_waiters_same g : forall keys s bs out,
  boost_waiters g keys s bs = Some out -> same_rel s (fst (fst out)).
Proof.
  induction keys as [|k keys IH]; intros s bs out; cbn [boost_waiters].
  - intros H. inversion H. apply same_rel_refl.
  - destruct (active_ctx s k) as [c|]; [|apply IH].
    destruct (blocking_tail g k) as [ch|]; [|discriminate].
    pose proof (boost_chain_same ch s bs (c_prio c)) as X.
    destruct (boost_chain s bs (c_prio c) ch) as [[s1 bs1] nb1]. simpl in X.
    pose proof (IH s1 bs1) as Y.
    destruct (boost_waiters g keys s1 bs1) as [[[s2 bs2] nb2]|]; [|discriminate].
    intros H. inversion H. simpl. eapply same_rel_trans; [exact X|]. exact (Y _ eq_refl).
Qed.

Lemma clear_boosts_same bs : forall s, same_rel s (clear_boosts s bs).
Proof.
  unfold clear_boosts. induction bs as [|kv bs IH]; intros s; simpl; [apply same_rel_refl|].
  eapply same_rel_trans; [|apply IH].
  destruct (is_active s (fst kv)); [apply set_prio_same | apply same_rel_refl].
Qed.

Lemma inv_same_rel gs gs' : Inv gs -> same_rel (fst gs) (fst gs') -> snd gs' = snd gs -> Inv gs'.
Proof.
  intros [W K He Hn Hl] [A B C D] Hw. constructor.
  - auto.
  - now rewrite C.
  - intros w b r. rewrite C, B, D, Hw. apply He.
  - intros w r X. rewrite D. rewrite Hw in X. auto.
  - intros w r X. rewrite B, D. rewrite Hw in X. auto.
Qed.

(* what a priority call does to the state *)
Lemma register_same s r b : get_lock s r = None -> same_rel s (put_lock s r (mkLock None 0 0 b [])).
Proof.
  intros Hl. constructor; auto.
  - intros W. constructor.
    + intros r' l'. rewrite get_lock_put_lock. destruct (Z.eqb r r') eqn:E.
      * intros X. inversion X; subst. reflexivity.
      * apply (wf_lock s W).
    + intros r' l' o'. rewrite get_lock_put_lock, get_ctx_put_lock, active_put_lock.
      destruct (Z.eqb r r') eqn:E.
      * intros X Ho. inversion X; subst. discriminate.
      * apply (wf_own s W).
    + intros o'. rewrite active_put_lock, get_ctx_put_lock. apply (wf_act s W).
  - intros r'. rewrite !owner_def, get_lock_put_lock. destruct (Z.eqb r r') eqn:E; auto.
    assert (r = r') by lia. subst. now rewrite Hl.
Qed.

(* the calls that are no start / acquisition / release / end of an operation / watchdog pass
   (release_all_resources, shutdown and run_maintenance release or end operations) *)
Definition prio_call (a : xop) : Prop :=
  match a with XHop _ | XReleaseAll _ | XShutdown | XMaintain => False | _ => True end.

Lemma prio_call_same fl w xs a :
  prio_call a ->
  let xs' := fst (xstep fl w xs a) in
  same_rel (fst (fst xs)) (fst (fst xs')) /\ snd (fst xs') = snd (fst xs).
Proof.
  intros P. destruct xs as [[s ws] bs].
  destruct a as [h|  |o|  |o p|r b|d|o|r|o| | |r b]; try (now destruct P); cbn [xstep].
  - pose proof (boost_waiters_same (edges s) (map fst (edges s)) s bs) as X.
    unfold check_and_boost. destruct (boost_waiters (edges s) (map fst (edges s)) s bs) as [[[s' bs'] nb]|].
    + simpl. split; auto. exact (X _ eq_refl).
    + simpl. split; auto. apply same_rel_refl.
  - destruct (is_active s o); [|simpl; split; auto; apply same_rel_refl].
    destruct (aget bs o) as [ob|]; simpl; split; auto; [apply set_prio_same | apply same_rel_refl].
  - simpl. split; auto. apply clear_boosts_same.
  - destruct (is_active s o); simpl; split; auto; [apply set_prio_same | apply same_rel_refl].
  - destruct (get_lock s r) as [l|] eqn:Hl; simpl; split; auto; [now apply set_preempt_same | apply same_rel_refl].
  - pose proof (quiet_fop_same fl w s (FTick d) I) as X. unfold xfop.
    destruct (fstep fl w s (FTick d)) as [s' ret]. simpl in *. split; auto.
  - pose proof (quiet_fop_same fl w s (FAdvance o) I) as X. unfold xfop.
    destruct (fstep fl w s (FAdvance o)) as [s' ret]. simpl in *. split; auto.
  - pose proof (quiet_fop_same fl w s (FPopWaiter r) I) as X. unfold xfop.
    destruct (fstep fl w s (FPopWaiter r)) as [s' ret]. simpl in *. split; auto.
  - destruct (get_lock s r) as [l|] eqn:Hl; simpl; split; auto; [apply same_rel_refl | now apply register_same].
Qed.

Lemma rec_edges_same s s' : edges s' = edges s -> rec_edges s' = rec_edges s.
Proof. unfold rec_edges. now intros ->. Qed.

Lemma ref_edges_same gs gs' :
  snd gs' = snd gs -> (forall r, owner (fst gs') r = owner (fst gs) r) -> ref_edges gs' = ref_edges gs.
Proof.
  intros Hw O. unfold ref_edges. rewrite Hw. generalize (snd gs). intros l.
  induction l as [|x l IH]; simpl; auto. now rewrite O, IH.
Qed.

(* a call that is not an acquisition / release / completion / abort / watchdog run
   changes neither relation nor the verdict of check_deadlock — for ANY state *)
Lemma prio_call_keeps_relation_proof fl w xs a :
  prio_call a ->
  let xs' := fst (xstep fl w xs a) in
  rec_edges (fst (fst xs')) = rec_edges (fst (fst xs)) /\
  ref_edges (fst xs') = ref_edges (fst xs) /\
  detect_cycle (edges (fst (fst xs'))) = detect_cycle (edges (fst (fst xs))) /\
  active (fst (fst xs')) = active (fst (fst xs)) /\
  (forall r, owner (fst (fst xs')) r = owner (fst (fst xs)) r).
Proof.
  intros P. destruct (prio_call_same fl w xs a P) as ([_ A Ed O] & Hw). cbv zeta in *.
  split. { now apply rec_edges_same. }
  split. { now apply ref_edges_same. }
  split. { now rewrite Ed. }
  split; auto.
Qed.

(* -- all histories over the extended alphabet -------------------------- *)
Lemma mid_same_rel s s' ws : Mid s ws -> same_rel s s' -> Mid s' ws.
Proof.
  intros [W K He Hn] [A B C D]. constructor.
  - auto.
  - now rewrite C.
  - intros w b r. rewrite C, B, D. apply He.
  - intros w r X. rewrite D. auto.
Qed.

Lemma release_all_mid s ws o : Mid s ws -> Mid (release_all current s o) ws.
Proof. intros M. unfold release_all. destruct (get_ctx s o); auto. now apply release_fold_mid. Qed.

Lemma shutdown_mid s ws : Mid s ws -> Mid (shutdown current s) ws.
Proof. intros M. unfold shutdown. now apply abort_fold_mid. Qed.

Lemma check_and_boost_same s bs s' bs' nb :
  check_and_boost s bs = Some (s', bs', nb) -> same_rel s s'.
Proof.
  intros H. exact (boost_waiters_same (edges s) (map fst (edges s)) s bs (s', bs', nb) H).
Qed.

Lemma xstep_inv w xs a : Inv (fst xs) -> Inv (fst (fst (xstep current w xs a))).
Proof.
  intros Hi. destruct a as [h|  |o|  |o p|r b|d|o|r|o| | |r b].
  1:{ destruct xs as [[s ws] bs]. cbn [xstep]. pose proof (gstep_inv w (s, ws) h Hi) as X.
      destruct (gstep current w (s, ws) h) as [gs' ret]. exact X. }
  9:{ (* release_all_resources on an operation that stays alive *)
      destruct xs as [[s ws] bs]. cbn [xstep]. destruct (is_active s o); [|exact Hi].
      cbn [fst]. apply mid_inv, release_all_mid, inv_mid, Hi. }
  9:{ (* shutdown: a fold of aborts, then clear_all *)
      destruct xs as [[s ws] bs]. cbn [xstep fst]. apply mid_inv.
      eapply mid_same_rel; [|apply clear_boosts_same]. apply shutdown_mid, inv_mid, Hi. }
  9:{ (* run_maintenance: check_and_boost, then the watchdog *)
      destruct xs as [[s ws] bs]. cbn [xstep].
      destruct (check_and_boost s bs) as [[[s1 bs1] nb]|] eqn:B; [|exact Hi].
      assert (I1 : Inv (s1, ws)).
      { eapply inv_same_rel; [exact Hi| |reflexivity]. exact (check_and_boost_same _ _ _ _ _ B). }
      pose proof (gstep_inv w (s1, ws) HWatchdog I1) as X.
      destruct (gstep current w (s1, ws) HWatchdog) as [gs' ret]. exact X. }
  all: match goal with |- Inv (fst (fst (xstep _ _ _ ?a))) =>
         destruct (prio_call_same current w xs a I) as (S & Hw) end;
       eapply inv_same_rel; eauto.
Qed.

Lemma xinit_inv res : Inv (fst (xinit res)).
Proof. apply ginit_inv. Qed.

Lemma xrun_inv w hs : forall xs, Inv (fst xs) -> Inv (fst (xrun current w xs hs)).
Proof. induction hs as [|a hs IH]; intros xs Hi; simpl; auto. apply IH, xstep_inv, Hi. Qed.

Lemma xreachable_inv res w hs : Inv (fst (xrun current w (xinit res) hs)).
Proof. apply xrun_inv, xinit_inv. Qed.

(* a manual kill (CoordinationSystem.kill_operation -> Watchdog.manual_kill) is an abort *)
Lemma kill_is_abort_proof fl w gs o : fst (gstep fl w gs (HKill o)) = fst (gstep fl w gs (HAbort o)).
Proof.
  destruct gs as [s ws]. unfold gstep. cbn [to_fop fstep note_attempt].
  destruct (is_active s o); reflexivity.
Qed.

(* histories over the basic alphabet are the histories without priority calls *)
Lemma xrun_hops_proof fl w hs : forall gs bs,
  xrun fl w (gs, bs) (map XHop hs) = (grun fl w gs hs, bs).
Proof.
  induction hs as [|h hs IH]; intros gs bs; simpl; auto.
  destruct gs as [s ws]. cbn [xstep].
  destruct (gstep fl w (s, ws) h) as [gs' ret] eqn:G. simpl. rewrite IH. reflexivity.
Qed.

Lemma x_edges_exact_proof res w hs :
  let gs := fst (xrun current w (xinit res) hs) in
  forall wt b r, In (wt, b, r) (rec_edges (fst gs)) <-> In (wt, b, r) (ref_edges gs).
Proof. intros gs wt b r. apply edges_exact_inv, xreachable_inv. Qed.

Lemma blocked_live_inv gs :
  Inv gs -> forall wt r, In (wt, r) (snd gs) ->
    In wt (active (fst gs)) /\ exists b, owner (fst gs) r = Some b /\ b <> wt /\ In b (active (fst gs)).
Proof.
  intros Hi wt r X. destruct (inv_live _ Hi wt r X) as (A & O). split; auto.
  destruct (owner (fst gs) r) as [b|] eqn:Ob; [|congruence].
  exists b. split; auto. split.
  - intros ->. now apply (inv_ns _ Hi wt r X).
  - eapply wf_owner_active; eauto. apply Hi.
Qed.

Lemma x_blocked_live_proof res w hs :
  let gs := fst (xrun current w (xinit res) hs) in
  forall wt r, In (wt, r) (snd gs) ->
    In wt (active (fst gs)) /\ exists b, owner (fst gs) r = Some b /\ b <> wt /\ In b (active (fst gs)).
Proof. intros gs. apply blocked_live_inv, xreachable_inv. Qed.

(* nobody is recorded as waiting for itself *)
Lemma no_self_wait_inv gs : Inv gs -> forall wt r, ~ In (wt, wt, r) (rec_edges (fst gs)).
Proof.
  intros Hi wt r X. apply (edges_exact_inv gs wt wt r Hi) in X. apply ref_edges_In in X as (X & O).
  exact (inv_ns _ Hi wt r X O).
Qed.

Lemma x_no_self_wait_proof res w hs :
  let gs := fst (xrun current w (xinit res) hs) in
  forall wt r, ~ In (wt, wt, r) (rec_edges (fst gs)).
Proof. intros gs. apply no_self_wait_inv, xreachable_inv. Qed.

(* an acquisition that returns ACQUIRED, REENTRANT or PREEMPTED leaves no recorded
   wait of that operation for that resource - whatever was recorded before *)
Lemma obtained_not_waiting_inv w xs o r :
  Inv (fst xs) ->
  let xs' := fst (xstep current w xs (XHop (HAcquire o r))) in
  let ret := snd (xstep current w xs (XHop (HAcquire o r))) in
  (ret = [0] \/ ret = [2] \/ ret = [3]) ->
  ~ In (o, r) (snd (fst xs')) /\ forall b, ~ In (o, b, r) (rec_edges (fst (fst xs'))).
Proof.
  intros Hi. pose proof (xstep_inv w xs (XHop (HAcquire o r)) Hi) as Hi'.
  destruct xs as [[s ws] bs]. cbv zeta. intros Hret.
  assert (N : ~ In (o, r) (snd (fst (fst (xstep current w (s, ws, bs) (XHop (HAcquire o r))))))).
  { revert Hret. cbn [xstep gstep to_fop fstep note_attempt].
    destruct (is_active s o) eqn:Ea.
    2:{ simpl. intros [X|[X|X]]; discriminate. }
    destruct (acquire current s o r) as [s' res] eqn:Ha.
    destruct res as [lr| |]; simpl; try (intros [X|[X|X]]; discriminate).
    destruct lr; simpl; try (intros [X|[X|X]]; discriminate); intros _ X;
      apply still_blocked_In in X as (X & _); apply rm_wait_In in X as (_ & X); apply X; auto. }
  split; auto. intros b X.
  set (gs' := fst (fst (xstep current w (s, ws, bs) (XHop (HAcquire o r))))) in *.
  apply (edges_exact_inv gs' o b r Hi') in X. apply ref_edges_In in X as (X & _). auto.
Qed.

Lemma x_obtained_not_waiting_proof res w hs o r :
  let xs := xrun current w (xinit res) hs in
  let xs' := fst (xstep current w xs (XHop (HAcquire o r))) in
  let ret := snd (xstep current w xs (XHop (HAcquire o r))) in
  (ret = [0] \/ ret = [2] \/ ret = [3]) ->
  ~ In (o, r) (snd (fst xs')) /\ forall b, ~ In (o, b, r) (rec_edges (fst (fst xs'))).
Proof. intros xs. apply obtained_not_waiting_inv, xreachable_inv. Qed.

Lemma x_victim_reachable_proof res w hs c :
  let gs := fst (xrun current w (xinit res) hs) in
  detect_cycle (edges (fst gs)) = Some c ->
  let s := fst gs in
  let gs' := fst (gstep current w gs HWatchdog) in
  exists v l1 l2,
    select_victim w s c = Some v /\ c = l1 ++ v :: l2 /\ In v (active s) /\
    match victim_key w s with
    | Some key => (forall m, In m l1 -> key v < key m) /\ (forall m, In m l2 -> key v <= key m)
    | None => l1 = []
    end /\
    In v (map fst (snd (wd_execute current w s))) /\
    ~ In v (active (fst gs')) /\ (forall r, owner (fst gs') r <> Some v) /\
    ~ is_cycle (edges (fst gs')) c /\ Inv gs'.
Proof. intros gs D. apply victim_proof; auto. apply xreachable_inv. Qed.

Lemma deadlock_iff_reference_inv gs :
  Inv gs ->
  (detect_cycle (edges (fst gs)) <> None <-> exists c, is_rcycle (ref_graph_edge gs) c) /\
  (forall c, detect_cycle (edges (fst gs)) = Some c ->
     is_rcycle (ref_graph_edge gs) c /\ NoDup c /\
     forall m, In m c ->
       In m (active (fst gs)) /\
       exists r b, In (m, r) (snd gs) /\ owner (fst gs) r = Some b /\ b <> m /\ In b (active (fst gs))).
Proof.
  intros Hi.
  assert (H : forall x y, gedge (edges (fst gs)) x y <-> ref_graph_edge gs x y)
    by (intros; now apply gedge_ref).
  split; [split|].
  - intros N. destruct (detect_cycle (edges (fst gs))) as [c|] eqn:D; [|congruence].
    exists c. apply (is_cycle_rcycle _ _ c H). now apply cycle_sound_proof.
  - intros (c & C). apply cycle_complete_proof. exists c. now apply (is_cycle_rcycle _ _ c H).
  - intros c D. destruct (cycle_sound_proof _ _ D) as (C & ND).
    split. { now apply (is_cycle_rcycle _ _ c H). }
    split; auto. intros m Hm. now apply (cycle_members_live gs c m Hi C Hm).
Qed.

Lemma x_deadlock_iff_reference_proof res w hs :
  let gs := fst (xrun current w (xinit res) hs) in
  (detect_cycle (edges (fst gs)) <> None <-> exists c, is_rcycle (ref_graph_edge gs) c) /\
  (forall c, detect_cycle (edges (fst gs)) = Some c ->
     is_rcycle (ref_graph_edge gs) c /\ NoDup c /\
     forall m, In m c ->
       In m (active (fst gs)) /\
       exists r b, In (m, r) (snd gs) /\ owner (fst gs) r = Some b /\ b <> m /\ In b (active (fst gs))).
Proof. intros gs. apply deadlock_iff_reference_inv, xreachable_inv. Qed.

(* ================================================================== *)
(* Part 6: the other public calls that release or end operations        *)

(* controller.release_all_resources(ctx) on an operation that stays alive: it is still active,
   owns nothing, nobody is recorded as waiting on it any more, what the others own and every
   recorded wait on somebody else (also the releaser's own waits) is as before *)
Lemma release_all_live_inv w xs o :
  Inv (fst xs) -> In o (active (fst (fst xs))) ->
  let xs' := fst (xstep current w xs (XReleaseAll o)) in
  snd (xstep current w xs (XReleaseAll o)) = [0] /\
  active (fst (fst xs')) = active (fst (fst xs)) /\
  (forall r, owner (fst (fst xs')) r <> Some o) /\
  (forall r b, b <> o -> (owner (fst (fst xs')) r = Some b <-> owner (fst (fst xs)) r = Some b)) /\
  (forall wt r, ~ In (wt, o, r) (rec_edges (fst (fst xs')))) /\
  (forall wt b r, b <> o ->
     (In (wt, b, r) (rec_edges (fst (fst xs'))) <-> In (wt, b, r) (rec_edges (fst (fst xs))))) /\
  snd xs' = snd xs.
Proof.
  intros Hi Ha. pose proof (xstep_inv w xs (XReleaseAll o) Hi) as Hi'.
  destruct xs as [[s ws] bs]. cbn [fst snd] in Hi, Ha. revert Hi'. cbv zeta. cbn [xstep].
  apply is_active_In in Ha. rewrite Ha. cbn [fst snd]. intros Hi'.
  destruct (release_all_spec s o (inv_wf _ Hi)) as (W' & Q & N). cbn [fst] in W', Q, N.
  set (s' := release_all current s o) in *.
  assert (Ow : forall r b, b <> o -> (owner s' r = Some b <-> owner s r = Some b)).
  { intros r b Nb. split; intros X.
    - assert (Y : owner s r <> Some o).
      { intros Y. destruct (q_freed _ _ _ Q r Y) as [Z|Z]; congruence. }
      rewrite owner_def in X. rewrite (q_lock _ _ _ Q r Y) in X. now rewrite owner_def.
    - assert (Y : owner s r <> Some o) by congruence.
      rewrite owner_def. rewrite (q_lock _ _ _ Q r Y). now rewrite <- owner_def. }
  split; auto. split. { exact (q_active _ _ _ Q). }
  split. { exact N. }
  split. { exact Ow. }
  split.
  - intros wt r X. apply (edges_exact_inv _ wt o r Hi') in X. apply ref_edges_In in X as (_ & X).
    cbn [fst] in X. exact (N r X).
  - split; auto. intros wt b r Nb.
    rewrite (edges_exact_inv _ wt b r Hi'), (edges_exact_inv _ wt b r Hi), !ref_edges_In. cbn [fst snd].
    rewrite still_blocked_In, (q_active _ _ _ Q), (Ow r b Nb). split.
    + intros ((X1 & _ & _) & X2). auto.
    + intros (X1 & X2). split; auto. split; auto.
      destruct (inv_live _ Hi wt r X1) as (A & _). split; auto.
      cbn [fst] in *. intros Z. apply (Ow r b Nb) in X2. congruence.
Qed.

Lemma x_release_all_live_proof res w hs o :
  let xs := xrun current w (xinit res) hs in
  In o (active (fst (fst xs))) ->
  let xs' := fst (xstep current w xs (XReleaseAll o)) in
  snd (xstep current w xs (XReleaseAll o)) = [0] /\
  active (fst (fst xs')) = active (fst (fst xs)) /\
  (forall r, owner (fst (fst xs')) r <> Some o) /\
  (forall r b, b <> o -> (owner (fst (fst xs')) r = Some b <-> owner (fst (fst xs)) r = Some b)) /\
  (forall wt r, ~ In (wt, o, r) (rec_edges (fst (fst xs')))) /\
  (forall wt b r, b <> o ->
     (In (wt, b, r) (rec_edges (fst (fst xs'))) <-> In (wt, b, r) (rec_edges (fst (fst xs))))) /\
  snd xs' = snd xs.
Proof. intros xs. apply release_all_live_inv, xreachable_inv. Qed.

(* CoordinationSystem.shutdown(): nothing is left - no active operation, no owner, no recorded or
   reference wait, no boost, no deadlock *)
Lemma shutdown_clears_inv w xs :
  Inv (fst xs) ->
  let xs' := fst (xstep current w xs XShutdown) in
  active (fst (fst xs')) = [] /\ (forall r, owner (fst (fst xs')) r = None) /\
  rec_edges (fst (fst xs')) = [] /\ ref_edges (fst xs') = [] /\ snd (fst xs') = [] /\ snd xs' = [] /\
  detect_cycle (edges (fst (fst xs'))) = None.
Proof.
  intros Hi. pose proof (xstep_inv w xs XShutdown Hi) as Hi'.
  destruct xs as [[s ws] bs]. revert Hi'. cbv zeta. cbn [xstep fst snd]. intros Hi'.
  destruct (shutdown_spec s (inv_wf _ Hi)) as (_ & A & O & _). cbn [fst] in A, O.
  destruct (clear_boosts_same bs (shutdown current s)) as [_ A' Ed' O'].
  set (s' := clear_boosts (shutdown current s) bs) in *.
  assert (A2 : active s' = []) by congruence.
  assert (O2 : forall r, owner s' r = None) by (intros r; rewrite O'; apply O).
  assert (Wn : still_blocked s' ws = []).
  { destruct (still_blocked s' ws) as [|[a b] l] eqn:E; auto. exfalso.
    assert (X : In (a, b) (still_blocked s' ws)) by (rewrite E; simpl; auto).
    apply still_blocked_In in X as (_ & X & _). now rewrite A2 in X. }
  assert (Rn : rec_edges s' = []).
  { destruct (rec_edges s') as [|[[a b] r] l] eqn:E; auto. exfalso.
    assert (X : In (a, b, r) (rec_edges s')) by (rewrite E; simpl; auto).
    apply (edges_exact_inv _ a b r Hi') in X. apply ref_edges_In in X as (X & _).
    cbn [snd] in X. now rewrite Wn in X. }
  split; auto. split; auto. split; auto.
  split. { unfold ref_edges. cbn [snd]. now rewrite Wn. }
  split; auto. split; auto.
  destruct (detect_cycle (edges s')) as [c|] eqn:D; auto. exfalso.
  destruct (cycle_sound_proof _ _ D) as (C & _).
  destruct c as [|m c]; [exact C|].
  destruct (cycle_members_succ _ _ m C (or_introl eq_refl)) as (y & r & Hy).
  apply (rec_edges_In s' m y r (inv_keys _ Hi')) in Hy. now rewrite Rn in Hy.
Qed.

Lemma x_shutdown_clears_proof res w hs :
  let xs' := fst (xstep current w (xrun current w (xinit res) hs) XShutdown) in
  active (fst (fst xs')) = [] /\ (forall r, owner (fst (fst xs')) r = None) /\
  rec_edges (fst (fst xs')) = [] /\ ref_edges (fst xs') = [] /\ snd (fst xs') = [] /\ snd xs' = [] /\
  detect_cycle (edges (fst (fst xs'))) = None.
Proof. apply shutdown_clears_inv, xreachable_inv. Qed.

(* CoordinationSystem.run_maintenance() is check_and_boost followed by watchdog.execute *)
Lemma maintain_is_boost_then_watchdog_proof fl w xs :
  fst (xstep fl w xs XMaintain) = fst (xstep fl w (fst (xstep fl w xs XBoost)) (XHop HWatchdog)).
Proof.
  destruct xs as [[s ws] bs]. cbn [xstep].
  destruct (check_and_boost s bs) as [[[s1 bs1] nb]|] eqn:B; [|now apply boost_fuel_proof in B].
  cbn [fst xstep]. destruct (gstep fl w (s1, ws) HWatchdog) as [gs' ret]. reflexivity.
Qed.
