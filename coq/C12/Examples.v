(* C12 — non-vacuity examples, and the refutations of the opacity conjunct for the LEGACY
   model (the code before the repairs 1548caf / 29cb17a, [legacy = true] in Impl.v / Model.v),
   kept as documentation.  Each refutation is a concrete template/context on which the legacy
   model (a) differs from the single-pass reference rendering and (b) logs the (origin, pass)
   pair in the legacy taint model; [fixed] shows the same input on the current model: the
   reference text, empty taint log. *)
From Coq Require Import ZArith List Bool String.
From Verif Require Import C12.Impl C12.Spec C12.Model C12.Proofs.
Import ListNotations.
Open Scope Z_scope.

Definition s (x : string) : str := zs x.
(* unless said otherwise the examples are about the default Ribosome(): no custom filters *)
#[local] Instance no_custom : FTable := [].
Definition leak_ctx : ctx := [(s "x", VStr (s "{{y}}")); (s "y", VStr (s "LEAK"))].

Definition impl_text (o : outcome) : option str := match o with Ok t _ => Some t | Err _ => None end.
Definition spec_text (o : sres) : option str := match o with SOk t _ => Some t | SErr _ => None end.
Definition logged (o : origin) (p : pass) (r : toutcome * list failure) : bool :=
  existsb (fun f => (origin_code (fst f) =? origin_code o) && (pass_code (snd f) =? pass_code p)) (snd r).

(* a refutation: the model of the code renders [bad], the reference expansion [good], and the
   taint model attributes the difference to the channel (o, p) *)
Definition refutes (T : list (str * template)) (t : template) (c : ctx) (o : origin) (p : pass)
                   (bad good : string) : Prop :=
  impl_text (render_legacy false (print_templates T) c (print t)) = Some (s bad) /\
  spec_text (render_spec false T c t) = Some (s good) /\
  s bad <> s good /\
  logged o p (render_taint_legacy false (print_templates T) c (print t)) = true /\
  (* ... and the repaired pipeline on the same input *)
  impl_text (render_impl false (print_templates T) c (print t)) = Some (s good) /\
  snd (render_taint false (print_templates T) c (print t)) = [].

Ltac refute := vm_compute; repeat split; try reflexivity; discriminate.

(* {{?x}} with x = "{{y}}": the optional pass inserts the value, the simple pass expands it *)
Lemma c12_opacity_optional_simple_legacy_refuted :
  exists T t c, refutes T t c FromOptional PSimple "LEAK" "{{y}}".
Proof. exists [], [NLeaf (LOpt (s "x"))], leak_ctx. refute. Qed.

Lemma c12_opacity_filtered_later_legacy_refuted :
  exists T t c, refutes T t c FromFiltered PSimple "LEAK" "{{y}}".
Proof. exists [], [NLeaf (LPipe (s "x") (s "trim"))], leak_ctx. refute. Qed.

Lemma c12_opacity_default_later_legacy_refuted :
  exists T t c, refutes T t c FromDefault PSimple "LEAK" "{{y}}".
Proof. exists [], [NLeaf (LPipe (s "x") (s "no name"))], leak_ctx. refute. Qed.

(* the default TEXT itself: template {{x|{{y}}}} = default "{{y" followed by "}}" *)
Lemma c12_opacity_default_text_legacy_refuted :
  exists T t c, refutes T t c FromDefault PSimple "LEAK" "{{y}}".
Proof.
  exists [], [NLeaf (LPipe (s "x") (s "{{y")); NLeaf (LText (s "}}"))], [(s "y", VStr (s "LEAK"))].
  refute.
Qed.

(* the str.replace loop of the default pass finds a later match's text inside an earlier value *)
Lemma c12_opacity_default_default_legacy_refuted :
  exists T t c, refutes T t c FromDefault PDefault "ZZ" "{{z|c d}}Z".
Proof.
  exists [], [NLeaf (LPipe (s "x") (s "a b")); NLeaf (LPipe (s "z") (s "c d"))],
         [(s "x", VStr (s "{{z|c d}}")); (s "z", VStr (s "Z"))].
  refute.
Qed.

Lemma c12_opacity_loopitem_loopkeys_legacy_refuted :
  exists T t c, refutes T t c FromLoopItem PLoopKeys "[a0][True]" "[a{{index}}][{{last}}]".
Proof.
  exists [], [NEach (s " ") (s "xs") [LText (s "["); LDot; LText (s "]")]],
         [(s "xs", VList [IStr (s "a{{index}}"); IStr (s "{{last}}")])].
  refute.
Qed.

Lemma c12_opacity_loopitem_variables_legacy_refuted :
  exists T t c, refutes T t c FromLoopItem PSimple "LEAK" "{{y}}".
Proof.
  exists [], [NEach (s " ") (s "xs") [LDot]],
         [(s "xs", VList [IStr (s "{{y}}")]); (s "y", VStr (s "LEAK"))].
  refute.
Qed.

Lemma c12_opacity_loopitem_include_legacy_refuted :
  exists T t c, refutes T t c FromLoopItem PInclude "SECRET" "{{>t1}}".
Proof.
  exists [(s "t1", [NLeaf (LText (s "SECRET"))])], [NEach (s " ") (s "xs") [LDot]],
         [(s "xs", VList [IStr (s "{{>t1}}")])].
  refute.
Qed.

Lemma c12_opacity_include_variables_legacy_refuted :
  exists T t c, refutes T t c FromInclude PSimple "<LEAK>" "<{{y}}>".
Proof.
  exists [(s "t1", [NLeaf (LText (s "<")); NLeaf (LVar (s "x")); NLeaf (LText (s ">"))])],
         [NLeaf (LInc (s "t1"))], leak_ctx.
  refute.
Qed.

(* strict mode rejects a loop variable although the reference expansion renders it *)
Lemma c12_strict_rejects_loop_vars_legacy_refuted :
  exists t c,
    render_legacy true [] c (print t) = Err (EMissing (s "item")) /\
    render_spec true [] c t = SOk (s "a") [] /\
    render_impl true [] c (print t) = Ok (s "a") [].
Proof.
  exists [NEach (s " ") (s "xs") [LVar (s "item")]], [(s "xs", VList [IStr (s "a")])].
  vm_compute. repeat split; reflexivity.
Qed.

(* ------------------------------------------------------------------ *)
(* non-vacuity: the hypotheses of the theorems are met by non-trivial inputs *)

Definition ex_T : list (str * template) :=
  [(s "hdr", [NLeaf (LText (s "== ")); NLeaf (LVar (s "title")); NLeaf (LText (s " ==")); NLeaf (LVar (s "nope"))]);
   (s "row", [NLeaf (LInc (s "hdr")); NLeaf (LInc (s "gone"))])].
Definition ex_t : template :=
  [NLeaf (LInc (s "row"));
   NIf (s " ") (s "user") [LText (s "Hi "); LPipe (s "user") (s "upper"); LOpt (s "tail")]
       (Some [LText (s "anonymous")]);
   NEach (s "  ") (s "xs") [LVar (s "index"); LText (s ":"); LDot; LPipe (s "q") (s "n/a"); LVar (s "last"); LText (s ";")];
   NLeaf (LPipe (s "count") (s "length"))].
Definition ex_c : ctx :=
  [(s "title", VStr (s "T")); (s "user", VStr (s "bob")); (s "xs", VList [IStr (s "a"); IStr (s "b")]);
   (s "count", VStr (s "four"))].

Example ex_render_eq_hyps :
  ctx_ok ex_c = true /\
  forallb (fun nt => well_formed (snd nt)) ex_T = true /\ well_formed ex_t = true /\
  render_spec false ex_T ex_c ex_t =
    SOk (s "== T =={{nope}}[Unknown template: gone]Hi BOB0:an/aFalse;1:bn/aTrue;4") [s "nope"] /\
  impl_text (render_impl false (print_templates ex_T) ex_c (print ex_t)) =
    Some (s "== T =={{nope}}[Unknown template: gone]Hi BOB0:an/aFalse;1:bn/aTrue;4").
Proof. vm_compute. repeat split; reflexivity. Qed.

Example ex_missing_var :
  In (s "nope") (plain_vars_out [NIf (s " ") (s "user") [LVar (s "nope")] None]) /\ lookup ex_c (s "nope") = None.
Proof. vm_compute. auto. Qed.

Example ex_unknown_include : word (s "gone") = true /\ lookup ex_T (s "gone") = None.
Proof. vm_compute. auto. Qed.

(* an adversarial context: every value carries template syntax, and is emitted verbatim *)
Definition ex_adv : ctx :=
  [(s "title", VStr (s "{{user}}{{>row}}")); (s "user", VStr (s "{{#if a}}x{{/if}}"));
   (s "xs", VList [IStr (s "{{index}}{{>hdr}}"); IStr (s "}}{{?tail}}")]); (s "count", VStr (s "{{"))].
Example ex_render_eq_adversarial :
  ctx_ok ex_adv = true /\
  render_spec false ex_T ex_adv ex_t =
    SOk (s "== {{user}}{{>row}} =={{nope}}[Unknown template: gone]Hi {{#IF A}}X{{/IF}}0:{{index}}{{>hdr}}n/aFalse;1:}}{{?tail}}n/aTrue;2") [s "nope"] /\
  impl_text (render_impl false (print_templates ex_T) ex_adv (print ex_t)) =
    Some (s "== {{user}}{{>row}} =={{nope}}[Unknown template: gone]Hi {{#IF A}}X{{/IF}}0:{{index}}{{>hdr}}n/aFalse;1:}}{{?tail}}n/aTrue;2") /\
  snd (render_taint false (print_templates ex_T) ex_adv (print ex_t)) = [].
Proof. vm_compute. repeat split; reflexivity. Qed.

(* what the sentinel side condition excludes: U+E000 in a value comes out as '{' *)
Example ex_sentinel_value :
  impl_text (render_impl false [] [(s "x", VStr [97; 57344; 98])] (print [NLeaf (LVar (s "x"))])) =
    Some (s "a{b") /\
  ctx_ok [(s "x", VStr [97; 57344; 98])] = false.
Proof. vm_compute. split; reflexivity. Qed.

(* strict mode: hypotheses of c12_strict_loop_vars / c12_strict_unbound_is_error are satisfiable *)
Definition ex_loop : template :=
  [NEach (s " ") (s "xs") [LVar (s "index"); LText (s "="); LVar (s "item"); LVar (s "zz")]].
Example ex_strict_loop_vars :
  out_bound [(s "xs", VList [IStr (s "a")]); (s "zz", VStr (s "!"))] ex_loop /\
  render_spec true [] [(s "xs", VList [IStr (s "a")]); (s "zz", VStr (s "!"))] ex_loop = SOk (s "0=a!") [].
Proof. split; [intros x []|reflexivity]. Qed.
Example ex_strict_unbound :
  In (LVar (s "zz")) (blocks [(s "xs", VList [IStr (s "a")])] ex_loop) /\
  render_impl true [] [(s "xs", VList [IStr (s "a")])] (print ex_loop) = Err (EMissing (s "zz")).
Proof. vm_compute. split; auto. Qed.

(* a history on one instance: the first call raises inside the include (strict, email missing),
   the retry renders the include - its outcome is that of a fresh instance *)
Definition ex_footer : list (str * template) :=
  [(s "footer", [NLeaf (LText (s "Contact: ")); NLeaf (LVar (s "email"))])].
Definition ex_page : template := [NLeaf (LVar (s "title")); NLeaf (LText (s " / ")); NLeaf (LInc (s "footer"))].
Definition res_outcome (r : hrow) : option outcome :=
  match snd r with RRender _ _ o _ => Some o | _ => None end.
Example ex_history :
  map res_outcome
      (run_ops (mkInstance [] ex_footer true 0)
         [OpRender ex_page [(s "title", VStr (s "Report"))];
          OpRender ex_page [(s "title", VStr (s "Report")); (s "email", VStr (s "ops@example.org"))];
          OpRegister (s "footer") [NLeaf (LText (s "(c) 2026"))];
          OpTranslate (s "nope") [];
          OpRender ex_page [(s "title", VStr (s "Report"))]]) =
  [Some (Err (EMissing (s "email"))); Some (Ok (s "Report / Contact: ops@example.org") []);
   None; None; Some (Ok (s "Report / (c) 2026") [])].
Proof. vm_compute. reflexivity. Qed.

(* items that compare equal in Python but print differently: 1, True, 1.0 *)
Example ex_equal_items :
  impl_text (render_impl false []
               [(s "xs", VList [IInt 1; IBool true; IOpaque (s "1.0") (s "1.0") (s "1.0"); INone])]
               (print [NEach (s " ") (s "xs") [LText (s "["); LDot; LText (s "]")]])) =
  Some (s "[1][True][1.0][None]").
Proof. vm_compute. reflexivity. Qed.

(* filters see the raw value: a JSON snippet that carries template syntax, through json / repr /
   title / upper / length, directly and through an include; (1,) as a loop-sequence item has its
   own json.dumps() text *)
Definition ex_payload : ctx :=
  [(s "p", VStr (s "{""ask"": ""{{secret}}""}")); (s "secret", VStr (s "S"));
   (s "xs", VList [IStr (s "{x}"); IDict [(s "k", s "}}")]; IBool true; INone; IOpaque (s "(1,)") (s "(1,)") (s "[1]")])].
Example ex_filter_raw_value :
  ctx_ok ex_payload = true /\ word (s "p") = true /\ is_filter (s "json") = true /\
  apply_filter (s "json") (VStr (s "{""ask"": ""{{secret}}""}")) = inl (s """{\""ask\"": \""{{secret}}\""}""") /\
  render_impl false [] ex_payload (print [NLeaf (LPipe (s "p") (s "json"))]) =
    Ok (s """{\""ask\"": \""{{secret}}\""}""") [] /\
  impl_text (render_impl true (print_templates [(s "inner", [NLeaf (LText (s "[")); NLeaf (LPipe (s "p") (s "repr")); NLeaf (LText (s "]"))])])
               ex_payload
               (print [NLeaf (LInc (s "inner")); NLeaf (LPipe (s "p") (s "title")); NLeaf (LPipe (s "p") (s "length"));
                       NLeaf (LPipe (s "xs") (s "json"))])) =
    Some (s "['{""ask"": ""{{secret}}""}']{""Ask"": ""{{Secret}}""}21[""{x}"", {""k"": ""}}""}, true, null, [1]]") /\
  snd (render_taint false [] ex_payload (print [NLeaf (LPipe (s "p") (s "json")); NLeaf (LPipe (s "xs") (s "repr"))])) = [].
Proof. vm_compute. repeat split; reflexivity. Qed.

(* a custom filter table: a brace-sensitive filter, a filter whose RESULT is template syntax, a
   custom filter that replaces the built-in "upper", one that returns an int.  Each sees the raw
   value; its result is data (empty taint log); "lower" is still the built-in *)
Definition ex_table : FTable :=
  [(s "parens", CParens); (s "wrap", CWrap); (s "upper", CRev); (s "size", CLen)].
Example ex_custom_filters :
  ftable_ok ex_table = true /\
  @apply_filter ex_table (s "parens") (VStr (s "{a}")) = inl (s "(a)") /\
  impl_text (@render_impl ex_table false [] ex_payload
               (print [NLeaf (LPipe (s "p") (s "parens")); NLeaf (LText (s "|")); NLeaf (LPipe (s "secret") (s "wrap"));
                       NLeaf (LText (s "|")); NLeaf (LPipe (s "p") (s "upper")); NLeaf (LText (s "|"));
                       NLeaf (LPipe (s "xs") (s "size")); NLeaf (LPipe (s "secret") (s "lower"));
                       NLeaf (LPipe (s "secret") (s "parens x"))])) =
    Some (s "(""ask"": ""((secret))"")|{{S}}|}""}}terces{{"" :""ksa""{|5sS") /\
  snd (@render_taint ex_table false [] ex_payload
         (print [NLeaf (LPipe (s "p") (s "parens")); NLeaf (LPipe (s "secret") (s "wrap"))])) = [] /\
  (* the same template on the default instance: unknown filters warn and render str(value) *)
  render_impl false [] ex_payload (print [NLeaf (LPipe (s "secret") (s "wrap"))]) =
    Ok (s "S") [WUnknownFilter (s "wrap")].
Proof. vm_compute. repeat split; reflexivity. Qed.

(* several instances in one process: a filter "formal" is stored on instance 0 AFTER instance 1
   exists, instance 2 is created later still.  On instance 0 {{tone|formal}} is from then on a
   filtered variable (unbound: left as written; bound: the filter applied to the raw value); on
   instances 1 and 2, which were never given that filter, "formal" stays the DEFAULT text, and a
   bound value is emitted verbatim with the "Unknown filter" warning.  The hypotheses of
   c12_instances_isolated / c12_fresh_instance_unaffected are met by this history. *)
Definition ex_tone : template :=
  [NLeaf (LText (s "Tone: ")); NLeaf (LPipe (s "tone") (s "formal")); NLeaf (LText (s "."))].
Definition ex_bound : ctx := [(s "tone", VStr (s "{{>secret}} casual"))].
Definition ex_process : case :=
  [SNew [] [] false; SNew [] [] false;
   SOn 1 (OpRender ex_tone []);
   SOn 0 (OpSetFilter (s "formal") CWrap);
   SOn 0 (OpRender ex_tone []); SOn 0 (OpRender ex_tone ex_bound);
   SOn 1 (OpRender ex_tone []); SOn 1 (OpRender ex_tone ex_bound);
   SNew [] [] false;
   SOn 2 (OpRender ex_tone []); SOn 2 (OpRender ex_tone ex_bound)].
Definition srow_outcome (r : srow) : nat * option outcome := (fst (fst r), res_outcome (snd r)).
Example ex_instances :
  map srow_outcome (run_sys [] ex_process) =
  [(1%nat, Some (Ok (s "Tone: formal.") []));
   (0%nat, None);
   (0%nat, Some (Ok (s "Tone: {{tone|formal}}.") []));
   (0%nat, Some (Ok (s "Tone: {{{{>secret}} casual}}.") []));
   (1%nat, Some (Ok (s "Tone: formal.") []));
   (1%nat, Some (Ok (s "Tone: {{>secret}} casual.") [WUnknownFilter (s "formal")]));
   (2%nat, Some (Ok (s "Tone: formal.") []));
   (2%nat, Some (Ok (s "Tone: {{>secret}} casual.") [WUnknownFilter (s "formal")]))] /\
  (* instance 1 on its own: the same three answers *)
  map res_outcome (rows_of 1 (run_sys [] ex_process)) =
    map res_outcome (run_ops (mkInstance [] [] false 0) (ops_on 1 ex_process)) /\
  List.length (ops_on 1 ex_process) = 3%nat /\
  (* the store is not a no-op on its own instance *)
  @is_filter (ft_set [] (s "formal") CWrap) (s "formal") = true /\ @is_filter [] (s "formal") = false.
Proof. vm_compute. repeat split; reflexivity. Qed.

(* a loop over dict items of which only SOME carry the key the body names: the item that lacks it leaves
   {{email}} behind.  The hypotheses of c12_rendered_unbound_var_reported / c12_strict_unbound_is_error are
   met (the variable is among the expanded blocks although another item binds it); strict mode raises,
   lenient mode renders it as written with the warning; when every item carries the key nothing is reported *)
Definition ex_team : template :=
  [NLeaf (LText (s "Team:"));
   NEach (s " ") (s "users") [LText (s " "); LVar (s "name"); LText (s " <"); LVar (s "email"); LText (s ">;")]].
Definition ex_users : ctx :=
  [(s "users", VList [IDict [(s "name", s "ann"); (s "email", s "a@x")]; IDict [(s "name", s "bob")]])].
Example ex_partial_key :
  ctx_ok ex_users = true /\ well_formed ex_team = true /\
  In (LVar (s "email")) (blocks ex_users ex_team) /\ lookup ex_users (s "email") = None /\
  render_impl true [] ex_users (print ex_team) = Err (EMissing (s "email")) /\
  render_spec true [] ex_users ex_team = SErr (EMissing (s "email")) /\
  render_impl false [] ex_users (print ex_team) =
    Ok (s "Team: ann <a@x>; bob <{{email}}>;") [WUnbound (s "email")] /\
  render_impl true [] [(s "users", VList [IDict [(s "name", s "ann"); (s "email", s "a@x")]])] (print ex_team) =
    Ok (s "Team: ann <a@x>;") [] /\
  (* the same through an include *)
  render_impl true (print_templates [(s "team", ex_team)]) ex_users (print [NLeaf (LInc (s "team"))]) =
    Err (EMissing (s "email")).
Proof. vm_compute. repeat split; auto 15. Qed.

(* hand-written codons.  "{{a}} and {{b}}" with codons that declare only a: b is not checked up front, the
   simple pass reports it (strict: error).  Codons that declare a name the sequence never uses, a non-variable
   codon or an optional one report nothing; codons that declare b report it up front as well.  The text is the
   same whatever is declared. *)
Definition ex_ab : template := [NLeaf (LVar (s "a")); NLeaf (LText (s " and ")); NLeaf (LVar (s "b"))].
Definition ex_a1 : ctx := [(s "a", VStr (s "1"))].
Example ex_declared_codons :
  In (LVar (s "b")) (blocks ex_a1 ex_ab) /\ lookup ex_a1 (s "b") = None /\
  render_impl_decl true [] ex_a1 (print ex_ab) [(CtVariable, s "a", true)] = Err (EMissing (s "b")) /\
  render_impl_decl false [] ex_a1 (print ex_ab) [(CtVariable, s "a", true)] =
    Ok (s "1 and {{b}}") [WUnbound (s "b")] /\
  render_impl_decl false [] ex_a1 (print ex_ab)
    [(CtVariable, s "zz", true); (CtLoop, s "b", true); (CtVariable, s "b", false)] =
    Ok (s "1 and {{b}}") [WUnbound (s "b")] /\
  render_impl_decl false [] ex_a1 (print ex_ab) [(CtVariable, s "b", true); (CtVariable, s "b", true)] =
    Ok (s "1 and {{b}}") [WMissing (s "b"); WMissing (s "b"); WUnbound (s "b")] /\
  render_impl false [] ex_a1 (print ex_ab) = Ok (s "1 and {{b}}") [WMissing (s "b"); WUnbound (s "b")] /\
  render_passes false [] ex_a1 (print ex_ab) = Ok (s "1 and {{b}}") [WUnbound (s "b")] /\
  required_of [(CtVariable, s "zz", true); (CtLoop, s "b", true); (CtVariable, s "b", false)] (print ex_ab) = [s "zz"] /\
  required_of [] (print ex_ab) = [s "a"; s "b"] /\
  snd (render_taint_decl true [] ex_a1 (print ex_ab) [(CtVariable, s "a", true)]) = [].
Proof. vm_compute. repeat split; auto. Qed.

(* c12_strict_any_codons is not vacuous, and says more than c12_strict_loop_vars: {{m}} stands in an
   if-branch that is not taken.  The auto-detected codons over-report it in strict mode; codons that do not
   declare it let strict mode render the reference expansion *)
Definition ex_branch : template :=
  [NIf (s " ") (s "flag") [LVar (s "m")] (Some [LText (s "no ")]); NLeaf (LVar (s "a"))].
Example ex_strict_any_codons :
  render_spec true [] ex_a1 ex_branch = SOk (s "no 1") [] /\
  required_of [(CtVariable, s "a", true)] (print ex_branch) = [s "a"] /\ lookup ex_a1 (s "a") <> None /\
  render_impl_decl true [] ex_a1 (print ex_branch) [(CtVariable, s "a", true)] = Ok (s "no 1") [] /\
  render_impl true [] ex_a1 (print ex_branch) = Err (EMissing (s "m")).
Proof. vm_compute. repeat split; auto. discriminate. Qed.

(* a history with an mRNA object carrying hand-written codons: nothing of it stays on the instance *)
Example ex_history_codons :
  map res_outcome
      (run_ops (mkInstance [] [] true 0)
         [OpRenderDecl ex_ab [(CtVariable, s "a", true)] ex_a1;
          OpRenderDecl ex_ab [(CtVariable, s "a", true)] [(s "a", VStr (s "1")); (s "b", VStr (s "2"))];
          OpRender ex_ab ex_a1]) =
  [Some (Err (EMissing (s "b"))); Some (Ok (s "1 and 2") []); Some (Err (EMissing (s "b")))].
Proof. vm_compute. reflexivity. Qed.

(* ------------------------------------------------------------------ *)
(* values of unusual types.  Priority.HIGH of class Priority(str, Enum): str() is "Priority.HIGH", the
   character data "high" is what len() and json.dumps() see, repr() is a third text.  A str subclass whose
   __str__ masks its payload (data "hunter2 {{p}}").  A falsy object that cannot be sized or serialised. *)
Definition ex_high : value := VObj (s "Priority.HIGH") (s "<Priority.HIGH: 'high'>") (Some (s """high""")) true (Some 4).
Definition ex_low_item : item := IOpaque (s "Priority.LOW") (s "<Priority.LOW: 'low'>") (s """low""").
Definition ex_secret : value := VObj (s "<redacted>") (s "'hunter2 {{p}}'") (Some (s """hunter2 {{p}}""")) true (Some 13).
Definition ex_note : value := VObj (s "see {{p}}") (s "Note('see {{p}}')") None false None.
Definition ex_objs : ctx :=
  [(s "p", ex_high); (s "pw", ex_secret); (s "note", ex_note);
   (s "ps", VList [ex_low_item; IOpaque (s "Priority.HIGH") (s "<Priority.HIGH: 'high'>") (s """high""")]);
   (s "rows", VTuple [IDictO [(s "who", s "Priority.LOW")] (s "{'who': <Priority.LOW: 'low'>}")
                             (s "{'who': <Priority.LOW: 'low'>}") (s "{""who"": ""low""}")])].
Definition ex_obj_tpl : template :=
  [NLeaf (LVar (s "p")); NLeaf (LText (s "|")); NLeaf (LOpt (s "p")); NLeaf (LText (s "|"));
   NLeaf (LPipe (s "p") (s "none given")); NLeaf (LText (s "|")); NLeaf (LPipe (s "p") (s "upper")); NLeaf (LText (s "|"));
   NLeaf (LPipe (s "p") (s "length")); NLeaf (LPipe (s "p") (s "json")); NLeaf (LPipe (s "p") (s "repr")); NLeaf (LText (s "|"));
   NLeaf (LVar (s "pw")); NLeaf (LText (s "|")); NLeaf (LVar (s "note")); NLeaf (LPipe (s "note") (s "repr"));
   NIf (s " ") (s "note") [LText (s "T")] (Some [LText (s "F")]);
   NEach (s " ") (s "ps") [LVar (s "index"); LText (s "="); LVar (s "item"); LText (s ";")];
   NEach (s " ") (s "rows") [LVar (s "who"); LText (s "/"); LDot];
   NEach (s " ") (s "p") [LText (s "never")]].
Example ex_object_values :
  ctx_ok ex_objs = true /\ well_formed ex_obj_tpl = true /\
  render_impl false [] ex_objs (print ex_obj_tpl) =
    Ok (s "Priority.HIGH|Priority.HIGH|Priority.HIGH|PRIORITY.HIGH|4""high""<Priority.HIGH: 'high'>|<redacted>|see {{p}}Note('see {{p}}')F0=Priority.LOW;1=Priority.HIGH;Priority.LOW/{'who': <Priority.LOW: 'low'>}") [] /\
  render_spec false [] ex_objs ex_obj_tpl =
    SOk (s "Priority.HIGH|Priority.HIGH|Priority.HIGH|PRIORITY.HIGH|4""high""<Priority.HIGH: 'high'>|<redacted>|see {{p}}Note('see {{p}}')F0=Priority.LOW;1=Priority.HIGH;Priority.LOW/{'who': <Priority.LOW: 'low'>}") [] /\
  snd (render_taint false [] ex_objs (print ex_obj_tpl)) = [] /\
  (* what cannot be sized / serialised is TypeError *)
  render_impl false [] ex_objs (print [NLeaf (LPipe (s "note") (s "json"))]) = Err EType /\
  render_impl false [] ex_objs (print [NLeaf (LPipe (s "note") (s "length"))]) = Err EType /\
  (* a custom filter whose RESULT is an instance of a str subclass: str() of the result is rendered *)
  @render_impl [(s "tag", CTag)] false [] ex_objs (print [NLeaf (LPipe (s "pw") (s "tag"))]) = Ok (s "<<>detcader<>>") [].
Proof. vm_compute. repeat split; auto. Qed.

(* c12_bound_value_rendered_as_its_str / c12_loop_item_rendered_as_its_str are not vacuous *)
Example ex_value_text_hyps :
  ctx_ok ex_objs = true /\ word (s "pw") = true /\ nonempty (s "none given") = true /\ clean (s "none given") = true /\
  is_filter (s "none given") = false /\ lookup ex_objs (s "pw") = Some ex_secret /\ str_value ex_secret = s "<redacted>" /\
  spaces (s " ") = true /\ lookup_seq ex_objs (s "ps") <> None /\
  forallb (fun it => negb (is_dict it)) [ex_low_item] = true.
Proof. vm_compute. repeat split; auto. discriminate. Qed.

(* ------------------------------------------------------------------ *)
(* bindings called like the parameters of the API.  Every one of them is rendered, on every entry point, also
   through two levels of includes, in an if-condition, a loop body and in strict mode. *)
Definition ex_api_ctx : ctx :=
  [(s "strict", VStr (s "always")); (s "template", VInt 0); (s "sequence", VStr (s "S")); (s "self", VStr (s "me"));
   (s "context", VStr (s "C")); (s "name", VStr (s "N")); (s "rules", VList [IStr (s "a"); IStr (s "b")])].
Definition ex_policy : template :=
  [NLeaf (LText (s "policy=")); NLeaf (LVar (s "strict")); NLeaf (LText (s "/")); NLeaf (LVar (s "template")); NLeaf (LVar (s "self"))].
Definition ex_api_T : list (str * template) :=
  [(s "policy", ex_policy); (s "section", [NLeaf (LText (s "[")); NLeaf (LInc (s "policy")); NLeaf (LText (s "]"))])].
Definition ex_api_main : template :=
  [NLeaf (LInc (s "section")); NLeaf (LVar (s "sequence")); NLeaf (LOpt (s "context")); NLeaf (LPipe (s "name") (s "lower"));
   NIf (s " ") (s "strict") [LText (s " no exceptions")] (Some [LText (s " best effort")]);
   NIf (s " ") (s "template") [LText (s " T")] (Some [LText (s " F")]);
   NEach (s " ") (s "rules") [LText (s " "); LVar (s "item"); LText (s ":"); LVar (s "strict")]].
Example ex_api_names :
  ctx_ok ex_api_ctx = true /\
  map (fun o => result_text (result_on true ex_api_T o))
      [OpSynth ex_api_main ex_api_ctx; OpRender ex_api_main ex_api_ctx; OpTranslate (s "policy") ex_api_ctx;
       OpRenderDecl ex_api_main [(CtVariable, s "strict", true)] ex_api_ctx] =
  [Some (s "[policy=always/0me]SCn no exceptions F a:always b:always");
   Some (s "[policy=always/0me]SCn no exceptions F a:always b:always");
   Some (s "policy=always/0me");
   Some (s "[policy=always/0me]SCn no exceptions F a:always b:always")] /\
  render_spec true ex_api_T ex_api_ctx ex_api_main = SOk (s "[policy=always/0me]SCn no exceptions F a:always b:always") [] /\
  (* c12_every_identifier_binds is not vacuous *)
  word (s "strict") = true /\ word (s "template") = true /\ word (s "self") = true /\ word (s "policy") = true /\
  lookup [(s "t", [NLeaf (LVar (s "template"))])] (s "t") = Some [NLeaf (LVar (s "template"))].
Proof. vm_compute. repeat split; auto. Qed.

(* THE API BEFORE e868ad8 REFUSED THREE NAMES.  def translate(self, template, **context) and
   def synthesize(self, sequence, **context): a binding called template, sequence or self met a parameter that
   was already filled positionally - TypeError before anything was rendered - on every entry point; the present
   code renders the binding.  Every other name was bound then as now. *)
Lemma c12_binding_refused_legacy_refuted :
  exists (o : op) (x : str),
    result_on_legacy false [] o = RBindRefused x /\
    result_text (result_on false [] o) = Some (s "x=V").
Proof.
  exists (OpSynth [NLeaf (LText (s "x=")); NLeaf (LVar (s "template"))] [(s "template", VStr (s "V"))]), (s "template").
  vm_compute. split; reflexivity.
Qed.
Example ex_legacy_api :
  map (fun o => result_on_legacy true ex_api_T o)
      [OpSynth ex_policy [(s "strict", VStr (s "x")); (s "template", VInt 0); (s "sequence", VInt 1)];
       OpSynth ex_policy [(s "template", VInt 0)];
       OpTranslate (s "policy") [(s "sequence", VInt 1); (s "self", VInt 2); (s "template", VInt 0)];
       OpRender ex_policy [(s "a", VInt 1); (s "template", VInt 0)]] =
  [RBindRefused (s "sequence"); RBindRefused (s "template"); RBindRefused (s "self"); RBindRefused (s "template")] /\
  (* ... and nothing else *)
  (forall o, first_clash (legacy_defs o) [(s "strict", VInt 1); (s "context", VInt 1); (s "name", VInt 1);
                                          (s "silent", VInt 1); (s "filters", VInt 1); (s "templates", VInt 1)] = None).
Proof. split; [vm_compute; reflexivity|]. intros o. destruct o; reflexivity. Qed.
