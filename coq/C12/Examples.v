(* C12 — non-vacuity examples and the refutations of the opacity conjunct (recorded
   findings: the unchanged code re-scans substituted text).  Each refutation is a
   concrete template/context on which the implementation model (a) differs from the
   single-pass reference rendering and (b) logs the (origin, pass) pair in the taint model. *)
From Coq Require Import ZArith List Bool String.
From Verif Require Import C12.Impl C12.Spec C12.Model C12.Proofs.
Import ListNotations.
Open Scope Z_scope.

Definition s (x : string) : str := zs x.
Definition leak_ctx : ctx := [(s "x", VStr (s "{{y}}")); (s "y", VStr (s "LEAK"))].

Definition impl_text (o : outcome) : option str := match o with Ok t _ => Some t | Err _ => None end.
Definition spec_text (o : sres) : option str := match o with SOk t _ => Some t | SErr _ => None end.
Definition logged (o : origin) (p : pass) (r : toutcome * list failure) : bool :=
  existsb (fun f => (origin_code (fst f) =? origin_code o) && (pass_code (snd f) =? pass_code p)) (snd r).

(* a refutation: the model of the code renders [bad], the reference expansion [good], and the
   taint model attributes the difference to the channel (o, p) *)
Definition refutes (T : list (str * template)) (t : template) (c : ctx) (o : origin) (p : pass)
                   (bad good : string) : Prop :=
  impl_text (render_impl false (print_templates T) c (print t)) = Some (s bad) /\
  spec_text (render_spec false T c t) = Some (s good) /\
  s bad <> s good /\
  logged o p (render_taint false (print_templates T) c (print t)) = true.

Ltac refute := vm_compute; repeat split; try reflexivity; discriminate.

(* {{?x}} with x = "{{y}}": the optional pass inserts the value, the simple pass expands it *)
Lemma c12_opacity_refuted_optional_simple :
  exists T t c, refutes T t c FromOptional PSimple "LEAK" "{{y}}".
Proof. exists [], [NLeaf (LOpt (s "x"))], leak_ctx. refute. Qed.

Lemma c12_opacity_refuted_filtered_later :
  exists T t c, refutes T t c FromFiltered PSimple "LEAK" "{{y}}".
Proof. exists [], [NLeaf (LPipe (s "x") (s "trim"))], leak_ctx. refute. Qed.

Lemma c12_opacity_refuted_default_later :
  exists T t c, refutes T t c FromDefault PSimple "LEAK" "{{y}}".
Proof. exists [], [NLeaf (LPipe (s "x") (s "no name"))], leak_ctx. refute. Qed.

(* the default TEXT itself: template {{x|{{y}}}} = default "{{y" followed by "}}" *)
Lemma c12_opacity_refuted_default_text :
  exists T t c, refutes T t c FromDefault PSimple "LEAK" "{{y}}".
Proof.
  exists [], [NLeaf (LPipe (s "x") (s "{{y")); NLeaf (LText (s "}}"))], [(s "y", VStr (s "LEAK"))].
  refute.
Qed.

(* the str.replace loop of the default pass finds a later match's text inside an earlier value *)
Lemma c12_opacity_refuted_default_default :
  exists T t c, refutes T t c FromDefault PDefault "ZZ" "{{z|c d}}Z".
Proof.
  exists [], [NLeaf (LPipe (s "x") (s "a b")); NLeaf (LPipe (s "z") (s "c d"))],
         [(s "x", VStr (s "{{z|c d}}")); (s "z", VStr (s "Z"))].
  refute.
Qed.

Lemma c12_opacity_refuted_loopitem_loopkeys :
  exists T t c, refutes T t c FromLoopItem PLoopKeys "[a0][True]" "[a{{index}}][{{last}}]".
Proof.
  exists [], [NEach (s " ") (s "xs") [LText (s "["); LDot; LText (s "]")]],
         [(s "xs", VList [IStr (s "a{{index}}"); IStr (s "{{last}}")])].
  refute.
Qed.

Lemma c12_opacity_refuted_loopitem_variables :
  exists T t c, refutes T t c FromLoopItem PSimple "LEAK" "{{y}}".
Proof.
  exists [], [NEach (s " ") (s "xs") [LDot]],
         [(s "xs", VList [IStr (s "{{y}}")]); (s "y", VStr (s "LEAK"))].
  refute.
Qed.

Lemma c12_opacity_refuted_loopitem_include :
  exists T t c, refutes T t c FromLoopItem PInclude "SECRET" "{{>t1}}".
Proof.
  exists [(s "t1", [NLeaf (LText (s "SECRET"))])], [NEach (s " ") (s "xs") [LDot]],
         [(s "xs", VList [IStr (s "{{>t1}}")])].
  refute.
Qed.

Lemma c12_opacity_refuted_include_variables :
  exists T t c, refutes T t c FromInclude PSimple "<LEAK>" "<{{y}}>".
Proof.
  exists [(s "t1", [NLeaf (LText (s "<")); NLeaf (LVar (s "x")); NLeaf (LText (s ">"))])],
         [NLeaf (LInc (s "t1"))], leak_ctx.
  refute.
Qed.

(* strict mode rejects a loop variable although the reference expansion renders it *)
Lemma c12_strict_rejects_loop_vars_refuted :
  exists t c,
    render_impl true [] c (print t) = Err (EMissing (s "item")) /\
    render_spec true [] c t = SOk (s "a") [].
Proof.
  exists [NEach (s " ") (s "xs") [LVar (s "item")]], [(s "xs", VList [IStr (s "a")])].
  vm_compute. split; reflexivity.
Qed.

(* ------------------------------------------------------------------ *)
(* non-vacuity: the hypotheses of the theorems are met by non-trivial inputs *)

Definition ex_T : list (str * template) :=
  [(s "hdr", [NLeaf (LText (s "== ")); NLeaf (LVar (s "title")); NLeaf (LText (s " ==")); NLeaf (LVar (s "nope"))]);
   (s "row", [NLeaf (LInc (s "hdr")); NLeaf (LInc (s "gone"))])].
Definition ex_t : template :=
  [NLeaf (LInc (s "row"));
   NIf (s " ") (s "user") [LText (s "Hi "); LPipe (s "user") (s "upper"); LOpt (s "tail")]
       (Some [LText (s "anonymous")]);
   NEach (s "  ") (s "xs") [LVar (s "index"); LText (s ":"); LDot; LPipe (s "q") (s "n/a"); LVar (s "last"); LText (s ";")];
   NLeaf (LPipe (s "count") (s "length"))].
Definition ex_c : ctx :=
  [(s "title", VStr (s "T")); (s "user", VStr (s "bob")); (s "xs", VList [IStr (s "a"); IStr (s "b")]);
   (s "count", VStr (s "four"))].

Example ex_render_eq_hyps :
  delimiter_free ex_c = true /\
  forallb (fun nt => well_formed (snd nt)) ex_T = true /\ well_formed ex_t = true /\
  render_spec false ex_T ex_c ex_t =
    SOk (s "== T =={{nope}}[Unknown template: gone]Hi BOB0:an/aFalse;1:bn/aTrue;4") [s "nope"] /\
  impl_text (render_impl false (print_templates ex_T) ex_c (print ex_t)) =
    Some (s "== T =={{nope}}[Unknown template: gone]Hi BOB0:an/aFalse;1:bn/aTrue;4").
Proof. vm_compute. repeat split; reflexivity. Qed.

Example ex_vars_only :
  vars_only [NLeaf (LText (s "a ")); NLeaf (LVar (s "user")); NLeaf (LPipe (s "z") (s "no z"))] = true.
Proof. reflexivity. Qed.

Example ex_missing_var :
  In (s "nope") (plain_vars [NIf (s " ") (s "user") [LVar (s "nope")] None]) /\ lookup ex_c (s "nope") = None.
Proof. vm_compute. auto. Qed.

Example ex_unknown_include : word (s "gone") = true /\ lookup ex_T (s "gone") = None.
Proof. vm_compute. auto. Qed.
