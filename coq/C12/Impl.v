(* C12 — executable model of operon_ai/organelles/ribosome.py, Ribosome.translate:
   the ACTUAL multi-pass pipeline (conditionals -> loops -> includes -> filtered ->
   defaulted -> optional -> simple), each pass a scanner equivalent to the code's
   regex, INCLUDING the re-scanning of already substituted text (the leaks).
   Executable definitions only.

   Strings are lists of code points.  Character classes are modelled for ASCII
   (\w = [A-Za-z0-9_], \s = Python's ASCII whitespace 9-13, 28-31, 32).

   The scanners are generic in the character type [A] with a projection
   [code : A -> Z]; the plain pipeline of this file instantiates A := Z, the taint
   pipeline of Model.v instantiates A := Z * origin with the SAME scanners. *)
From Coq Require Import String Ascii.
From Coq Require Import ZArith List Bool.
Import ListNotations.
Open Scope Z_scope.

Definition str := list Z.

Definition zs (s : string) : str :=
  map (fun a => Z.of_nat (nat_of_ascii a)) (list_ascii_of_string s).

Definition LB : Z := 123.   (* { *)
Definition RB : Z := 125.   (* } *)
Definition K_OPEN := Eval vm_compute in zs "{{".
Definition K_CLOSE := Eval vm_compute in zs "}}".
Definition K_IF := Eval vm_compute in zs "{{#if".
Definition K_ELSE := Eval vm_compute in zs "{{#else}}".
Definition K_ENDIF := Eval vm_compute in zs "{{/if}}".
Definition K_EACH := Eval vm_compute in zs "{{#each".
Definition K_ENDEACH := Eval vm_compute in zs "{{/each}}".
Definition K_INC := Eval vm_compute in zs "{{>".
Definition K_OPT := Eval vm_compute in zs "{{?".

Definition is_word (c : Z) : bool :=
  ((48 <=? c) && (c <=? 57)) || ((65 <=? c) && (c <=? 90)) || ((97 <=? c) && (c <=? 122)) || (c =? 95).
Definition is_space (c : Z) : bool :=
  ((9 <=? c) && (c <=? 13)) || ((28 <=? c) && (c <=? 32)).

Fixpoint str_eqb (a b : str) : bool :=
  match a, b with
  | [], [] => true
  | x :: a', y :: b' => (x =? y) && str_eqb a' b'
  | _, _ => false
  end.

(* ------------------------------------------------------------------ *)
Section Scanners.
  Variable A : Type.
  Variable code : A -> Z.

  (* s starts with the literal p: the remainder *)
  Fixpoint starts (p : str) (s : list A) : option (list A) :=
    match p with
    | [] => Some s
    | c :: p' => match s with
                 | a :: s' => if code a =? c then starts p' s' else None
                 | [] => None
                 end
    end.

  Fixpoint span (f : Z -> bool) (s : list A) : list A * list A :=
    match s with
    | a :: s' => if f (code a) then let (w, r) := span f s' in (a :: w, r) else ([], s)
    | [] => ([], [])
    end.

  (* first occurrence of the literal p in s: (text before, text after) *)
  Fixpoint find_sub (p : str) (s : list A) : option (list A * list A) :=
    match starts p s with
    | Some r => Some ([], r)
    | None => match s with
              | a :: s' => match find_sub p s' with
                           | Some (b, r) => Some (a :: b, r)
                           | None => None
                           end
              | [] => None
              end
    end.

  Definition nonempty {X} (l : list X) : bool := match l with [] => false | _ => true end.
  Definition codes (l : list A) : str := map code l.

  (* Each matcher answers, for the text starting at the current position, the
     data of the regex match that STARTS here and the number of code points it
     covers (always >= 1), or None. *)

  (* \{\{(\w+)\}\}  -> name *)
  Definition m_simple (s : list A) : option (str * nat) :=
    match starts K_OPEN s with
    | Some r => let (w, r1) := span is_word r in
                if nonempty w then
                  match starts K_CLOSE r1 with
                  | Some _ => Some (codes w, (4 + length w)%nat)
                  | None => None
                  end
                else None
    | None => None
    end.

  (* \{\{\?(\w+)\}\} *)
  Definition m_optional (s : list A) : option (str * nat) :=
    match starts K_OPT s with
    | Some r => let (w, r1) := span is_word r in
                if nonempty w then
                  match starts K_CLOSE r1 with
                  | Some _ => Some (codes w, (5 + length w)%nat)
                  | None => None
                  end
                else None
    | None => None
    end.

  (* \{\{>(\w+)\}\} *)
  Definition m_include (s : list A) : option (str * nat) :=
    match starts K_INC s with
    | Some r => let (w, r1) := span is_word r in
                if nonempty w then
                  match starts K_CLOSE r1 with
                  | Some _ => Some (codes w, (5 + length w)%nat)
                  | None => None
                  end
                else None
    | None => None
    end.

  (* \{\{(\w+)\|(\w+)\}\}  -> (name, filter) *)
  Definition m_filtered (s : list A) : option ((str * str) * nat) :=
    match starts K_OPEN s with
    | Some r => let (w, r1) := span is_word r in
                if nonempty w then
                  match starts [124] r1 with
                  | Some r2 => let (f, r3) := span is_word r2 in
                               if nonempty f then
                                 match starts K_CLOSE r3 with
                                 | Some _ => Some ((codes w, codes f), (5 + length w + length f)%nat)
                                 | None => None
                                 end
                               else None
                  | None => None
                  end
                else None
    | None => None
    end.

  (* \{\{(\w+)\|([^}]+)\}\}  -> (name, default text) ; [^}] also matches newlines and { *)
  Definition m_default (s : list A) : option ((str * str) * nat) :=
    match starts K_OPEN s with
    | Some r => let (w, r1) := span is_word r in
                if nonempty w then
                  match starts [124] r1 with
                  | Some r2 => let (d, r3) := span (fun c => negb (c =? RB)) r2 in
                               if nonempty d then
                                 match starts K_CLOSE r3 with
                                 | Some _ => Some ((codes w, codes d), (5 + length w + length d)%nat)
                                 | None => None
                                 end
                               else None
                  | None => None
                  end
                else None
    | None => None
    end.

  (* \{\{#if\s+(\w+)\}\}(.*?)(?:\{\{#else\}\}(.*?))?\{\{/if\}\}   with DOTALL:
     the lazy body stops at whichever of {{#else}} / {{/if}} comes first; an
     {{#else}} only counts when a {{/if}} follows it (it always does when one
     exists at all, and when none exists the whole match fails).
     -> (condition name, if-content, else-content) *)
  Definition m_if (s : list A) : option ((str * list A * list A) * nat) :=
    match starts K_IF s with
    | Some r => let (ws, r1) := span is_space r in
                if nonempty ws then
                  let (w, r2) := span is_word r1 in
                  if nonempty w then
                    match starts K_CLOSE r2 with
                    | Some r3 =>
                        match find_sub K_ENDIF r3 with
                        | Some (pre, _) =>
                            let n := (5 + length ws + length w + 2 + length pre + 7)%nat in
                            match find_sub K_ELSE pre with
                            | Some (a, b) => Some ((codes w, a, b), n)
                            | None => Some ((codes w, pre, []), n)
                            end
                        | None => None
                        end
                    | None => None
                    end
                  else None
                else None
    | None => None
    end.

  (* \{\{#each\s+(\w+)\}\}(.*?)\{\{/each\}\}  with DOTALL -> (name, body) *)
  Definition m_each (s : list A) : option ((str * list A) * nat) :=
    match starts K_EACH s with
    | Some r => let (ws, r1) := span is_space r in
                if nonempty ws then
                  let (w, r2) := span is_word r1 in
                  if nonempty w then
                    match starts K_CLOSE r2 with
                    | Some r3 =>
                        match find_sub K_ENDEACH r3 with
                        | Some (body, _) =>
                            Some ((codes w, body), (7 + length ws + length w + 2 + length body + 9)%nat)
                        | None => None
                        end
                    | None => None
                    end
                  else None
                else None
    | None => None
    end.

  (* a literal, for str.replace *)
  Definition m_lit (p : str) (s : list A) : option (unit * nat) :=
    match p with
    | [] => None
    | _ => match starts p s with Some _ => Some (tt, length p) | None => None end
    end.

  (* re.sub / re.finditer / str.replace: leftmost, non-overlapping matches.  A token is
     either one copied code point or one match together with the code points it covers. *)
  Inductive tok (M : Type) := TLit (a : A) | TMatch (m : M) (covered : list A).
  Arguments TLit {M}. Arguments TMatch {M}.

  Fixpoint scan {M} (mt : list A -> option (M * nat)) (skip : nat) (s : list A) : list (tok M) :=
    match s with
    | [] => []
    | a :: s' =>
        match skip with
        | S k => scan mt k s'
        | O => match mt s with
               | Some (m, n) => TMatch m (firstn n s) :: scan mt (pred n) s'
               | None => TLit a :: scan mt O s'
               end
        end
    end.

  (* rebuild the text, each match replaced by [f match covered] *)
  Definition subst {M} (f : M -> list A -> list A) (ts : list (tok M)) : list A :=
    flat_map (fun t => match t with TLit a => [a] | TMatch m c => f m c end) ts.

  Definition matches {M} (ts : list (tok M)) : list (M * list A) :=
    flat_map (fun t => match t with TLit _ => [] | TMatch m c => [(m, c)] end) ts.

  (* Python: s.replace(old, new), old non-empty *)
  Definition replace_all (s : list A) (old : str) (new : list A) : list A :=
    subst (fun _ _ => new) (scan (m_lit old) O s).
End Scanners.

Arguments TLit {A M}. Arguments TMatch {A M}.
Arguments scan {A M}. Arguments subst {A M}. Arguments matches {A M}.
Arguments starts {A}. Arguments span {A}. Arguments find_sub {A}. Arguments codes {A}.
Arguments m_simple {A}. Arguments m_optional {A}. Arguments m_include {A}. Arguments m_filtered {A}.
Arguments m_default {A}. Arguments m_if {A}. Arguments m_each {A}. Arguments m_lit {A}.
Arguments replace_all {A}.

(* ------------------------------------------------------------------ *)
(* values and Python's str()/repr()/truthiness on them                  *)

(* loop items: strings, string-valued dicts (in dict order), ints, bools, None, and values
   whose str() / repr() / json.dumps() the harness supplies pre-rendered (floats, tuples, and
   OBJECTS OF ANY OTHER TYPE that json.dumps accepts: members of a str- or int-mixin Enum, instances of
   str / int subclasses with a __str__ of their own - for those str(), repr(), json.dumps() are three
   DIFFERENT texts and none of them need be the character data of the object).
   [IDictO kvs s r j] is a dict whose VALUES are such objects: kvs gives, per key in dict order,
   str(value) - what the loop context binds {{key}} to -, and s r j are str() / repr() /
   json.dumps() of the dict itself (IDict kvs is the case of plain-string values, where the three are
   computed). *)
Inductive item :=
| IStr (s : str) | IDict (kvs : list (str * str))
| IInt (z : Z) | IBool (b : bool) | INone | IOpaque (s r j : str)
| IDictO (kvs : list (str * str)) (s r j : str).
(* context values: ..., None, a pre-rendered value with its truthiness (finite floats: str(),
   repr() and json.dumps() of a finite float are the same text), tuples, and
   [VObj s r j t n]: an object of ANY other type, given by what Python's protocols answer for it:
   str(v) = s, repr(v) = r, json.dumps(v) = j (None: TypeError, not serialisable), bool(v) = t,
   len(v) = n (None: TypeError, unsized).  The five are independent: a member of
   class Priority(str, Enum) has s = "Priority.HIGH", r = "<Priority.HIGH: 'high'>", j = the data in JSON quotes,
   n = 4; a str subclass may print as "<redacted>" whatever its data; an object may be falsy and
   print as anything.  It is not a list or a tuple (isinstance), so {{#each}} skips it. *)
Inductive value :=
| VStr (s : str) | VInt (z : Z) | VBool (b : bool) | VList (l : list item)
| VNone | VOpaque (s : str) (t : bool) | VTuple (l : list item)
| VObj (s r : str) (j : option str) (t : bool) (n : option Z).
(* isinstance(v, (list, tuple)) *)
Definition seq_of (v : value) : option (list item) :=
  match v with VList l | VTuple l => Some l | _ => None end.
Definition ctx := list (str * value).

Fixpoint lookup {X} (c : list (str * X)) (x : str) : option X :=
  match c with
  | [] => None
  | (k, v) :: c' => if str_eqb k x then Some v else lookup c' x
  end.

Definition bound {X} (c : list (str * X)) (x : str) : bool :=
  match lookup c x with Some _ => true | None => false end.
Definition lookup_seq (c : ctx) (x : str) : option (list item) :=
  match lookup c x with Some v => seq_of v | None => None end.

(* decimal digits of a positive number, fuelled by its binary size (enough: a number
   has no more decimal than binary digits) *)
Fixpoint dec_pos (fuel : nat) (n : Z) (acc : str) : str :=
  match fuel with
  | O => acc
  | S f => let acc' := (48 + n mod 10) :: acc in
           if n / 10 =? 0 then acc' else dec_pos f (n / 10) acc'
  end.
Definition dec (z : Z) : str :=
  if z =? 0 then [48]
  else if z <? 0 then 45 :: dec_pos (S (Z.to_nat (Z.log2 (- z)))) (- z) []
  else dec_pos (S (Z.to_nat (Z.log2 z))) z [].

Fixpoint join (sep : str) (l : list str) : str :=
  match l with
  | [] => []
  | [x] => x
  | x :: l' => x ++ sep ++ join sep l'
  end.

(* repr() of a str, for ASCII: quote choice, \\ \' \n \t \r, \xNN for other controls *)
Definition hex_digit (n : Z) : Z := if n <? 10 then 48 + n else 87 + n.
Definition repr_char (q : Z) (c : Z) : str :=
  if c =? 92 then [92; 92]
  else if c =? q then [92; q]
  else if c =? 10 then [92; 110]
  else if c =? 13 then [92; 114]
  else if c =? 9 then [92; 116]
  else if (c <? 32) || (c =? 127) then [92; 120; hex_digit (c / 16); hex_digit (c mod 16)]
  else if (57344 <=? c) && (c <=? 63743) then      (* private use: not printable, \uXXXX *)
    [92; 117; hex_digit (c / 4096); hex_digit ((c / 256) mod 16); hex_digit ((c / 16) mod 16); hex_digit (c mod 16)]
  else [c].
Definition py_repr (s : str) : str :=
  let has_sq := existsb (Z.eqb 39) s in
  let has_dq := existsb (Z.eqb 34) s in
  let q := if has_sq && negb has_dq then 34 else 39 in
  q :: flat_map (repr_char q) s ++ [q].

Definition repr_dict (kvs : list (str * str)) : str :=
  [LB] ++ join [44; 32] (map (fun kv => py_repr (fst kv) ++ [58; 32] ++ py_repr (snd kv)) kvs) ++ [RB].
Definition S_TRUE := Eval vm_compute in zs "True".
Definition S_FALSE := Eval vm_compute in zs "False".
Definition S_NONE := Eval vm_compute in zs "None".
Definition str_bool (b : bool) : str := if b then S_TRUE else S_FALSE.
Definition repr_item (it : item) : str :=
  match it with
  | IStr s => py_repr s | IDict kvs => repr_dict kvs
  | IInt z => dec z | IBool b => str_bool b | INone => S_NONE | IOpaque _ r _ => r
  | IDictO _ _ r _ => r
  end.
Definition str_item (it : item) : str :=
  match it with
  | IStr s => s | IDict kvs => repr_dict kvs
  | IInt z => dec z | IBool b => str_bool b | INone => S_NONE | IOpaque s _ _ => s
  | IDictO _ s _ _ => s
  end.
Definition str_value (v : value) : str :=
  match v with
  | VStr s => s
  | VInt z => dec z
  | VBool b => str_bool b
  | VList l => [91] ++ join [44; 32] (map repr_item l) ++ [93]
  | VNone => S_NONE
  | VOpaque s _ => s
  | VTuple l => [40] ++ join [44; 32] (map repr_item l) ++
                match l with [_] => [44] | _ => [] end ++ [41]
  | VObj s _ _ _ _ => s
  end.
Definition truthy (v : value) : bool :=
  match v with
  | VStr s => nonempty s
  | VInt z => negb (z =? 0)
  | VBool b => b
  | VList l => nonempty l
  | VNone => false
  | VOpaque _ t => t
  | VTuple l => nonempty l
  | VObj _ _ _ t _ => t
  end.

(* repr() of a context value: quoted for a str, otherwise the same text as str() *)
Definition repr_value (v : value) : str :=
  match v with VStr s => py_repr s | VObj _ r _ _ _ => r | _ => str_value v end.

(* json.dumps() with the default arguments (ensure_ascii; separators comma-space and
   colon-space): a str is put in double quotes; the double quote, the backslash and the
   controls 8, 9, 10, 12, 13 get their two-character escapes; every other code point
   outside 0x20..0x7e is backslash-u and four lower-case hex digits (a surrogate pair
   above the BMP) *)
Definition hex4 (c : Z) : str :=
  [92; 117; hex_digit ((c / 4096) mod 16); hex_digit ((c / 256) mod 16);
   hex_digit ((c / 16) mod 16); hex_digit (c mod 16)].
Definition json_char (c : Z) : str :=
  if c =? 34 then [92; 34]
  else if c =? 92 then [92; 92]
  else if c =? 10 then [92; 110]
  else if c =? 13 then [92; 114]
  else if c =? 9 then [92; 116]
  else if c =? 8 then [92; 98]
  else if c =? 12 then [92; 102]
  else if (32 <=? c) && (c <=? 126) then [c]
  else if c <? 65536 then hex4 c
  else hex4 (55296 + (c - 65536) / 1024) ++ hex4 (56320 + (c - 65536) mod 1024).
Definition json_str (s : str) : str := 34 :: flat_map json_char s ++ [34].
Definition S_JTRUE := Eval vm_compute in zs "true".
Definition S_JFALSE := Eval vm_compute in zs "false".
Definition S_JNULL := Eval vm_compute in zs "null".
Definition json_bool (b : bool) : str := if b then S_JTRUE else S_JFALSE.
Definition json_dict (kvs : list (str * str)) : str :=
  [LB] ++ join [44; 32] (map (fun kv => json_str (fst kv) ++ [58; 32] ++ json_str (snd kv)) kvs) ++ [RB].
Definition json_item (it : item) : str :=
  match it with
  | IStr s => json_str s | IDict kvs => json_dict kvs
  | IInt z => dec z | IBool b => json_bool b | INone => S_JNULL | IOpaque _ _ j => j
  | IDictO _ _ _ j => j
  end.
Definition json_value (v : value) : str :=
  match v with
  | VStr s => json_str s
  | VInt z => dec z
  | VBool b => json_bool b
  | VNone => S_JNULL
  | VOpaque s _ => s
  | VList l | VTuple l => [91] ++ join [44; 32] (map json_item l) ++ [93]
  | VObj _ _ j _ _ => match j with Some t => t | None => [] end
  end.

(* ------------------------------------------------------------------ *)
(* filters (ASCII): BUILTIN_FILTERS.  Every filter is applied to the RAW bound value
   (never to its shielded text); only the filter's result is shielded. *)
Definition F_UPPER := Eval vm_compute in zs "upper".
Definition F_LOWER := Eval vm_compute in zs "lower".
Definition F_TRIM := Eval vm_compute in zs "trim".
Definition F_TITLE := Eval vm_compute in zs "title".
Definition F_LENGTH := Eval vm_compute in zs "length".
Definition F_JSON := Eval vm_compute in zs "json".
Definition F_REPR := Eval vm_compute in zs "repr".
Definition FILTERS : list str := [F_UPPER; F_LOWER; F_TRIM; F_TITLE; F_LENGTH; F_JSON; F_REPR].
Definition is_builtin (w : str) : bool := existsb (str_eqb w) FILTERS.

Definition up_char (c : Z) : Z := if (97 <=? c) && (c <=? 122) then c - 32 else c.
Definition low_char (c : Z) : Z := if (65 <=? c) && (c <=? 90) then c + 32 else c.
Fixpoint lstrip (s : str) : str :=
  match s with c :: s' => if is_space c then lstrip s' else s | [] => [] end.
Definition strip (s : str) : str := rev (lstrip (rev (lstrip s))).
(* str.title(): a letter that follows a letter is lower-cased, any other letter upper-cased *)
Definition is_alpha (c : Z) : bool := ((65 <=? c) && (c <=? 90)) || ((97 <=? c) && (c <=? 122)).
Fixpoint title_go (prev : bool) (s : str) : str :=
  match s with
  | [] => []
  | c :: s' => (if prev then low_char c else up_char c) :: title_go (is_alpha c) s'
  end.
Definition title (s : str) : str := title_go false s.

Inductive error :=
| EMissing (x : str)      (* ValueError("Missing required variable: x") in strict mode *)
| EType                   (* TypeError: len() of an unsized value (int, bool, ...), json.dumps() of an object it cannot serialise *)
| EFuel.                  (* include recursion deeper than the number of templates: RecursionError *)

(* str(len(x)) *)
Definition len_filter (v : value) : str + error :=
  match v with
  | VStr s => inl (dec (Z.of_nat (length s)))
  | VList l | VTuple l => inl (dec (Z.of_nat (length l)))
  | VObj _ _ _ _ (Some n) => inl (dec n)
  | _ => inr EType
  end.
(* json.dumps(x): TypeError for an object json cannot serialise *)
Definition json_filter (v : value) : str + error :=
  match v with
  | VObj _ _ None _ _ => inr EType
  | _ => inl (json_value v)
  end.
Definition builtin_filter (f : str) (v : value) : str + error :=
  if str_eqb f F_UPPER then inl (map up_char (str_value v))
  else if str_eqb f F_LOWER then inl (map low_char (str_value v))
  else if str_eqb f F_TRIM then inl (strip (str_value v))
  else if str_eqb f F_LENGTH then len_filter v
  else if str_eqb f F_TITLE then inl (title (str_value v))
  else if str_eqb f F_JSON then json_filter v
  else inl (repr_value v).        (* F_REPR; only called on [is_filter] names *)

(* Ribosome(filters={name: callable}): self.filters = {**BUILTIN_FILTERS, **filters}, so a custom
   filter may carry the name of a built-in one and then replaces it.  The callables are taken
   from a small representative family:
     CParens  lambda x: str(x).replace("{", "(").replace("}", ")")     looks at the braces of the value
     CRev     lambda x: str(x)[::-1]                                   permutes the value
     CWrap    lambda x: "{{" + str(x) + "}}"                           its RESULT carries template syntax
     CStr     str                                                      the value itself
     CLen     len                                                      returns an int; TypeError on unsized values
     CTag     lambda x: Tagged(str(x))                                 its RESULT is an instance of a str SUBCLASS whose
                                                                       __str__ is not its character data: str(Tagged(d)) =
                                                                       "<<" + d[::-1] + ">>"
   (translate() renders str(filter(value))). *)
Inductive cfilter := CParens | CRev | CWrap | CStr | CLen | CTag.
Definition K_TAG_OPEN := Eval vm_compute in zs "<<".
Definition K_TAG_CLOSE := Eval vm_compute in zs ">>".
Definition paren_char (c : Z) : Z := if c =? LB then 40 else if c =? RB then 41 else c.
Definition apply_custom (cf : cfilter) (v : value) : str + error :=
  match cf with
  | CParens => inl (map paren_char (str_value v))
  | CRev => inl (rev (str_value v))
  | CWrap => inl (K_OPEN ++ str_value v ++ K_CLOSE)
  | CStr => inl (str_value v)
  | CLen => len_filter v
  | CTag => inl (K_TAG_OPEN ++ rev (str_value v) ++ K_TAG_CLOSE)
  end.
Definition ftable := list (str * cfilter).
(* the custom table of the instance; every definition below takes it implicitly *)
Class FTable := custom_filters : ftable.
(* the documented syntax {{name|filter}} presumes identifier names *)
Definition ftable_ok (F : ftable) : bool :=
  forallb (fun kf => nonempty (fst kf) && forallb is_word (fst kf)) F.

Definition is_filter {F : FTable} (w : str) : bool := is_builtin w || bound (custom_filters : ftable) w.
Definition apply_filter {F : FTable} (f : str) (v : value) : str + error :=
  match lookup (custom_filters : ftable) f with
  | Some cf => apply_custom cf v
  | None => builtin_filter f v
  end.

(* ------------------------------------------------------------------ *)
(* the plain pipeline (A := Z)                                           *)
(*                                                                      *)
(* [legacy = false] is the code as it is now: every substituted text     *)
(* goes through _shield ('{' -> U+E000, '}' -> U+E001), translate()      *)
(* returns _unshield(sequence), the up-front required-variable check     *)
(* skips variables written only inside {{#each}} bodies, and the simple  *)
(* pass raises in strict mode.  [legacy = true] is the code before the   *)
(* repairs 1548caf / 29cb17a (no shielding; every {{name}} of the raw    *)
(* template is required; the simple pass only warns); it is kept for the *)
(* ..._legacy_refuted lemmas of Examples.v.                              *)
Definition idz (z : Z) : Z := z.

Definition SH_OPEN : Z := 57344.   (* U+E000 *)
Definition SH_CLOSE : Z := 57345.  (* U+E001 *)
Definition sh_char (c : Z) : Z := if c =? LB then SH_OPEN else if c =? RB then SH_CLOSE else c.
Definition ush_char (c : Z) : Z := if c =? SH_OPEN then LB else if c =? SH_CLOSE then RB else c.
Definition shield (s : str) : str := map sh_char s.
Definition unshield (s : str) : str := map ush_char s.
Definition sh (legacy : bool) (s : str) : str := if legacy then s else shield s.
Definition unsh (legacy : bool) (s : str) : str := if legacy then s else unshield s.

Inductive warning :=
| WMissing (x : str)        (* "Missing required variable: x" *)
| WUnknownFilter (f : str)  (* "Unknown filter: f" *)
| WUnbound (x : str).       (* "Unbound variable: x" *)

Inductive outcome := Ok (text : str) (warnings : list warning) | Err (e : error).

(* _process_conditionals *)
Definition pass_if (c : ctx) (s : str) : str :=
  subst (fun (m : str * str * str) _ =>
           let '(x, a, b) := m in
           match lookup c x with
           | Some v => if truthy v then a else b
           | None => b
           end)
        (scan (m_if idz) O s).

(* the loop context of iteration i: '.', item, index, first, last, then the item's keys
   (dict.update: an existing key keeps its position and gets the new value) *)
Fixpoint dict_set (d : list (str * str)) (k v : str) : list (str * str) :=
  match d with
  | [] => [(k, v)]
  | (k', v') :: d' => if str_eqb k' k then (k', v) :: d' else (k', v') :: dict_set d' k v
  end.
Definition K_DOT := Eval vm_compute in zs ".".
Definition K_ITEM := Eval vm_compute in zs "item".
Definition K_INDEX := Eval vm_compute in zs "index".
Definition K_FIRST := Eval vm_compute in zs "first".
Definition K_LAST := Eval vm_compute in zs "last".
(* parameter names of the API before e868ad8 (Model.result_on_legacy) *)
Definition K_SELF := Eval vm_compute in zs "self".
Definition K_TEMPLATE := Eval vm_compute in zs "template".
Definition K_SEQUENCE := Eval vm_compute in zs "sequence".
Definition loop_context (i n : nat) (it : item) : list (str * str) :=
  let base := [(K_DOT, str_item it); (K_ITEM, str_item it); (K_INDEX, dec (Z.of_nat i));
               (K_FIRST, str_bool (Nat.eqb i 0)); (K_LAST, str_bool (Z.of_nat i =? Z.of_nat n - 1))] in
  match it with
  | IDict kvs | IDictO kvs _ _ _ => fold_left (fun d kv => dict_set d (fst kv) (snd kv)) kvs base
  | _ => base
  end.
Definition key_pattern (k : str) : str := K_OPEN ++ k ++ K_CLOSE.

Definition loop_part (legacy : bool) (body : str) (lc : list (str * str)) : str :=
  fold_left (fun part kv => replace_all idz part (key_pattern (fst kv)) (sh legacy (snd kv))) lc body.

Fixpoint loop_items (legacy : bool) (body : str) (n i : nat) (items : list item) : str :=
  match items with
  | [] => []
  | it :: rest => loop_part legacy body (loop_context i n it) ++ loop_items legacy body n (S i) rest
  end.

(* _process_loops *)
Definition pass_each (legacy : bool) (c : ctx) (s : str) : str :=
  subst (fun (m : str * str) _ =>
           let '(x, body) := m in
           match lookup_seq c x with
           | Some items => loop_items legacy body (length items) O items
           | None => []
           end)
        (scan (m_each idz) O s).

Definition S_UNKNOWN := Eval vm_compute in zs "[Unknown template: ".

(* sequencing of the replacement callbacks of one re.sub: the first exception wins *)
Fixpoint subst_err {M} (f : M -> str -> str + error) (ts : list (tok Z M)) : str + error :=
  match ts with
  | [] => inl []
  | TLit a :: ts' => match subst_err f ts' with inl r => inl (a :: r) | inr e => inr e end
  | TMatch m c :: ts' =>
      match f m c with
      | inr e => inr e
      | inl x => match subst_err f ts' with inl r => inl (x ++ r) | inr e => inr e end
      end
  end.

(* _process_includes; [render n] is the nested translate of a registered template.  The
   include matches are first resolved (one nested translate per match, left to right), then
   the text is assembled (the first nested exception wins) and - in the current code - the
   warnings of the nested translates are appended to the caller's warnings. *)
Definition resolve_includes {R} (render : str -> R) (s : str) : list (tok Z (str * R)) :=
  map (fun t => match t with
                | TLit a => TLit a
                | TMatch n c => TMatch (n, render n) c
                end)
      (scan (m_include idz) O s).

Definition include_cb (legacy : bool) (m : str * option outcome) (_ : str) : str + error :=
  match snd m with
  | Some (Ok t _) => inl (sh legacy t)
  | Some (Err e) => inr e
  | None => inl (S_UNKNOWN ++ fst m ++ [93])
  end.
Definition include_text (legacy : bool) (rs : list (tok Z (str * option outcome))) : str + error :=
  subst_err (include_cb legacy) rs.
Definition include_warnings (legacy : bool) (rs : list (tok Z (str * option outcome))) : list warning :=
  if legacy then []
  else flat_map (fun mc => match snd (fst mc) with Some (Ok _ w) => w | _ => [] end) (matches rs).

(* _process_variables, first re.sub *)
Definition pass_filtered {F : FTable} (legacy : bool) (c : ctx) (s : str) : str + error :=
  subst_err (fun (m : str * str) g0 =>
               let '(x, f) := m in
               match lookup c x with
               | Some v => if is_filter f then
                             match apply_filter f v with inl r => inl (sh legacy r) | inr e => inr e end
                           else inl (sh legacy (str_value v))
               | None => inl g0
               end)
            (scan (m_filtered idz) O s).
Definition warn_filtered {F : FTable} (c : ctx) (s : str) : list warning :=
  flat_map (fun mc => let '((x, f), _) := mc in
                      if bound c x && negb (is_filter f) then [WUnknownFilter f] else [])
           (matches (scan (m_filtered idz) O s)).

(* the finditer loop over the string as it was BEFORE the loop; str.replace of every
   occurrence of the matched text in the string as it is NOW *)
Definition pass_default {F : FTable} (legacy : bool) (c : ctx) (s : str) : str :=
  fold_left (fun res (mc : (str * str) * str) =>
               let '((x, d), g0) := mc in
               if is_filter d then res
               else replace_all idz res g0
                      (sh legacy (match lookup c x with Some v => str_value v | None => d end)))
            (matches (scan (m_default idz) O s)) s.

Definition pass_optional (legacy : bool) (c : ctx) (s : str) : str :=
  subst (fun (x : str) _ => sh legacy (match lookup c x with Some v => str_value v | None => [] end))
        (scan (m_optional idz) O s).

(* the simple pass; [raise] = strict mode of the current code: an unbound variable is
   ValueError("Missing required variable: x") *)
Definition pass_simple (legacy raise : bool) (c : ctx) (s : str) : str + error :=
  subst_err (fun (x : str) g0 =>
               match lookup c x with
               | Some v => inl (sh legacy (str_value v))
               | None => if raise then inr (EMissing x) else inl g0
               end)
            (scan (m_simple idz) O s).
Definition warn_simple (c : ctx) (s : str) : list warning :=
  flat_map (fun mc => if bound c (fst mc) then [] else [WUnbound (fst mc)])
           (matches (scan (m_simple idz) O s)).

(* mRNA._detect_codons / get_required_variables: the {{name}} occurrences of the raw sequence *)
Definition required_vars (s : str) : list str := map fst (matches (scan (m_simple idz) O s)).
(* the raw sequence with every {{#each ..}}..{{/each}} block removed *)
Definition outside_loops (s : str) : str :=
  subst (fun (_ : str * str) _ => []) (scan (m_each idz) O s).
Definition occurs (p s : str) : bool :=
  match find_sub idz p s with Some _ => true | None => false end.
Definition missing_vars (legacy : bool) (c : ctx) (s : str) : list str :=
  filter (fun x => negb (bound c x) &&
                   (legacy || occurs (key_pattern x) (outside_loops s)))
         (required_vars s).

Fixpoint translate {F : FTable} (legacy : bool) (fuel : nat) (strict : bool) (T : list (str * str)) (c : ctx) (s : str)
  : outcome :=
  match fuel with
  | O => Err EFuel
  | S fuel' =>
      let miss := missing_vars legacy c s in
      match (if strict then miss else []) with
      | x :: _ => Err (EMissing x)
      | [] =>
          let s1 := pass_if c s in
          let s2 := pass_each legacy c s1 in
          let rs := resolve_includes
                      (fun n => match lookup T n with
                                | Some sq => Some (translate legacy fuel' strict T c sq)
                                | None => None
                                end) s2 in
          match include_text legacy rs with
          | inr e => Err e
          | inl s3 =>
              match pass_filtered legacy c s3 with
              | inr e => Err e
              | inl s4 =>
                  let s5 := pass_default legacy c s4 in
                  let s6 := pass_optional legacy c s5 in
                  match pass_simple legacy (strict && negb legacy) c s6 with
                  | inr e => Err e
                  | inl s7 =>
                      Ok (unsh legacy s7)
                         (map WMissing miss ++ include_warnings legacy rs ++
                          warn_filtered c s3 ++ warn_simple c s6)
                  end
              end
          end
      end
  end.

(* Ribosome(templates=T, filters=F, strict=strict).synthesize(s, **c), the code as it is now *)
Definition render_impl {F : FTable} (strict : bool) (T : list (str * str)) (c : ctx) (s : str) : outcome :=
  translate false (S (length T)) strict T c s.
(* ... and as it was before the repairs *)
Definition render_legacy {F : FTable} (strict : bool) (T : list (str * str)) (c : ctx) (s : str) : outcome :=
  translate true (S (length T)) strict T c s.

(* ------------------------------------------------------------------ *)
(* mRNA objects with HAND-WRITTEN codons                                 *)
(*                                                                      *)
(* mRNA(sequence, codons=[Codon(codon_type, name, required=...), ...]):   *)
(* a non-empty codons list REPLACES the auto-detected one                 *)
(* (__post_init__: `if not self.codons: self.codons = _detect_codons()`), *)
(* so get_required_variables() - the list the up-front check of           *)
(* translate() walks - is whatever the caller declared: it may leave out  *)
(* variables the sequence uses, name variables the sequence never uses,   *)
(* repeat names, mark them optional or give them another codon type.      *)
(* Everything after the up-front check reads the SEQUENCE only.           *)
Inductive ctype := CtVariable | CtConditional | CtLoop | CtInclude | CtFilter.
Definition codon := (ctype * str * bool)%type.      (* codon_type, name, required *)
Definition is_variable (k : ctype) : bool := match k with CtVariable => true | _ => false end.
(* mRNA.get_required_variables() of a hand-written list *)
Definition declared_required (cs : list codon) : list str :=
  map (fun cd => snd (fst cd)) (filter (fun cd => snd cd && is_variable (fst (fst cd))) cs).
(* ... of the mRNA: an empty list is falsy, the codons are then auto-detected *)
Definition required_of (cs : list codon) (s : str) : list str :=
  match cs with [] => required_vars s | _ => declared_required cs end.

(* the up-front check over a given list of required names *)
Definition missing_of (legacy : bool) (c : ctx) (s : str) (req : list str) : list str :=
  filter (fun x => negb (bound c x) &&
                   (legacy || occurs (key_pattern x) (outside_loops s)))
         req.

(* translate() after the up-front check: the passes, and the warnings THEY report *)
Definition translate_core {F : FTable} (legacy : bool) (fuel' : nat) (strict : bool) (T : list (str * str))
                          (c : ctx) (s : str) : outcome :=
  let s1 := pass_if c s in
  let s2 := pass_each legacy c s1 in
  let rs := resolve_includes
              (fun n => match lookup T n with
                        | Some sq => Some (translate legacy fuel' strict T c sq)
                        | None => None
                        end) s2 in
  match include_text legacy rs with
  | inr e => Err e
  | inl s3 =>
      match pass_filtered legacy c s3 with
      | inr e => Err e
      | inl s4 =>
          let s5 := pass_default legacy c s4 in
          let s6 := pass_optional legacy c s5 in
          match pass_simple legacy (strict && negb legacy) c s6 with
          | inr e => Err e
          | inl s7 =>
              Ok (unsh legacy s7)
                 (include_warnings legacy rs ++ warn_filtered c s3 ++ warn_simple c s6)
          end
      end
  end.
(* the "Missing required variable" warnings of the up-front check come first *)
Definition add_missing (miss : list str) (o : outcome) : outcome :=
  match o with Ok t w => Ok t (map WMissing miss ++ w) | Err e => Err e end.

(* translate(mRNA(s, codons=...)) where get_required_variables() = req; the registered templates
   an include pulls in are rendered by [translate] (their codons are auto-detected) *)
Definition translate_decl {F : FTable} (legacy : bool) (fuel' : nat) (strict : bool) (T : list (str * str))
                          (c : ctx) (s : str) (req : list str) : outcome :=
  let miss := missing_of legacy c s req in
  match (if strict then miss else []) with
  | x :: _ => Err (EMissing x)
  | [] => add_missing miss (translate_core legacy fuel' strict T c s)
  end.

(* Ribosome(templates=T, filters=F, strict=strict).translate(mRNA(s, codons=cs), **c) *)
Definition render_impl_decl {F : FTable} (strict : bool) (T : list (str * str)) (c : ctx) (s : str)
                            (cs : list codon) : outcome :=
  translate_decl false (length T) strict T c s (required_of cs s).
(* what the passes alone render and report: translate() of an mRNA whose codons declare no required
   variable (e.g. codons=[Codon(CodonType.LOOP, "")]); it does not take the codons at all *)
Definition render_passes {F : FTable} (strict : bool) (T : list (str * str)) (c : ctx) (s : str) : outcome :=
  translate_core false (length T) strict T c s.
