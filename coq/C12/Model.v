(* C12 — taint version of the implementation model, case type and [run_case].
   Executable definitions only.

   The taint pipeline is the pipeline of Impl.v run over code points that carry their
   origin; it uses the SAME generic scanners (instantiated at A := Z * origin).  Opacity
   is "no scanner match ever covers a code point whose origin is not FromTemplate"; every
   such event is logged as (origin of the covered code point, pass that matched). *)
From Coq Require Import ZArith List Bool.
From Verif Require Import Common.Corr C12.Impl C12.Spec.
Import ListNotations.
Open Scope Z_scope.

Inductive origin :=
| FromTemplate | FromPlain | FromOptional | FromFiltered | FromDefault | FromLoopItem | FromInclude.
Inductive pass := PIf | PEach | PLoopKeys | PInclude | PFiltered | PDefault | POptional | PSimple.

Definition tchar := (Z * origin)%type.
Definition tstr := list tchar.
Definition tcode (a : tchar) : Z := fst a.
Definition taint (o : origin) (s : str) : tstr := map (fun c => (c, o)) s.
Definition erase (t : tstr) : str := map tcode t.
Definition failure := (origin * pass)%type.
(* _shield / _unshield on tainted text: code points change, origins stay *)
Definition tsh (legacy : bool) (t : tstr) : tstr :=
  if legacy then t else map (fun a => (sh_char (fst a), snd a)) t.
Definition tunsh (legacy : bool) (t : tstr) : tstr :=
  if legacy then t else map (fun a => (ush_char (fst a), snd a)) t.

Definition origin_code (o : origin) : Z :=
  match o with
  | FromTemplate => 0 | FromPlain => 1 | FromOptional => 2 | FromFiltered => 3
  | FromDefault => 4 | FromLoopItem => 5 | FromInclude => 6
  end.
Definition pass_code (p : pass) : Z :=
  match p with
  | PIf => 0 | PEach => 1 | PLoopKeys => 2 | PInclude => 3
  | PFiltered => 4 | PDefault => 5 | POptional => 6 | PSimple => 7
  end.
Definition is_template (o : origin) : bool := match o with FromTemplate => true | _ => false end.

(* the failures of one match: one entry per covered non-template code point *)
Definition covers (p : pass) (cov : tstr) : list failure :=
  flat_map (fun a => if is_template (snd a) then [] else [(snd a, p)]) cov.

Definition ttok := tok tchar.

Definition toks_log {M} (p : pass) (ts : list (ttok M)) : list failure :=
  flat_map (fun t => match t with TLit _ => [] | TMatch _ c => covers p c end) ts.

(* re.sub whose callback may itself log and may raise: the cover of a match is logged
   before its callback runs; the first exception ends the pass *)
Fixpoint tsub {M} (p : pass) (f : M -> tstr -> (tstr + error) * list failure) (ts : list (ttok M))
  : (tstr + error) * list failure :=
  match ts with
  | [] => (inl [], [])
  | TLit a :: ts' =>
      let '(r, lg) := tsub p f ts' in
      (match r with inl x => inl (a :: x) | inr e => inr e end, lg)
  | TMatch m c :: ts' =>
      let '(r1, lg1) := f m c in
      match r1 with
      | inr e => (inr e, covers p c ++ lg1)
      | inl x =>
          let '(r, lg) := tsub p f ts' in
          (match r with inl y => inl (x ++ y) | inr e => inr e end, covers p c ++ lg1 ++ lg)
      end
  end.

Definition pure {M} (f : M -> tstr -> tstr) : M -> tstr -> (tstr + error) * list failure :=
  fun m c => (inl (f m c), []).

Definition replace_all_t (s : tstr) (old : str) (new : tstr) : tstr * list failure :=
  let ts := scan (m_lit tcode old) O s in
  (subst (fun _ _ => new) ts, toks_log PLoopKeys ts).

Definition loop_part_t (legacy : bool) (body : tstr) (lc : list (str * str)) : tstr * list failure :=
  fold_left (fun (acc : tstr * list failure) kv =>
               let '(part, lg) := acc in
               let '(part', lg') := replace_all_t part (key_pattern (fst kv)) (taint FromLoopItem (sh legacy (snd kv))) in
               (part', lg ++ lg'))
            lc (body, []).

Fixpoint loop_items_t (legacy : bool) (body : tstr) (n i : nat) (items : list item) : tstr * list failure :=
  match items with
  | [] => ([], [])
  | it :: rest =>
      let '(p1, l1) := loop_part_t legacy body (loop_context i n it) in
      let '(p2, l2) := loop_items_t legacy body n (S i) rest in
      (p1 ++ p2, l1 ++ l2)
  end.

Definition pass_if_t (c : ctx) (s : tstr) : (tstr + error) * list failure :=
  tsub PIf (pure (fun (m : str * tstr * tstr) _ =>
                    let '(x, a, b) := m in
                    match lookup c x with
                    | Some v => if truthy v then a else b
                    | None => b
                    end))
       (scan (m_if tcode) O s).

Definition pass_each_t (legacy : bool) (c : ctx) (s : tstr) : (tstr + error) * list failure :=
  tsub PEach (fun (m : str * tstr) _ =>
                let '(x, body) := m in
                match lookup_seq c x with
                | Some items =>
                    let '(r, lg) := loop_items_t legacy body (length items) O items in (inl r, lg)
                | None => (inl [], [])
                end)
       (scan (m_each tcode) O s).

Inductive toutcome := OkT (text : tstr) (warnings : list warning) | ErrT (e : error).

(* the included text keeps template code points as template; every value-derived code
   point of the nested rendering becomes FromInclude for the including template *)
Definition through_include (t : tstr) : tstr :=
  map (fun a => (fst a, if is_template (snd a) then FromTemplate else FromInclude)) t.

Definition resolve_includes_t {R} (render : str -> R) (s : tstr) : list (ttok (str * R)) :=
  map (fun t => match t with
                | TLit a => TLit a
                | TMatch n c => TMatch (n, render n) c
                end)
      (scan (m_include tcode) O s).

Definition include_text_t (legacy : bool) (rs : list (ttok (str * option (toutcome * list failure))))
  : (tstr + error) * list failure :=
  tsub PInclude (fun (m : str * option (toutcome * list failure)) _ =>
                   match snd m with
                   | Some (OkT t _, lg) => (inl (tsh legacy (through_include t)), lg)
                   | Some (ErrT e, lg) => (inr e, lg)
                   | None => (inl (taint FromTemplate (S_UNKNOWN ++ fst m ++ [93])), [])
                   end) rs.
Definition include_warnings_t (legacy : bool) (rs : list (ttok (str * option (toutcome * list failure))))
  : list warning :=
  if legacy then []
  else flat_map (fun mc => match snd (fst mc) with Some (OkT _ w, _) => w | _ => [] end) (matches rs).

Definition pass_filtered_t {F : FTable} (legacy : bool) (c : ctx) (s : tstr) : (tstr + error) * list failure :=
  tsub PFiltered (fun (m : str * str) g0 =>
                    let '(x, f) := m in
                    match lookup c x with
                    | Some v =>
                        if is_filter f then
                          match apply_filter f v with
                          | inl r => (inl (taint FromFiltered (sh legacy r)), [])
                          | inr e => (inr e, [])
                          end
                        else (inl (taint FromFiltered (sh legacy (str_value v))), [])
                    | None => (inl g0, [])
                    end)
       (scan (m_filtered tcode) O s).
Definition warn_filtered_t {F : FTable} (c : ctx) (s : tstr) : list warning :=
  flat_map (fun mc => let '((x, f), _) := mc in
                      if bound c x && negb (is_filter f) then [WUnknownFilter f] else [])
           (matches (scan (m_filtered tcode) O s)).

Definition replace_default_t (s : tstr) (old : str) (new : tstr) : tstr * list failure :=
  let ts := scan (m_lit tcode old) O s in
  (subst (fun _ _ => new) ts, toks_log PDefault ts).

Definition pass_default_t {F : FTable} (legacy : bool) (c : ctx) (s : tstr) : tstr * list failure :=
  let ts := scan (m_default tcode) O s in
  fold_left (fun (acc : tstr * list failure) (mc : (str * str) * tstr) =>
               let '(res, lg) := acc in
               let '((x, d), g0) := mc in
               if is_filter d then (res, lg)
               else
                 let new := match lookup c x with
                            | Some v => taint FromDefault (sh legacy (str_value v))
                            | None => taint FromDefault (sh legacy d)
                            end in
                 let '(res', lg') := replace_default_t res (erase g0) new in
                 (res', lg ++ lg'))
            (matches ts) (s, toks_log PDefault ts).

Definition pass_optional_t (legacy : bool) (c : ctx) (s : tstr) : (tstr + error) * list failure :=
  tsub POptional (pure (fun (x : str) _ =>
                          match lookup c x with
                          | Some v => taint FromOptional (sh legacy (str_value v))
                          | None => []
                          end))
       (scan (m_optional tcode) O s).

Definition pass_simple_t (legacy raise : bool) (c : ctx) (s : tstr) : (tstr + error) * list failure :=
  tsub PSimple (fun (x : str) g0 =>
                  match lookup c x with
                  | Some v => (inl (taint FromPlain (sh legacy (str_value v))), [])
                  | None => if raise then (inr (EMissing x), []) else (inl g0, [])
                  end)
       (scan (m_simple tcode) O s).
Definition warn_simple_t (c : ctx) (s : tstr) : list warning :=
  flat_map (fun mc => if bound c (fst mc) then [] else [WUnbound (fst mc)])
           (matches (scan (m_simple tcode) O s)).

Definition text_of (r : tstr + error) : tstr := match r with inl t => t | inr _ => [] end.

Fixpoint translate_t {F : FTable} (legacy : bool) (fuel : nat) (strict : bool) (T : list (str * str)) (c : ctx) (s : str)
  : toutcome * list failure :=
  match fuel with
  | O => (ErrT EFuel, [])
  | S fuel' =>
      let miss := missing_vars legacy c s in
      match (if strict then miss else []) with
      | x :: _ => (ErrT (EMissing x), [])
      | [] =>
          let '(r1, l1) := pass_if_t c (taint FromTemplate s) in
          let '(r2, l2) := pass_each_t legacy c (text_of r1) in
          let rs := resolve_includes_t
                      (fun n => match lookup T n with
                                | Some sq => Some (translate_t legacy fuel' strict T c sq)
                                | None => None
                                end) (text_of r2) in
          let '(r3, l3) := include_text_t legacy rs in
          match r3 with
          | inr e => (ErrT e, l1 ++ l2 ++ l3)
          | inl s3 =>
              let '(r4, l4) := pass_filtered_t legacy c s3 in
              match r4 with
              | inr e => (ErrT e, l1 ++ l2 ++ l3 ++ l4)
              | inl s4 =>
                  let '(s5, l5) := pass_default_t legacy c s4 in
                  let '(r6, l6) := pass_optional_t legacy c s5 in
                  let s6 := text_of r6 in
                  let '(r7, l7) := pass_simple_t legacy (strict && negb legacy) c s6 in
                  let lg := l1 ++ l2 ++ l3 ++ l4 ++ l5 ++ l6 ++ l7 in
                  match r7 with
                  | inr e => (ErrT e, lg)
                  | inl s7 =>
                      (OkT (tunsh legacy s7)
                           (map WMissing miss ++ include_warnings_t legacy rs ++
                            warn_filtered_t c s3 ++ warn_simple_t c s6), lg)
                  end
              end
          end
      end
  end.

Definition render_taint {F : FTable} (strict : bool) (T : list (str * str)) (c : ctx) (s : str)
  : toutcome * list failure :=
  translate_t false (S (length T)) strict T c s.
Definition render_taint_legacy {F : FTable} (strict : bool) (T : list (str * str)) (c : ctx) (s : str)
  : toutcome * list failure :=
  translate_t true (S (length T)) strict T c s.

(* translate(mRNA(s, codons=...)) in the taint model (Impl.translate_decl): the up-front check walks the
   declared list [req]; the passes are the same and log the same *)
Definition translate_core_t {F : FTable} (legacy : bool) (fuel' : nat) (strict : bool) (T : list (str * str))
                            (c : ctx) (s : str) : toutcome * list failure :=
  let '(r1, l1) := pass_if_t c (taint FromTemplate s) in
  let '(r2, l2) := pass_each_t legacy c (text_of r1) in
  let rs := resolve_includes_t
              (fun n => match lookup T n with
                        | Some sq => Some (translate_t legacy fuel' strict T c sq)
                        | None => None
                        end) (text_of r2) in
  let '(r3, l3) := include_text_t legacy rs in
  match r3 with
  | inr e => (ErrT e, l1 ++ l2 ++ l3)
  | inl s3 =>
      let '(r4, l4) := pass_filtered_t legacy c s3 in
      match r4 with
      | inr e => (ErrT e, l1 ++ l2 ++ l3 ++ l4)
      | inl s4 =>
          let '(s5, l5) := pass_default_t legacy c s4 in
          let '(r6, l6) := pass_optional_t legacy c s5 in
          let s6 := text_of r6 in
          let '(r7, l7) := pass_simple_t legacy (strict && negb legacy) c s6 in
          let lg := l1 ++ l2 ++ l3 ++ l4 ++ l5 ++ l6 ++ l7 in
          match r7 with
          | inr e => (ErrT e, lg)
          | inl s7 =>
              (OkT (tunsh legacy s7)
                   (include_warnings_t legacy rs ++ warn_filtered_t c s3 ++ warn_simple_t c s6), lg)
          end
      end
  end.
Definition add_missing_t (miss : list str) (o : toutcome) : toutcome :=
  match o with OkT t w => OkT t (map WMissing miss ++ w) | ErrT e => ErrT e end.
Definition translate_decl_t {F : FTable} (legacy : bool) (fuel' : nat) (strict : bool) (T : list (str * str))
                            (c : ctx) (s : str) (req : list str) : toutcome * list failure :=
  let miss := missing_of legacy c s req in
  match (if strict then miss else []) with
  | x :: _ => (ErrT (EMissing x), [])
  | [] => let '(o, lg) := translate_core_t legacy fuel' strict T c s in (add_missing_t miss o, lg)
  end.
Definition render_taint_decl {F : FTable} (strict : bool) (T : list (str * str)) (c : ctx) (s : str)
                             (cs : list codon) : toutcome * list failure :=
  translate_decl_t false (length T) strict T c s (required_of cs s).

(* ------------------------------------------------------------------ *)
(* observations                                                         *)
Definition err_row (e : option error) : list Z :=
  match e with
  | None => [0]
  | Some (EMissing x) => 1 :: x
  | Some EType => [2]
  | Some EFuel => [3]
  end.
Definition warn_row (ws : list warning) : list Z :=
  flat_map (fun w => match w with
                     | WMissing x => 0 :: x ++ [-1]
                     | WUnknownFilter f => 1 :: f ++ [-1]
                     | WUnbound x => 2 :: x ++ [-1]
                     end) ws.
Definition failure_code (f : failure) : Z := origin_code (fst f) * 16 + pass_code (snd f).
Definition pairs_row (lg : list failure) : list Z :=
  let cs := map failure_code lg in
  filter (fun k => existsb (Z.eqb k) cs) (map Z.of_nat (seq 0 128)).

Definition obs_plain (o : outcome) : list (list Z) :=
  match o with
  | Ok t w => [err_row None; t; warn_row w]
  | Err e => [err_row (Some e); []; []]
  end.
Definition obs_taint (o : toutcome) : list (list Z) :=
  match o with
  | OkT t w => [err_row None; erase t; warn_row w]
  | ErrT e => [err_row (Some e); []; []]
  end.

(* raw strings of the context are sentinel-free (the harness's notion; for the generated
   contexts - identifier keys, ASCII - it coincides with Spec.ctx_ok) *)
Definition item_raw_ok (it : item) : bool :=
  match it with
  | IStr s => nosent s
  | IDict kvs => forallb (fun kv => nosent (fst kv) && nosent (snd kv)) kvs
  | IOpaque s r j => nosent s && nosent r && nosent j
  | IDictO kvs s r j => forallb (fun kv => nosent (fst kv) && nosent (snd kv)) kvs && nosent s && nosent r && nosent j
  | _ => true
  end.
Definition value_raw_ok (v : value) : bool :=
  match v with
  | VStr s | VOpaque s _ => nosent s
  | VList l | VTuple l => forallb item_raw_ok l
  | VObj s r j _ _ => nosent s && nosent r && match j with Some t => nosent t | None => true end
  | _ => true
  end.
Definition ctx_raw_ok (c : ctx) : bool := forallb (fun kv => value_raw_ok (snd kv)) c.

(* ------------------------------------------------------------------ *)
(* histories on one Ribosome instance                                    *)
(* What a Ribosome keeps between calls: the registry (name -> mRNA), the filter table (the
   built-in filters overlaid with the custom table given at construction and with every filter
   stored later: r.filters[name] = f, or a registration method where the class has one), the
   strict/silent flags and two statistics counters (_translations_count, _errors_count; read
   only by get_statistics()).  translate() reads the registry, the filters and strict, and
   nothing else: it reads neither counter, keeps no per-render state on the instance, and never
   looks at an mRNA's own .name (the registry is keyed by the REGISTERED name;
   Protein.source_mrna is not observed).  The model's instance state has the custom filter
   table, the registry, the flag and ONE counter standing for the statistics (the number of
   operations; the real counters also count nested translates and are not observed).
   Every definition of Impl.v / Spec.v takes the filter table as the implicit [F : FTable]; here
   it is passed explicitly ([@result_on (i_filters i)]), because it is part of the state. *)
Record instance := mkInstance {
  i_filters : ftable;
  i_templates : list (str * template);
  i_strict : bool;
  i_calls : Z }.

(* The three render operations are the three ENTRY POINTS that take the bindings as KEYWORD ARGUMENTS
   - Python's **context -; a fourth is internal: {{>n}} calls translate(n, **context) again.  The first parameter of
   translate() and of synthesize() is positional-only (e868ad8), so NO keyword can meet a parameter of the
   def: whatever identifier a binding is called - strict, template, sequence, self, context, name, silent,
   filters ... - it lands in **context under its own name.  In the model the context of an operation IS the
   list of keyword arguments of the call. *)
Inductive op :=
| OpRegister (n : str) (t : template)   (* create_template(seq, n) / register_template(mRNA(seq, any name)[, name=n]) *)
| OpRender (t : template) (c : ctx)     (* translate(mRNA(seq, any name) not registered, **c) *)
| OpTranslate (n : str) (c : ctx)       (* translate(n, **c) by registered name *)
| OpSetFilter (n : str) (cf : cfilter)  (* self.filters[n] = f *)
| OpRenderDecl (t : template) (cs : list codon) (c : ctx)
                                        (* translate(mRNA(seq, codons=cs) not registered, **c): hand-written codons
                                           ([] = the auto-detected ones, i.e. OpRender) *)
| OpSynth (t : template) (c : ctx).     (* synthesize(seq, **c) = translate(mRNA(seq, name="_direct_"), **c) *)

(* self.templates[n] = t : an existing key keeps its position *)
Fixpoint reg_set (T : list (str * template)) (n : str) (t : template) : list (str * template) :=
  match T with
  | [] => [(n, t)]
  | (k, u) :: T' => if str_eqb k n then (k, t) :: T' else (k, u) :: reg_set T' n t
  end.
(* self.filters[n] = f : the table is only ever read by key ([lookup]: first entry wins), so the
   newest entry goes in front; a built-in filter of that name is replaced (Impl.apply_filter
   consults the custom table first) *)
Definition ft_set (F : ftable) (n : str) (cf : cfilter) : ftable := (n, cf) :: F.

Inductive result :=
| RRegistered
| RFilterSet
| RUnknown (n : str)                                          (* ValueError("Unknown template: n") *)
| RRender (t : template) (c : ctx) (o : outcome) (ot : toutcome * list failure)
| RBindRefused (x : str).     (* TypeError("... got multiple values for argument 'x'"): the call never reached the
                                 renderer.  Only [result_on_legacy] (the API before e868ad8) answers it. *)

(* what an operation answers on filter table F and registry T, and the state afterwards: pure functions *)
Definition result_on {F : FTable} (strict : bool) (T : list (str * template)) (o : op) : result :=
  let render t c :=
    RRender t c (render_impl strict (print_templates T) c (print t))
                (render_taint strict (print_templates T) c (print t)) in
  match o with
  | OpRegister _ _ => RRegistered
  | OpSetFilter _ _ => RFilterSet
  | OpRender t c | OpSynth t c => render t c
  | OpRenderDecl t cs c =>
      RRender t c (render_impl_decl strict (print_templates T) c (print t) cs)
                  (render_taint_decl strict (print_templates T) c (print t) cs)
  | OpTranslate n c => match lookup T n with Some t => render t c | None => RUnknown n end
  end.
Definition registry_after (T : list (str * template)) (o : op) : list (str * template) :=
  match o with OpRegister n t => reg_set T n t | _ => T end.
Definition filters_after (F : ftable) (o : op) : ftable :=
  match o with OpSetFilter n cf => ft_set F n cf | _ => F end.

(* ------------------------------------------------------------------ *)
(* the API before e868ad8, kept for the ..._legacy_refuted lemma of Examples.v:
   def translate(self, template, **context) / def synthesize(self, sequence, **context) took their first
   parameters positional-OR-keyword, so a keyword argument of that name could not go to **context: Python
   raises TypeError("got multiple values for argument") for the FIRST keyword of the call that names a
   parameter already filled positionally - in synthesize first against its own (self, sequence), then, when it
   forwards **context, against translate's (self, template).  A binding called template, sequence or self
   was refused before anything was rendered. *)
(* K_SELF, K_TEMPLATE, K_SEQUENCE: Impl.v *)
Definition kw_clash (params : list str) (c : ctx) : option str :=
  match filter (fun kv : str * value => existsb (str_eqb (fst kv)) params) c with
  | [] => None
  | kv :: _ => Some (fst kv)
  end.
Fixpoint first_clash (defs : list (list str)) (c : ctx) : option str :=
  match defs with
  | [] => None
  | ps :: rest => match kw_clash ps c with Some x => Some x | None => first_clash rest c end
  end.
(* the defs the keywords of the call meet, outermost first *)
Definition legacy_defs (o : op) : list (list str) :=
  match o with
  | OpSynth _ _ => [[K_SELF; K_SEQUENCE]; [K_SELF; K_TEMPLATE]]
  | OpRender _ _ | OpRenderDecl _ _ _ | OpTranslate _ _ => [[K_SELF; K_TEMPLATE]]
  | _ => []
  end.
Definition op_ctx (o : op) : ctx :=
  match o with
  | OpRender _ c | OpSynth _ c | OpTranslate _ c | OpRenderDecl _ _ c => c
  | _ => []
  end.
Definition result_on_legacy {F : FTable} (strict : bool) (T : list (str * template)) (o : op) : result :=
  match first_clash (legacy_defs o) (op_ctx o) with
  | Some x => RBindRefused x
  | None => result_on strict T o
  end.

Definition step (i : instance) (o : op) : instance * result :=
  (mkInstance (filters_after (i_filters i) o) (registry_after (i_templates i) o) (i_strict i) (i_calls i + 1),
   @result_on (i_filters i) (i_strict i) (i_templates i) o).

(* a row of a history: the filter table and the registry the operation met, and its answer *)
Definition hrow := (ftable * list (str * template) * result)%type.

Fixpoint run_ops (i : instance) (os : list op) : list hrow :=
  match os with
  | [] => []
  | o :: rest => let '(i', r) := step i o in (i_filters i, i_templates i, r) :: run_ops i' rest
  end.

(* ------------------------------------------------------------------ *)
(* several Ribosome instances in one process                              *)
(* [SNew F T strict] is Ribosome(filters=F, strict=strict) followed by create_template for T: the
   new instance gets the next index.  [SOn k o] is operation o on instance number k (an index
   that does not exist yet addresses nothing).  Each instance has its OWN filter table and its OWN
   registry: an operation rewrites the state of the instance it is addressed to and of no other. *)
Inductive sop :=
| SNew (F : ftable) (T : list (str * template)) (strict : bool)
| SOn (k : nat) (o : op).

Fixpoint set_nth {X} (l : list X) (k : nat) (x : X) : list X :=
  match l, k with
  | [], _ => []
  | _ :: l', O => x :: l'
  | y :: l', S k' => y :: set_nth l' k' x
  end.

(* a row of a system history: the instance addressed, its strict flag, the row *)
Definition srow := (nat * bool * hrow)%type.

Fixpoint run_sys (sys : list instance) (ops : list sop) : list srow :=
  match ops with
  | [] => []
  | SNew F T strict :: rest => run_sys (sys ++ [mkInstance F T strict 0]) rest
  | SOn k o :: rest =>
      match nth_error sys k with
      | None => run_sys sys rest
      | Some i => let '(i', r) := step i o in
                  (k, i_strict i, (i_filters i, i_templates i, r)) :: run_sys (set_nth sys k i') rest
      end
  end.

(* case: the operations of one process in order, starting with no instance at all *)
Definition case := list sop.

(* the reference rendering (both modes, delimiter-free or not) whenever the CURRENT registry and
   the template are of the grammar and the context is sentinel-free *)
Definition spec_row {F : FTable} (T : list (str * template)) (strict : bool) (main : template) (cx : ctx) : list Z :=
  if well_formed main && forallb (fun nt => well_formed (snd nt)) T && ctx_raw_ok cx then
    match render_spec strict T cx main with
    | SOk t _ => 1 :: t
    | SErr EType => [2]
    | SErr (EMissing x) => 4 :: x
    | SErr _ => [3]
    end
  else [0].

(* rows per render: error; text; warnings; opacity failures (origin*16+pass, sorted);
                    reference rendering when applicable; plain model = erased taint model.
   a registration: one row [7]; a filter stored: one row [8]; translate of an unregistered name:
   [5; name] and five empty rows; a call that refuses a keyword binding (never answered by [step]): [6; name].  The reference rendering is computed with the filter table the
   operation met on ITS OWN instance. *)
Definition result_rows (sr : srow) : list (list Z) :=
  let '(_, strict, (F, T, r)) := sr in
  match r with
  | RRegistered => [[7]]
  | RFilterSet => [[8]]
  | RUnknown n => [5 :: n; []; []; []; [0]; [1]]
  | RBindRefused x => [6 :: x; []; []; []; [0]; [1]]
  | RRender t c o ot =>
      let plain := obs_plain o in
      plain ++ [pairs_row (snd ot); @spec_row F T strict t c; [b2z (zll_eqb plain (obs_taint (fst ot)))]]
  end.

Definition run_case (c : case) : list (list Z) :=
  concat (map result_rows (run_sys [] c)).
