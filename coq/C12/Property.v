(* C12 — property theorems only.  Each is closed by [exact] of a lemma from Proofs.v and
   followed by Print Assumptions.

   render_impl  : the model of the code (Impl.v): seven scanners = the seven regexes, in the
                  code's pass order, each pass re-scanning the partially rendered text;
   render_spec  : ONE left-to-right expansion of the template AST (Spec.v).

   The opacity conjunct of the property ("text that enters through a bound value, loop item
   or default is never re-interpreted") was FALSE of the code before the repairs: the
   c12_opacity_*_legacy_refuted lemmas in Examples.v were true of the code before the repairs
   1548caf / 29cb17a and are kept about the [legacy] model.  The theorems below are about the
   code as it is now and have no bound on template size, number of templates, include depth or
   context.

   Every theorem is about an instance constructed with an ARBITRARY custom filter table
   [F : FTable] (Ribosome(filters=F): names, possibly those of built-in filters, bound to callables
   of the family Impl.cfilter) whose names are identifiers ([ftable_ok]); [F := []] is the default
   Ribosome().  [render_impl], [render_spec], [is_filter], [apply_filter] take F implicitly. *)
From Coq Require Import ZArith List Bool.
From Verif Require Import C12.Impl C12.Spec C12.Model C12.Proofs.
Import ListNotations.

(* Rendering = the single left-to-right expansion with every bound value, loop item, default and
   included text emitted verbatim: for every well-formed template of the documented grammar
   (text, plain/optional/defaulted/filtered variables - all seven built-in filters -, {{.}}, if/else, each with
   item/index/first/last/dict keys, includes of any depth) and EVERY context whose strings do
   not contain the two shielding sentinels U+E000/U+E001 and whose dict-item keys are
   identifiers ([ctx_ok]; braces and any other code point are allowed), whenever the
   expansion is defined (no len() of an int/bool, no include cycle).  [well_formed] also asks
   the template text and defaults to be sentinel-free. *)
Theorem c12_render_eq :
  forall (F : FTable), ftable_ok F = true ->
  forall T c t txt miss,
    ctx_ok c = true ->
    forallb (fun nt => well_formed (snd nt)) T = true -> well_formed t = true ->
    render_spec false T c t = SOk txt miss ->
    exists w, render_impl false (print_templates T) c (print t) = Ok txt w.
Proof. exact @render_eq_proof. Qed.
Print Assumptions c12_render_eq.

(* FILTERED VARIABLES SEE THE RAW VALUE.  For each of the seven built-in filters (upper, lower,
   trim, title, length, json, repr) and every custom filter of the instance's table (which may
   look at the braces of the value, permute it, return template syntax, or replace a built-in
   filter of the same name), {{x|f}} renders exactly f applied to the bound value ITSELF -
   braces and all other template syntax in the value included: the filter is not applied to a
   shielded or otherwise rewritten copy, and its result is emitted as data.  Any registered
   templates, both modes (in strict mode the registered templates' own plain variables are
   bound, as in c12_strict_loop_vars), every admissible context.  [apply_filter f v = inl r]
   excludes only len() of an int / bool / None / float. *)
Theorem c12_filter_applied_to_raw_value :
  forall (F : FTable), ftable_ok F = true ->
  forall strict T c x f v r,
    ctx_ok c = true ->
    forallb (fun nt => well_formed (snd nt)) T = true ->
    (strict = true -> Forall (fun nt => out_bound c (snd nt)) T) ->
    word x = true -> is_filter f = true ->
    lookup c x = Some v -> apply_filter f v = inl r ->
    exists w, render_impl strict (print_templates T) c (print [NLeaf (LPipe x f)]) = Ok r w.
Proof. exact @filter_raw_value_proof. Qed.
Print Assumptions c12_filter_applied_to_raw_value.

(* Every plain variable written in the template outside {{#each}} bodies (if-branches
   included) that the context does not bind is reported: a "Missing required variable" warning,
   or an error in strict mode.  Any context, any registered templates. *)
Theorem c12_missing_plain_var_warned :
  forall (F : FTable), ftable_ok F = true ->
  forall T c t x,
    well_formed t = true -> In x (plain_vars_out t) -> lookup c x = None ->
    (forall txt w, render_impl false T c (print t) = Ok txt w -> In (WMissing x) w) /\
    (exists y, render_impl true T c (print t) = Err (EMissing y) /\ lookup c y = None).
Proof. exact @missing_plain_var_warned_proof. Qed.
Print Assumptions c12_missing_plain_var_warned.

(* An include of a template that is not registered renders the explicit marker, in both
   modes, for every context (delimiter-free or not). *)
Theorem c12_unknown_include_marker :
  forall (F : FTable), ftable_ok F = true ->
  forall strict T c n,
    word n = true -> lookup T n = None ->
    render_impl strict (print_templates T) c (print [NLeaf (LInc n)]) = Ok (unknown_marker n) [].
Proof. exact @unknown_include_marker_proof. Qed.
Print Assumptions c12_unknown_include_marker.

(* Strict mode accepts loop variables (29cb17a): when every plain variable written OUTSIDE
   {{#each}} bodies is bound - in the template and in the registered templates - strict mode
   renders exactly the reference expansion, in which {{item}} {{index}} {{first}} {{last}} and
   dict keys inside loop bodies are bound per item and any other plain variable of a loop body
   must be bound for the expansion to be defined. *)
Theorem c12_strict_loop_vars :
  forall (F : FTable), ftable_ok F = true ->
  forall T c t txt miss,
    ctx_ok c = true ->
    forallb (fun nt => well_formed (snd nt)) T = true -> well_formed t = true ->
    Forall (fun nt => out_bound c (snd nt)) T -> out_bound c t ->
    render_spec true T c t = SOk txt miss ->
    exists w, render_impl true (print_templates T) c (print t) = Ok txt w.
Proof. exact @strict_loop_vars_proof. Qed.
Print Assumptions c12_strict_loop_vars.

(* ... and a plain variable that is still there after the blocks are expanded ([blocks c t]:
   the chosen if-branches and one copy of each loop body per item, loop variables replaced)
   and is unbound is an error in strict mode, for any registered templates. *)
Theorem c12_strict_unbound_is_error :
  forall (F : FTable), ftable_ok F = true ->
  forall Ts c t x,
    ctx_ok c = true -> well_formed t = true ->
    In (LVar x) (blocks c t) -> lookup c x = None ->
    exists e, render_impl true Ts c (print t) = Err e.
Proof. exact @strict_unbound_error_proof. Qed.
Print Assumptions c12_strict_unbound_is_error.

(* OPACITY.  In the taint model (Model.v: the same scanners run over code points that carry
   their origin: template / plain / optional / filtered / default / loop item / include) no
   scanner match of any pass - conditionals, loops, the loop-body str.replace, includes, the
   filtered (built-in and custom filters), defaulted, optional and simple variable passes, nested
   includes to any depth -
   ever covers a code point whose origin is not the template: the log of (origin, pass)
   events is empty.  For EVERY well-formed template and registered templates, both modes, and
   EVERY admissible context (strings free of the sentinels U+E000/U+E001, identifier dict
   keys; braces and all template syntax allowed in values, items, dict values), whatever the
   outcome (rendering, strict-mode error, filter type error).  Together with c12_render_eq:
   the output is the one left-to-right expansion with the values verbatim. *)
Theorem c12_opacity :
  forall (F : FTable), ftable_ok F = true ->
  forall strict T c t,
    ctx_ok c = true ->
    forallb (fun nt => well_formed (snd nt)) T = true -> well_formed t = true ->
    snd (Model.render_taint strict (print_templates T) c (print t)) = [].
Proof. exact @opacity_proof. Qed.
Print Assumptions c12_opacity.

(* HISTORIES.  On one Ribosome instance every operation of a history - registrations
   (create_template, register_template with or without a name override, re-registration),
   filters stored after construction (r.filters[name] = f), synthesize / translate of an mRNA
   object, translate by name - answers the pure function [result_on] of (the filter table and the
   registry AS THEY ARE AT THAT MOMENT on this instance, strict, the operation): for a render,
   render_impl with the current filter table on the current registry.  Whatever an earlier call
   did - rendered, raised inside an include, bumped the counters, carried an mRNA whose own .name
   equals a registered name - leaves no trace. *)
Theorem c12_render_uses_current_registry :
  forall (F : ftable) T strict n os,
    Model.run_ops (Model.mkInstance F T strict n) os = replay strict F T os.
Proof. exact current_registry_proof. Qed.
Print Assumptions c12_render_uses_current_registry.

(* ... where a registration is dict assignment on the registry *)
Theorem c12_registration_is_assignment :
  forall T n t m,
    lookup (Model.reg_set T n t) m = if str_eqb n m then Some t else lookup T m.
Proof. exact (@lookup_reg_set nil eq_refl). Qed.
Print Assumptions c12_registration_is_assignment.

(* ... and storing a filter is dict assignment on the instance's filter table: afterwards {{x|n}}
   is a filtered variable applying the new callable, and every other word reads as before
   (a default stays a default, another filter stays that filter). *)
Theorem c12_filter_store_is_assignment :
  forall (F : ftable) n cf m,
    lookup (Model.ft_set F n cf) m = (if str_eqb n m then Some cf else lookup F m) /\
    @is_filter (Model.ft_set F n cf) m = (str_eqb n m || @is_filter F m).
Proof. exact (fun F n cf m => conj (lookup_ft_set F n cf m) (is_filter_ft_set F n cf m)). Qed.
Print Assumptions c12_filter_store_is_assignment.

(* SEVERAL INSTANCES.  In a process with any number of Ribosome objects ([run_sys]: instances are
   created at any moment, each operation is addressed to one of them), the answers instance j
   gives are exactly the history of a LONE instance that starts in j's state and is given the
   operations addressed to j, in order ([ops_on j]); with c12_render_uses_current_registry: every
   render on j is render_impl with j's OWN filter table and j's OWN registry as they are at that
   moment, under j's own strict flag.  Whatever is done to other instances - filters stored,
   templates registered, renders, exceptions - and whichever instances are created meanwhile
   cannot change how j reads {{name|word}}, what {{>name}} includes, or anything else. *)
Theorem c12_instances_isolated :
  forall ops sys j i,
    nth_error sys j = Some i ->
    rows_of j (Model.run_sys sys ops) = Model.run_ops i (ops_on j ops) /\
    (forall r, In r (Model.run_sys sys ops) -> fst (fst r) = j -> snd (fst r) = Model.i_strict i).
Proof. exact (fun ops sys j i H => conj (isolated_proof ops sys j i H) (sys_rows_strict ops sys j i H)). Qed.
Print Assumptions c12_instances_isolated.

(* ... and an instance constructed at ANY moment, whatever state [sys] the instances that already
   exist are in (any filters stored on them, any registrations), behaves as the lone instance of
   its own constructor arguments. *)
Theorem c12_fresh_instance_unaffected :
  forall sys F T strict ops,
    rows_of (length sys) (Model.run_sys sys (Model.SNew F T strict :: ops)) =
    Model.run_ops (Model.mkInstance F T strict 0) (ops_on (length sys) ops).
Proof. exact fresh_instance_proof. Qed.
Print Assumptions c12_fresh_instance_unaffected.

(* HAND-WRITTEN CODONS.  An mRNA may be built with codons=[...] of the caller's own: the list then
   REPLACES the auto-detected one, so the up-front required-variable check of translate() walks whatever
   was declared - fewer names than the sequence uses, names it never uses, repeated names, optional ones,
   other codon types ([required_of cs s]; cs = [] is the auto-detected list, i.e. render_impl).  Whatever
   the codons declare, they decide ONLY which "Missing required variable" reports the up-front check makes
   (an error in strict mode), and only about names that are declared required, unbound and written outside
   {{#each}} bodies: text, errors and warnings of the passes are [render_passes], which does not take the
   codons.  Any sequence (well-formed or not), any registered templates, any context, both modes. *)
Theorem c12_codons_only_add_reports :
  forall (F : FTable) strict T c s cs,
    (exists x, render_impl_decl strict T c s cs = Err (EMissing x) /\ strict = true /\
               In x (required_of cs s) /\ lookup c x = None /\
               occurs (key_pattern x) (outside_loops s) = true) \/
    (exists m, render_impl_decl strict T c s cs = add_missing m (render_passes strict T c s) /\
               (strict = true -> m = []) /\
               forall x, In x m -> In x (required_of cs s) /\ lookup c x = None /\
                                   occurs (key_pattern x) (outside_loops s) = true).
Proof. exact @codons_report_only_proof. Qed.
Print Assumptions c12_codons_only_add_reports.

(* ... so the rendering is the single left-to-right expansion WHATEVER the codons declare (c12_render_eq is
   the case cs = []) *)
Theorem c12_render_eq_any_codons :
  forall (F : FTable), ftable_ok F = true ->
  forall T c t txt miss cs,
    ctx_ok c = true ->
    forallb (fun nt => well_formed (snd nt)) T = true -> well_formed t = true ->
    render_spec false T c t = SOk txt miss ->
    exists w, render_impl_decl false (print_templates T) c (print t) cs = Ok txt w.
Proof. exact @render_eq_any_codons_proof. Qed.
Print Assumptions c12_render_eq_any_codons.

(* ... in strict mode as well, as soon as the up-front check passes: every name the codons declare required
   and that is written outside {{#each}} bodies is bound.  Nothing is asked of the plain variables of the
   template itself: those that are rendered are bound because the strict expansion is defined; one in an
   if-branch that is not taken is over-reported only by codons that declare it (the auto-detected ones do). *)
Theorem c12_strict_any_codons :
  forall (F : FTable), ftable_ok F = true ->
  forall T c t txt miss cs,
    ctx_ok c = true ->
    forallb (fun nt => well_formed (snd nt)) T = true -> well_formed t = true ->
    Forall (fun nt => out_bound c (snd nt)) T ->
    (forall x, In x (required_of cs (print t)) -> occurs (key_pattern x) (outside_loops (print t)) = true ->
               lookup c x <> None) ->
    render_spec true T c t = SOk txt miss ->
    exists w, render_impl_decl true (print_templates T) c (print t) cs = Ok txt w.
Proof. exact @strict_any_codons_proof. Qed.
Print Assumptions c12_strict_any_codons.

(* MISSING VARIABLES ARE REPORTED, whatever the codons declare and wherever the variable stands: a plain
   variable that is still there after the blocks are expanded ([blocks c t]: the chosen if-branches and ONE
   COPY OF EACH LOOP BODY PER ITEM with that item's own loop variables and dict keys replaced - so a key
   that only SOME items of the list carry leaves {{key}} behind for the others) and that the context does
   not bind is an error in strict mode and an "Unbound variable" warning otherwise.  With cs = [] this is
   translate() of an ordinary mRNA; c12_strict_unbound_is_error is its strict half for cs = []. *)
Theorem c12_rendered_unbound_var_reported :
  forall (F : FTable), ftable_ok F = true ->
  forall Ts c t x cs,
    ctx_ok c = true -> well_formed t = true ->
    In (LVar x) (blocks c t) -> lookup c x = None ->
    (forall txt w, render_impl_decl false Ts c (print t) cs = Ok txt w -> In (WUnbound x) w) /\
    (exists e, render_impl_decl true Ts c (print t) cs = Err e).
Proof. exact @rendered_unbound_reported_proof. Qed.
Print Assumptions c12_rendered_unbound_var_reported.

(* ... and opacity holds whatever the codons declare (c12_opacity is the case cs = []) *)
Theorem c12_opacity_any_codons :
  forall (F : FTable), ftable_ok F = true ->
  forall strict T c t cs,
    ctx_ok c = true ->
    forallb (fun nt => well_formed (snd nt)) T = true -> well_formed t = true ->
    snd (Model.render_taint_decl strict (print_templates T) c (print t) cs) = [].
Proof. exact @opacity_any_codons_proof. Qed.
Print Assumptions c12_opacity_any_codons.

(* no codons given = the auto-detected ones: render_impl is the case cs = [] of render_impl_decl *)
Theorem c12_auto_codons :
  forall (F : FTable) strict T c s, render_impl strict T c s = render_impl_decl strict T c s [].
Proof. exact @render_impl_auto. Qed.
Print Assumptions c12_auto_codons.

(* A BOUND VALUE CONTRIBUTES str(value), WHATEVER ITS TYPE.  At a plain variable {{x}}, an optional one {{?x}}
   and a defaulted one {{x|d}} (d any default text that is not a filter name) the rendering is exactly
   [str_value v] for EVERY value v of the model - str, int, bool, None, float, list, tuple and
   [VObj s r j t n], an object of any other type given by what Python's protocols answer for it:
   str(v) = s, repr(v) = r, json.dumps(v) = j or TypeError, bool(v) = t, len(v) = n or TypeError, five
   INDEPENDENT things.  For such an object the text is s - not its character data, not r, not j: a member
   of class Priority(str, Enum) renders "Priority.HIGH" (its data "high" is what len / json.dumps see), an
   instance of a str subclass whose __str__ masks its payload renders the mask.  Both modes, any
   registered templates, every admissible context; x is ANY identifier. *)
Theorem c12_bound_value_rendered_as_its_str :
  forall (F : FTable), ftable_ok F = true ->
  forall strict T c x d v l,
    ctx_ok c = true ->
    forallb (fun nt => well_formed (snd nt)) T = true ->
    (strict = true -> Forall (fun nt => out_bound c (snd nt)) T) ->
    word x = true -> nonempty d = true -> clean d = true -> is_filter d = false ->
    lookup c x = Some v ->
    In l [LVar x; LOpt x; LPipe x d] ->
    exists w, render_impl strict (print_templates T) c (print [NLeaf l]) = Ok (str_value v) w.
Proof. exact @value_text_proof. Qed.
Print Assumptions c12_bound_value_rendered_as_its_str.

(* ... and a loop item contributes str(item) at {{.}} and {{item}}: {{#each x}}{{item}}{{/each}} over a list or
   tuple of items none of which is a dict (a dict may rebind "item" itself) renders the concatenation of
   [str_item]: for [IOpaque s r j] - a float, a tuple, an Enum member, an instance of a str / int subclass
   with a __str__ of its own - that is s, whatever r and j are. *)
Theorem c12_loop_item_rendered_as_its_str :
  forall (F : FTable), ftable_ok F = true ->
  forall strict T c ws x items l,
    ctx_ok c = true ->
    forallb (fun nt => well_formed (snd nt)) T = true ->
    (strict = true -> Forall (fun nt => out_bound c (snd nt)) T) ->
    spaces ws = true -> word x = true ->
    lookup_seq c x = Some items ->
    forallb (fun it => negb (is_dict it)) items = true ->
    In l [LDot; LVar K_ITEM] ->
    exists w, render_impl strict (print_templates T) c (print [NEach ws x [l]]) = Ok (flat_map str_item items) w.
Proof. exact @item_text_proof. Qed.
Print Assumptions c12_loop_item_rendered_as_its_str.

(* EVERY IDENTIFIER CAN BE BOUND, ON EVERY ENTRY POINT.  The bindings are the keyword arguments of the call
   (Python's **context).  For every identifier x - strict, template, sequence, self, context, name, silent,
   filters ... : no exception - bound to any value v, each of the operations that take keyword bindings
   renders the variable as str(v): synthesize("{{x}}", x=v), translate(mRNA("{{x}}"), x=v), translate(n, x=v)
   for a registered n, and - the context being forwarded to the nested translate - synthesize("{{>n}}", x=v) /
   translate(mRNA("{{>n}}"), x=v); the same for {{?x}} and {{x|d}}.  No keyword is taken by the call itself,
   none is refused.  (Before e868ad8 the first parameters of translate / synthesize were positional-or-keyword:
   Examples.c12_binding_refused_legacy_refuted.) *)
Theorem c12_every_identifier_binds :
  forall (F : FTable), ftable_ok F = true ->
  forall strict T c x d v l n o,
    ctx_ok c = true ->
    forallb (fun nt => well_formed (snd nt)) T = true ->
    (strict = true -> Forall (fun nt => out_bound c (snd nt)) T) ->
    word x = true -> nonempty d = true -> clean d = true -> is_filter d = false ->
    lookup c x = Some v ->
    In l [LVar x; LOpt x; LPipe x d] ->
    word n = true -> lookup T n = Some [NLeaf l] ->
    In o [Model.OpSynth [NLeaf l] c; Model.OpRender [NLeaf l] c; Model.OpTranslate n c;
          Model.OpSynth [NLeaf (LInc n)] c; Model.OpRender [NLeaf (LInc n)] c] ->
    result_text (Model.result_on strict T o) = Some (str_value v).
Proof. exact @every_identifier_binds_proof. Qed.
Print Assumptions c12_every_identifier_binds.

(* ... also for an mRNA with hand-written codons (in strict mode as soon as the up-front check passes, as in
   c12_strict_any_codons) *)
Theorem c12_every_identifier_binds_any_codons :
  forall (F : FTable), ftable_ok F = true ->
  forall strict T c x d v l cs,
    ctx_ok c = true ->
    forallb (fun nt => well_formed (snd nt)) T = true ->
    (strict = true -> Forall (fun nt => out_bound c (snd nt)) T) ->
    (strict = true -> forall y, In y (required_of cs (print [NLeaf l])) ->
                      occurs (key_pattern y) (outside_loops (print [NLeaf l])) = true -> lookup c y <> None) ->
    word x = true -> nonempty d = true -> clean d = true -> is_filter d = false ->
    lookup c x = Some v ->
    In l [LVar x; LOpt x; LPipe x d] ->
    result_text (Model.result_on strict T (Model.OpRenderDecl [NLeaf l] cs c)) = Some (str_value v).
Proof. exact @every_identifier_binds_decl_proof. Qed.
Print Assumptions c12_every_identifier_binds_any_codons.
