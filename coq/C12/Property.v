(* C12 — property theorems only.  Each is closed by [exact] of a lemma from Proofs.v and
   followed by Print Assumptions.

   render_impl  : the model of the code (Impl.v): seven scanners = the seven regexes, in the
                  code's pass order, each pass re-scanning the partially rendered text;
   render_spec  : ONE left-to-right expansion of the template AST (Spec.v).

   The opacity conjunct of the property ("text that enters through a bound value, loop item
   or default is never re-interpreted") is FALSE of the unchanged code: see the
   c12_opacity_refuted_* lemmas in Examples.v (recorded findings).  What holds, and is proved
   here without any bound on template size, number of templates, include depth or context, is
   the conjunct about delimiter-free contexts. *)
From Coq Require Import ZArith List Bool.
From Verif Require Import C12.Impl C12.Spec C12.Proofs.
Import ListNotations.

(* Rendering = the single left-to-right expansion, for every well-formed template of the
   documented grammar (text, plain/optional/defaulted/filtered variables, {{.}}, if/else,
   each with item/index/first/last/dict keys, includes of any depth) and every
   delimiter-free context, whenever the expansion is defined (no len() of an int/bool, no
   include cycle). *)
Theorem c12_render_eq :
  forall T c t txt miss,
    delimiter_free c = true ->
    forallb (fun nt => well_formed (snd nt)) T = true -> well_formed t = true ->
    render_spec false T c t = SOk txt miss ->
    exists w, render_impl false (print_templates T) c (print t) = Ok txt w.
Proof. exact render_eq_proof. Qed.
Print Assumptions c12_render_eq.

(* stage 1 of the same statement: the variables-and-text fragment *)
Theorem c12_render_eq_vars :
  forall T c t txt miss,
    delimiter_free c = true -> well_formed t = true -> vars_only t = true ->
    render_spec false T c t = SOk txt miss ->
    exists w, render_impl false (print_templates T) c (print t) = Ok txt w.
Proof. exact render_eq_vars_proof. Qed.
Print Assumptions c12_render_eq_vars.

(* Every plain variable written in the template (block bodies included) that the context does
   not bind is reported: a "Missing required variable" warning, or an error in strict mode.
   Any context, any registered templates. *)
Theorem c12_missing_plain_var_warned :
  forall T c t x,
    well_formed t = true -> In x (plain_vars t) -> lookup c x = None ->
    (forall txt w, render_impl false T c (print t) = Ok txt w -> In (WMissing x) w) /\
    (exists y, render_impl true T c (print t) = Err (EMissing y) /\ lookup c y = None).
Proof. exact missing_plain_var_warned_proof. Qed.
Print Assumptions c12_missing_plain_var_warned.

(* An include of a template that is not registered renders the explicit marker, in both
   modes, for every context (delimiter-free or not). *)
Theorem c12_unknown_include_marker :
  forall strict T c n,
    word n = true -> lookup T n = None ->
    render_impl strict (print_templates T) c (print [NLeaf (LInc n)]) = Ok (unknown_marker n) [].
Proof. exact unknown_include_marker_proof. Qed.
Print Assumptions c12_unknown_include_marker.
